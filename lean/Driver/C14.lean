/-
Driver for C14: runs the model of ExecComp (values, declaration, uncolored / diagonal / colored
partials, exact tangent) over `Rat` (rational expressions) or `Float` (transcendental ones).
-/
import OMV.Model.Basic
import OMV.Model.C14
open Lean OMV OMV.C14

/-! ### numbers -/

def pow2Exp? (d : Nat) : Option Nat :=
  let k := d.log2
  if 2 ^ k == d then some k else none

/-- Exact for the dyadic rationals that are values of doubles. -/
def ratToFloat (q : Rat) : Float :=
  match pow2Exp? q.den with
  | some k => (Float.ofInt q.num).scaleB (-(k : Int))
  | none => Float.ofInt q.num / Float.ofNat q.den

/-- Exact rational value of a finite double (via its bit pattern). -/
def floatToRat? (f : Float) : Option Rat :=
  let b : Nat := f.toBits.toNat
  let neg : Bool := b / 2 ^ 63 == 1
  let ex : Nat := (b / 2 ^ 52) % 2048
  let man : Nat := b % 2 ^ 52
  if ex == 2047 then none
  else
    let m : Nat := if ex == 0 then man else man + 2 ^ 52
    let e : Int := if ex == 0 then -1074 else (ex : Int) - 1075
    let mi : Int := if neg then -(m : Int) else (m : Int)
    if e ≥ 0 then some ((mi * (2 ^ e.toNat : Nat) : Int) : Rat)
    else some (mkRat mi (2 ^ (-e).toNat))

def jFloat (f : Float) : Json :=
  match floatToRat? f with
  | some q => jRat q
  | none => jStr "nan"

/-! ### primitive tables -/

def isMax := isMaxName
def isMin := isMinName

def fpi : Float := 3.141592653589793
def ln10 : Float := Float.log 10.0

/-- `erf` by its Maclaurin series (|x| ≤ 3 is what the harness sends). -/
def erfSeries (x : Float) : Float := Id.run do
  let mut term := x
  let mut s := x
  for n in [1:80] do
    let nf := Float.ofNat n
    term := term * (-(x * x)) / nf
    s := s + term / (2.0 * nf + 1.0)
  return 2.0 / Float.sqrt fpi * s

def canon (f : String) : String :=
  match f with
  | "asin" => "arcsin" | "acos" => "arccos" | "atan" => "arctan"
  | "asinh" => "arcsinh" | "acosh" => "arccosh"
  | s => s

def fPrim (f : String) (x : Float) : Float :=
  match canon f with
  | "abs" => Float.abs x
  | "sin" => Float.sin x | "cos" => Float.cos x | "tan" => Float.tan x
  | "arcsin" => Float.asin x | "arccos" => Float.acos x | "arctan" => Float.atan x
  | "sinh" => Float.sinh x | "cosh" => Float.cosh x | "tanh" => Float.tanh x
  | "arcsinh" => Float.asinh x | "arccosh" => Float.acosh x
  | "exp" => Float.exp x | "expm1" => Float.exp x - 1.0
  | "log" => Float.log x | "log10" => Float.log x / ln10 | "log1p" => Float.log (1.0 + x)
  | "erf" => erfSeries x | "erfc" => 1.0 - erfSeries x
  | _ => 0.0 / 0.0

def fPrim' (f : String) (x : Float) : Float :=
  match canon f with
  | "abs" => if x < 0.0 then -1.0 else if x > 0.0 then 1.0 else 0.0
  | "sin" => Float.cos x | "cos" => -Float.sin x
  | "tan" => 1.0 / (Float.cos x * Float.cos x)
  | "arcsin" => 1.0 / Float.sqrt (1.0 - x * x)
  | "arccos" => -1.0 / Float.sqrt (1.0 - x * x)
  | "arctan" => 1.0 / (1.0 + x * x)
  | "sinh" => Float.cosh x | "cosh" => Float.sinh x
  | "tanh" => 1.0 - Float.tanh x * Float.tanh x
  | "arcsinh" => 1.0 / Float.sqrt (x * x + 1.0)
  | "arccosh" => 1.0 / Float.sqrt (x * x - 1.0)
  | "exp" => Float.exp x | "expm1" => Float.exp x
  | "log" => 1.0 / x | "log10" => 1.0 / (x * ln10) | "log1p" => 1.0 / (1.0 + x)
  | "erf" => 2.0 / Float.sqrt fpi * Float.exp (-(x * x))
  | "erfc" => -2.0 / Float.sqrt fpi * Float.exp (-(x * x))
  | _ => 0.0 / 0.0

def fPrim2 (f : String) (a b : Float) : Float :=
  if isMax f then (if a < b then b else a) else if isMin f then (if b < a then b else a)
  else if f == "arctan2" then Float.atan2 a b
  else if f == "power" then Float.pow a b
  else 0.0 / 0.0

def fPrim2a (f : String) (a b : Float) : Float :=
  if isMax f then (if a < b then 0.0 else 1.0) else if isMin f then (if b < a then 0.0 else 1.0)
  else if f == "arctan2" then b / (a * a + b * b)
  else if f == "power" then b * Float.pow a (b - 1.0)
  else 0.0 / 0.0

def fPrim2b (f : String) (a b : Float) : Float :=
  if isMax f then (if a < b then 1.0 else 0.0) else if isMin f then (if b < a then 1.0 else 0.0)
  else if f == "arctan2" then -a / (a * a + b * b)
  else if f == "power" then Float.pow a b * Float.log a
  else 0.0 / 0.0

def floatAlg : Alg Float := mkAlg ratToFloat fPrim fPrim2
def floatDeriv : Deriv Float := ⟨fPrim', fPrim2a, fPrim2b⟩

/-! ### parsing -/

partial def parseExpr (j : Json) : Option Expr := do
  let k ← fieldStr? j "k"
  match k with
  | "lit" => return .lit (← fieldRat? j "q")
  | "var" => return .var (← fieldNat? j "v")
  | "neg" => return .neg (← field? j "a" >>= parseExpr)
  | "add" => return .add (← field? j "a" >>= parseExpr) (← field? j "b" >>= parseExpr)
  | "sub" => return .sub (← field? j "a" >>= parseExpr) (← field? j "b" >>= parseExpr)
  | "mul" => return .mul (← field? j "a" >>= parseExpr) (← field? j "b" >>= parseExpr)
  | "div" => return .div (← field? j "a" >>= parseExpr) (← field? j "b" >>= parseExpr)
  | "powi" => return .powi (← field? j "a" >>= parseExpr) (← fieldInt? j "n")
  | "prim" =>
    let f ← fieldStr? j "f"
    if unaryNames.contains f then return .prim f (← field? j "a" >>= parseExpr) else none
  | "prim2" =>
    let f ← fieldStr? j "f"
    if binaryNames.contains f then
      return .prim2 f (← field? j "a" >>= parseExpr) (← field? j "b" >>= parseExpr)
    else none
  | "sum" => return .sum (← field? j "a" >>= parseExpr)
  | "dot" => return .dot (← field? j "a" >>= parseExpr) (← field? j "b" >>= parseExpr)
  | "idx" => return .idx (← field? j "a" >>= parseExpr) (← fieldNat? j "i")
  | "rev" => return .rev (← field? j "a" >>= parseExpr)
  | _ => none

def parseShape (j : Json) : Option Shape :=
  match j with
  | Json.null => some .sc
  | _ => (getNat? j).map Shape.arr

def isRationalExpr : Expr → Bool
  | .lit _ => true
  | .var _ => true
  | .neg a => isRationalExpr a
  | .add a b => isRationalExpr a && isRationalExpr b
  | .sub a b => isRationalExpr a && isRationalExpr b
  | .mul a b => isRationalExpr a && isRationalExpr b
  | .div a b => isRationalExpr a && isRationalExpr b
  | .powi a _ => isRationalExpr a
  | .prim f a => f == "abs" && isRationalExpr a
  | .prim2 f a b => (isMax f || isMin f) && isRationalExpr a && isRationalExpr b
  | .sum a => isRationalExpr a
  | .dot a b => isRationalExpr a && isRationalExpr b
  | .idx a _ => isRationalExpr a
  | .rev a => isRationalExpr a

def parseColoring (j : Json) : Option (List (List (Nat × List Nat))) := do
  let gs ← getList? j
  gs.mapM fun g => do
    let cs ← getList? g
    cs.mapM fun cr => do
      match ← getList? cr with
      | [c, rows] => return (← getNat? c, ← (← getList? rows).mapM getNat?)
      | _ => none

def declName : Decl → String
  | .none => "none" | .dense => "dense" | .diag => "diag" | .error => "error"

/-! ### one component -/

def runComp {K : Type} (A : Alg K) (D : Deriv K) (out : K → Json) (isZero : K → Bool)
    (c : Comp) (xs : List (List K)) (hd fix doCol skipPw : Bool)
    (coloring : Option (List (List (Nat × List Nat)))) : Json :=
  let x : Nat → Nat → K := fun v i => (xs.getD v []).getD i (A.lit 0)
  let nu := c.outs.length
  let nv := c.ins.length
  let us := List.range nu
  let vs := List.range nv
  let mat (f : Nat → Nat → Nat → Nat → Option K) : Json :=
    jArr (fun u => jArr (fun v =>
      let rows := (List.range (c.outShape u).size).map fun r =>
        (List.range (c.sh v).size).map fun j => f u v r j
      if rows.all (fun row => row.all Option.isSome) && c.decl hd u v != .none then
        jArr (fun row => jArr (fun e => match e with | some k => out k | none => Json.null) row) rows
      else Json.null) vs) us
  let spec : Json :=
    jArr (fun u => jArr (fun v =>
      jArr (fun r => jArr (fun j => out (jacSpec A D c x u v r j)) (List.range (c.sh v).size))
        (List.range (c.outShape u).size)) vs) us
  let base : List (String × Json) := [
    ("ok", jBool true), ("wf", jBool true),
    ("wantColoring", jBool (c.wantsColoring skipPw hd doCol)),
    ("doColoringAfter", jBool (c.doColoringAfterSetup skipPw hd doCol)),
    ("vals", jArr (fun u => jArr (fun r => out (valOut A D c x u r))
      (List.range (c.outShape u).size)) us),
    ("decl", jArr (fun u => jArr (fun v => jStr (declName (c.decl hd u v))) vs) us),
    ("J", mat (fun u v r j => partialEntry A D fix hd c x u v r j)),
    ("Jspec", spec)]
  match coloring with
  | none => jObj base
  | some G =>
    jObj (base ++ [
      ("colorOk", jBool (coloringOk A D isZero c x G)),
      ("Jcol", mat (fun u v r j => coloredEntry A D c x G u v r j))])

def handle (j : Json) : Option Json := do
  let op ← fieldStr? j "op"
  match op with
  | "comp" =>
    let mode ← fieldStr? j "mode"
    let ins ← (← fieldList? j "ins").mapM parseShape
    let outsJ ← fieldList? j "outs"
    let outs ← outsJ.mapM fun o => do
      let s ← field? o "shape" >>= parseShape
      let e ← field? o "expr" >>= parseExpr
      return (s, e)
    let xs ← (← fieldList? j "x").mapM fun l => (getList? l) >>= fun l => l.mapM getRat?
    let hd ← fieldBool? j "hd"
    let fix ← fieldBool? j "fix"
    let doCol ← fieldBool? j "doColoring"
    let skipPw ← fieldBool? j "skipPiecewise"
    let coloring ← optField? j "coloring" parseColoring
    let c : Comp := { ins := ins, outs := outs }
    if !c.wf || xs.length != ins.length ||
        !(List.zipWith (fun (s : Shape) (l : List Rat) => s.size == l.length) ins xs).all id then
      return jObj [("ok", jBool true), ("wf", jBool false)]
    match mode with
    | "rat" =>
      if !(outs.all fun o => isRationalExpr o.2) then
        return jObj [("ok", jBool false), ("err", jStr "not-rational")]
      return runComp ratAlg ratDeriv jRat (fun q => q == 0) c xs hd fix doCol skipPw coloring
    | "float" =>
      return runComp floatAlg floatDeriv jFloat (fun f => f == 0.0) c
        (xs.map fun l => l.map ratToFloat) hd fix doCol skipPw coloring
    | _ => none
  | "names" =>
    return jObj [("unary", jArr jStr unaryNames), ("binary", jArr jStr binaryNames),
      ("reductions", jArr jStr reductionNames), ("constants", jArr jStr constantNames),
      ("excluded", jArr jStr excludedNames)]
  | _ => none

def main : IO Unit := runDriver handle
