/- JSON decoding of the ModelSpec wire format (shared by the C01/C04/C08/C24/C32 drivers). -/
import OMV.Model.Basic
import OMV.Model.Spec
open Lean OMV OMV.Spec

namespace OMV.SpecJson

/-- ["c","n/d"] | ["v",k] | ["+",a,b] | ["*",a,b] | ["-",a] -/
partial def getExpr? (j : Json) : Option (Expr Rat) := do
  let l ← getList? j
  match l with
  | [Json.str "c", q] => (getRat? q).map Expr.const
  | [Json.str "v", k] => (getNat? k).map Expr.var
  | [Json.str "+", a, b] => do pure (Expr.add (← getExpr? a) (← getExpr? b))
  | [Json.str "*", a, b] => do pure (Expr.mul (← getExpr? a) (← getExpr? b))
  | [Json.str "-", a] => do pure (Expr.neg (← getExpr? a))
  | _ => none

/-- [src, "fac", "off"] -/
def getInputDef? (j : Json) : Option (InputDef Rat) := do
  let l ← getList? j
  match l with
  | [s, f, o] => do pure { src := ← getNat? s, fac := ← getRat? f, off := ← getRat? o }
  | _ => none

/-- {"start":..,"len":..,"ins":[inputdef],"polys":[expr over local input element variables]} -/
def getComp? (j : Json) : Option (Comp Rat) := do
  let start ← fieldNat? j "start"
  let len ← fieldNat? j "len"
  let ins ← (← fieldList? j "ins").mapM getInputDef?
  let polys ← (← fieldList? j "polys").mapM getExpr?
  pure { start := start, len := len, ins := ins,
         f := fun xs => polys.map (Expr.eval (fun i => xs.getD i 0)) }

def stateOfList (l : List Rat) : Nat → Rat := fun i => l.getD i 0
def listOfState (n : Nat) (u : Nat → Rat) : List Rat := (List.range n).map u

end OMV.SpecJson
