import OMV.Model.Basic
import OMV.Model.C17
open Lean OMV OMV.C17

/-! JSON-lines driver for C17: glob matching, variable selection, coordinate rendering, the reader
queries on a recorded log, and the log contract. Runs the definitions of `OMV.Model.C17`. -/

def toStr (s : String) : Str := s.toList
def ofStr (s : Str) : String := String.ofList s
def jS (s : Str) : Json := Json.str (ofStr s)
def jSs (l : List Str) : Json := jArr jS l

def getS? (j : Json) : Option Str := (getStr? j).map toStr
def fieldS? (j : Json) (k : String) : Option Str := (fieldStr? j k).map toStr
def getSs? (j : Json) : Option (List Str) := getList? j >>= fun l => l.mapM getS?
def fieldSs? (j : Json) (k : String) : Option (List Str) := field? j k >>= getSs?

def getOpts? (j : Json) : Option Opts := do
  let b := fun (k : String) => (fieldBool? j k).getD false
  pure { includes := ← fieldSs? j "includes", excludes := ← fieldSs? j "excludes",
         recordInputs := b "in", recordOutputs := b "out", recordResiduals := b "res",
         recordDesvars := b "desvars", recordObjectives := b "objectives",
         recordConstraints := b "constraints", recordResponses := b "responses" }

def getOutVar? (j : Json) : Option OutVar := do
  match ← getSs? j with
  | [a, p] => pure ⟨a, p⟩
  | _ => none

def getInVar? (j : Json) : Option InVar := do
  match ← getSs? j with
  | [a, p, s] => pure ⟨a, p, s⟩
  | _ => none

def getEnv? (j : Json) : Option Env := do
  let outs ← fieldList? j "outputs" >>= fun l => l.mapM getOutVar?
  let ins ← fieldList? j "inputs" >>= fun l => l.mapM getInVar?
  pure { outputs := outs, inputs := ins,
         desvars := (fieldSs? j "desvars").getD [],
         objectives := (fieldSs? j "objectives").getD [],
         constraints := (fieldSs? j "constraints").getD [],
         pathname := (fieldS? j "pathname").getD [] }

def jSel (s : Sel) : Json :=
  jObj [("input", jSs s.input), ("output", jSs s.output), ("residual", jSs s.residual)]

def getKind? (j : Json) : Option Kind :=
  match j with
  | Json.str "driver" => some .driver
  | Json.str "system" => some .system
  | Json.str "solver" => some .solver
  | Json.str "problem" => some .problem
  | _ => none

def kindStr : Kind → String
  | .driver => "driver" | .system => "system" | .solver => "solver" | .problem => "problem"

def getRow? (j : Json) : Option Row := do
  match ← getList? j with
  | [k, n, s, c] => pure { kind := ← getKind? k, name := ← getS? n, source := ← getS? s, counter := ← getNat? c }
  | _ => none

def getCoord? (j : Json) : Option Coord := do
  let l ← getList? j
  l.mapM fun p => do
    match ← getList? p with
    | [n, c] => pure ((← getS? n), (← getNat? c))
    | _ => none

def getCfg (j : Json) : Cfg :=
  match field? j "cfg" with
  | some c => { rootPrefixExact := (fieldBool? c "root").getD false,
                solverIndexLast := (fieldBool? c "solver").getD false,
                getCaseProblem := (fieldBool? c "getcase").getD false,
                sourceFromRows := (fieldBool? c "rows").getD false }
  | none => {}

def errStr : Err → String
  | .notFound => "notFound" | .sourceNotFound => "sourceNotFound" | .noRoot => "noRoot"
  | .cantParse => "cantParse" | .indexError => "indexError" | .unbound => "unbound"
  | .valueError => "valueError"

def jErr (e : Err) : Json := jObj [("err", jStr (errStr e))]

partial def jTree : Tree → Json
  | .node n ch => Json.arr #[jS n, Json.arr (ch.map jTree).toArray]

def jRes : Res → Json
  | .flat l => jObj [("flat", jSs l)]
  | .nested t => jObj [("nested", Json.arr (t.map jTree).toArray)]
  | .err e => jErr e

def jRowRes : Except Err Row → Json
  | .ok r => jObj [("ok", Json.arr #[jStr (kindStr r.kind), jS r.name, jNat r.counter])]
  | .error e => jErr e

def answer (cfg : Cfg) (db : Db) (q : Json) : Option Json := do
  match ← fieldStr? q "q" with
  | "list_cases" =>
    let src ← optField? q "source" getS?
    pure (jRes (db.listCases cfg src (← fieldBool? q "recurse") (← fieldBool? q "flat")))
  | "list_sources" => pure (jObj [("sources", jSs (db.listSources cfg))])
  | "get_case" => pure (jRowRes (db.getCaseByName (← fieldS? q "name")))
  | "get_case_idx" => pure (jRowRes (db.getCaseByIndex cfg (← fieldInt? q "i")))
  | "source_of" =>
    match getSource cfg (← field? q "kind" >>= getKind?) (← fieldS? q "name") with
    | .ok s => pure (jObj [("ok", jS s)])
    | .error e => pure (jErr e)
  | _ => none

def isDescO (c : Coord) : Option Coord → Bool
  | some k => c.isPrefixOf k
  | none => false

def handle (j : Json) : Option Json := do
  match ← fieldStr? j "op" with
  | "globs" =>
    let pairs ← fieldList? j "pairs"
    let rs ← pairs.mapM fun p => do
      match ← getSs? p with
      | [pat, name] => pure (jBool (globMatch pat name))
      | _ => none
    pure (jObj [("r", Json.arr rs.toArray)])
  | "select" =>
    let o ← field? j "opts" >>= getOpts?
    let e ← field? j "env" >>= getEnv?
    match ← fieldStr? j "kind" with
    | "driver" => pure (jSel (driverStored o e))
    | "system" => pure (jSel (systemStored o e))
    | "solver" => pure (jSel (solverStored o e))
    | _ => none
  | "render" =>
    let items ← fieldList? j "items"
    let rs ← items.mapM fun it => do
      let pfx ← optField? it "prefix" getS?
      let st ← field? it "stack" >>= getCoord?
      pure (jS (formatCoord pfx 0 st))
    pure (jObj [("r", Json.arr rs.toArray)])
  | "reader" =>
    let rows ← fieldList? j "rows" >>= fun l => l.mapM getRow?
    let db := Db.build rows
    let cfg := getCfg j
    let qs ← fieldList? j "queries"
    let rs ← qs.mapM (answer cfg db)
    pure (jObj [("r", Json.arr rs.toArray)])
  | "contract" =>
    -- rows with the recording stack observed for each of them (`null` for problem cases); the first
    -- name of a stack carries the `[prefix_]rank0:` part so that the stored name is `renderStack`
    let rows ← fieldList? j "rows" >>= fun l => l.mapM getRow?
    let coords ← fieldList? j "coords" >>= fun l => l.mapM (fun c => match c with
      | Json.null => some none
      | c => (getCoord? c).map some)
    let rendered := (rows.zip coords).all (fun rc => match rc.2 with
      | some c => rc.1.name == renderStack c
      | none => !rc.1.name.contains '|')
    let names := rows.map (·.name)
    -- the specification of the descendant query, for every row that has a stack
    let spec := coords.map (fun c? => match c? with
      | some c => jSs (((rows.zip coords).filter (fun rc => isDescO c rc.2)).map (·.1.name))
      | none => Json.null)
    pure (jObj [("contract", jBool (logContract coords)), ("sync", jBool (countersSync rows)),
                ("nodup", jBool (nodupB names)), ("rendered", jBool rendered),
                ("desc", Json.arr spec.toArray)])
  | _ => none

def main : IO Unit := runDriver handle
