import OMV.Model.Basic
import OMV.Model.C22
open Lean OMV OMV.C22

def getBound? (j : Json) : Option (Bound Rat) :=
  match j with
  | Json.arr a => (a.toList.mapM getRat?).map Bound.array
  | _ => (getRat? j).map Bound.scalar

def handle (j : Json) : Option Json := do
  let op ← fieldStr? j "op"
  match op with
  | "viol" =>
    let g ← fieldRats? j "g"
    let eq ← optField? j "equals" getBound?
    let sc ← optField? j "scaler" getBound?
    let r : Option (List Rat) ←
      match eq with
      | some e => pure (violEqVec g e)
      | none => do
        let lo ← field? j "lower" >>= getBound?
        let hi ← field? j "upper" >>= getBound?
        pure (violVec g lo hi)
    match r >>= scaleVec sc with
    | some v => pure (jObj [("ok", jBool true), ("v", jRats v)])
    | none => pure (jObj [("ok", jBool false), ("err", jStr "shape")])
  | _ => none

def main : IO Unit := runDriver handle
