import OMV.Model.Basic
import OMV.Model.C21
open Lean OMV OMV.C21

/-! JSON-lines driver for C21: runs the definitions of `OMV.C21` (the ones the theorems are about)
on the bound patterns of one constraint / design variable and on callback traces. -/

def getVariant? (j : Json) : Option Variant := do
  pure { rebind := (← fieldBool? j "rebind"), lastOnly := (← fieldBool? j "lastOnly"),
         linRow0 := (← fieldBool? j "linRow0"), negNew := (← fieldBool? j "negNew"),
         noSwap := (← fieldBool? j "noSwap"), noSync := (← fieldBool? j "noSync"),
         noFinalSync := (← fieldBool? j "noFinalSync") }

def fn (l : List Rat) : Nat → Rat := fun j => l.getD j 0

def fieldRatss? (j : Json) (k : String) : Option (List (List Rat)) :=
  fieldList? j k >>= fun l => l.mapM fun r => getList? r >>= fun e => e.mapM getRat?

def kindStr : Kind → String
  | .eq => "eq"
  | .ineq => "ineq"

/-- One constraint: scaled bounds, the records the driver hands to scipy, their values / Jacobian
signs / satisfaction at every probe, and the element-wise specification. -/
def handleCon (j : Json) : Option Json := do
  let style ← fieldStr? j "style"
  let v ← field? j "variant" >>= getVariant?
  let inf ← fieldRat? j "inf"
  let tol ← fieldRat? j "tol"
  let size ← fieldNat? j "size"
  if size > 10000 then
    return jObj [("ok", jBool false), ("err", jStr "size-too-large")]
  let lo ← fieldRats? j "lower"
  let hi ← fieldRats? j "upper"
  let eq ← optField? j "equals" (fun e => getList? e >>= fun l => l.mapM getRat?)
  let ad ← fieldRats? j "adder"
  let sc ← fieldRats? j "scaler"
  let linear ← fieldBool? j "linear"
  let off ← fieldRats? j "off"
  let gs ← fieldRatss? j "g"
  let axs ← fieldRatss? j "ax"
  -- Autoscaler._compute_scaled_bounds, elementwise
  let pairs := (List.range size).map fun i =>
    scaledPair v inf 0 (fn lo i) (fn hi i) (fn ad i) (fn sc i)
  let los := pairs.map (·.1)
  let his := pairs.map (·.2)
  let eqs := eq.map fun e => (List.range size).map fun i =>
    scaleBound inf false (fn e i) (fn ad i) (fn sc i)
  let c : Con Rat := ⟨size, fn los, fn his, eqs.map fn, linear⟩
  let elemOk := gs.map fun g => (List.range size).map fun i => decide (ElemOK inf tol c (fn g) i)
  let common := [("lower_s", jRats los), ("upper_s", jRats his),
    ("equals_s", match eqs with | some e => jRats e | none => Json.null),
    ("elem_ok", jArr (jArr jBool) elemOk)]
  -- `_congradfunc` decides the sign from `meta['lower']` (model units); the repaired code, which
  -- exchanges the scaled bounds under a negative scaler, has to look at the scaled lower bound
  let unset := fun (i : Nat) =>
    if v.noSwap then decide (fn lo i ≤ -inf) else decide (fn los i ≤ -inf)
  match style with
  | "old" =>
    let recs := oldRecords v inf c
    let out := recs.map fun r =>
      jObj [("t", jStr (kindStr r.kind)), ("idx", jNat r.idx), ("dbl", jBool r.dbl),
        ("sign", jInt (congradSign v false eq.isSome (unset r.idx) r.dbl)),
        ("v", jRats (gs.map fun g => confunc inf c (fn g) r)),
        ("sat", jArr jBool (gs.map fun g => decide (recSat tol r.kind (confunc inf c (fn g) r))))]
    pure (jObj ([("ok", jBool true), ("recs", Json.arr out.toArray)] ++ common))
  | "new" =>
    match newRecords v inf c (fn off) with
    | none => pure (jObj ([("ok", jBool false), ("err", jStr "lin-shape")] ++ common))
    | some recs =>
      let out := recs.map fun r =>
        let (t, idx, lb, ub) := match r with
          | .nl i l u => ("nl", i, l, u)
          | .lin i l u => ("lin", i, l, u)
        jObj [("t", jStr t), ("idx", jNat idx), ("lb", jRat lb), ("ub", jRat ub),
          -- `_congradfunc` serves the NonlinearConstraints; a LinearConstraint gets the raw rows
          ("sign", jInt (match r with
            | .nl _ _ _ => congradSign v true eq.isSome (unset idx) false
            | .lin _ _ _ => 1)),
          ("v", jRats ((gs.zip axs).map fun (g, ax) => newValue (fn g) (fn ax) r)),
          ("sat", jArr jBool ((gs.zip axs).map fun (g, ax) =>
            decide (newSat tol (fn g) (fn ax) r)))]
      pure (jObj ([("ok", jBool true), ("recs", Json.arr out.toArray)] ++ common))
  | _ => none

/-- One design variable: scaled bounds and what scipy gets (`null` = None). -/
def handleDv (j : Json) : Option Json := do
  let v ← field? j "variant" >>= getVariant?
  let inf ← fieldRat? j "inf"
  let tol ← fieldRat? j "tol"
  let lo ← fieldRats? j "lower"
  let hi ← fieldRats? j "upper"
  let ad ← fieldRats? j "adder"
  let sc ← fieldRats? j "scaler"
  let xs ← fieldRats? j "x"
  let n := lo.length
  let out := (List.range n).map fun i =>
    let p := scaledPair v inf 0 (fn lo i) (fn hi i) (fn ad i) (fn sc i)
    let b := dvBound inf p.1 p.2
    let o := fun (q : Option Rat) => match q with | some r => jRat r | none => Json.null
    jObj [("lb", o b.1), ("ub", o b.2), ("sat", jBool (decide (boundSat tol b (fn xs i)))),
      ("ok", jBool (decide (IntervalOK inf tol p.1 p.2 (fn xs i))))]
  pure (jObj [("ok", jBool true), ("b", Json.arr out.toArray)])

/-- A callback trace: `[["o", id], ["c", id], ["g", id], ["j", id], ...]` (objective, constraint
value, objective gradient, constraint Jacobian) with designs numbered by the harness. -/
def handleTrace (j : Json) : Option Json := do
  let l ← fieldList? j "calls"
  let calls ← l.mapM fun c => do
    let p ← getList? c
    match p with
    | [k, x] => do
      let x ← getNat? x
      match (← getStr? k) with
      | "o" => pure (Call.obj x)
      | "c" => pure (Call.con x)
      | "g" => pure (Call.grad x)
      | "j" => pure (Call.cgrad x)
      | _ => none
    | _ => none
  -- all functions of the model are structural recursions on this list (linear time); the cap only
  -- bounds the work a single malformed request can ask for
  if calls.length > 20000 then
    return jObj [("ok", jBool false), ("err", jStr "trace-too-long")]
  let s0 ← fieldNat? j "start"
  let v ← field? j "variant" >>= getVariant?
  let xr ← fieldNat? j "result"
  let r := run v (⟨s0, none⟩ : St Nat) calls
  pure (jObj [("ok", jBool true), ("obj_first", jBool (decide (ObjFirst s0 none calls))),
    ("answered_at", jNats r.1), ("final", jNat (finish v r.2 xr).model),
    ("pure", jBool (decide (r.1 = calls.map Call.arg)))])

def handle (j : Json) : Option Json := do
  match (← fieldStr? j "op") with
  | "con" => handleCon j
  | "dv" => handleDv j
  | "trace" => handleTrace j
  | _ => none

def main : IO Unit := runDriver handle
