import OMV.Model.Basic
import OMV.Model.C06
import OMV.Generated.C06UnitLib
open Lean OMV OMV.C06

/-!
Driver of C06.  One request = one script of public-API calls, executed from the pristine generated
library (`Gen.lib`), the library state being threaded through the calls exactly as `_find_unit`
mutates `unit_table`:

  {"op":"script","steps":[["find",e],["compat",a,b],["conv",a,b],["convert","n/d",a,b],["simplify",e]]}

A unit argument is a JSON string or `null` (Python `None`).
-/

/-- exact rational `r`-th root when it exists (`x ** (1/r)` of a positive perfect power) -/
def natRoot (n : Nat) (r : Nat) : Option Nat :=
  -- bisection on [0, n]
  let rec go (fuel : Nat) (lo hi : Nat) : Nat :=
    match fuel with
    | 0 => lo
    | f + 1 =>
      if hi ≤ lo + 1 then lo else
        let mid := (lo + hi) / 2
        if mid ^ r ≤ n then go f mid hi else go f lo mid
  if r = 0 then none else
  let s := go (n.log2 + 4) 0 (n + 1)
  if s ^ r = n then some s else none

def ratRoot (x : Rat) (r : Int) : Option Rat :=
  if r = 0 then none
  else if x ≤ 0 then none
  else
    match natRoot x.num.natAbs r.natAbs, natRoot x.den r.natAbs with
    | some a, some b =>
      let y : Rat := mkRat a b
      if 0 < r then some y else some (1 / y)
    | _, _ => none

def errJson (e : Err) : Json :=
  match e with
  | .invalid => jObj [("ok", jBool false), ("err", jStr "invalid")]
  | .abstain w => jObj [("ok", jBool false), ("err", jStr "abstain"), ("why", jStr w)]
  | .typeErr => jObj [("ok", jBool false), ("err", jStr "error"), ("kind", jStr "TypeError")]
  | .nameErr => jObj [("ok", jBool false), ("err", jStr "error"), ("kind", jStr "NameError")]
  | .zeroDiv => jObj [("ok", jBool false), ("err", jStr "error"), ("kind", jStr "ZeroDivisionError")]
  | .syntax => jObj [("ok", jBool false), ("err", jStr "error"), ("kind", jStr "SyntaxError")]

def tokJson (t : Tok) : Json :=
  match t with
  | .int n => Json.arr #[jStr "int", jRat (n : Rat)]
  | .flt q => Json.arr #[jStr "flt", jRat q]
  | .ident s => Json.arr #[jStr "id", jStr s]
  | .star => Json.arr #[jStr "op", jStr "*"]
  | .dstar => Json.arr #[jStr "op", jStr "**"]
  | .slash => Json.arr #[jStr "op", jStr "/"]
  | .lpar => Json.arr #[jStr "op", jStr "("]
  | .rpar => Json.arr #[jStr "op", jStr ")"]
  | .minus => Json.arr #[jStr "op", jStr "-"]

def atomJson (a : Atom Rat) : Json :=
  match a with
  | .sym s => Json.arr #[jStr "sym", jStr s]
  | .litI i => Json.arr #[jStr "int", jRat (i : Rat)]
  | .litF q => Json.arr #[jStr "flt", jRat q]

def unitJson (u : PUnit Rat) : List (String × Json) :=
  [("f", jRat u.factor), ("o", jRat u.offset), ("p", jInts u.powers),
   ("names", jArr (fun kv : Atom Rat × Pw =>
      Json.arr #[atomJson kv.1, jInt kv.2.v]) u.names)]

def getUnitArg? (j : Json) : Option (Option String) :=
  match j with
  | Json.null => some none
  | Json.str s => some (some s)
  | _ => none

def valJson (v : Except Err Val) : Json :=
  match v with
  | .error e => errJson e
  | .ok (.unit u) => jObj ([("ok", jBool true), ("t", jStr "unit")] ++ unitJson u)
  | .ok (.num x) => jObj [("ok", jBool true), ("t", jStr "num"), ("f", jRat x.toRat)]

def isAbst {α : Type} (r : Except Err α) : Bool :=
  match r with
  | .error (.abstain _) => true
  | _ => false

/-- one step; `none` = malformed request -/
def step (lib : Lib) (j : Json) : Option (Json × Lib × Bool) := do
  let l ← getList? j
  let f ← l.head? >>= getStr?
  match f, l with
  | "find", [_, e] =>
    let e ← getStr? e
    let (r, lib') := findUnit ratRoot lib e
    let js := match r with
      | .error x => errJson x
      | .ok u => jObj ([("ok", jBool true)] ++ unitJson u)
    pure (js, lib', isAbst r)
  | "compat", [_, a, b] =>
    let a ← getUnitArg? a
    let b ← getUnitArg? b
    let (r, lib') := apiIsCompatible ratRoot lib a b
    let js := match r with
      | .error x => errJson x
      | .ok v => jObj [("ok", jBool true), ("b", jBool v)]
    pure (js, lib', isAbst r)
  | "conv", [_, a, b] =>
    let a ← getStr? a
    let b ← getStr? b
    let (r, lib') := apiUnitConversion ratRoot lib a b
    let js := match r with
      | .error x => errJson x
      | .ok (s, d) => jObj [("ok", jBool true), ("s", jRat s), ("d", jRat d)]
    pure (js, lib', isAbst r)
  | "convert", [_, x, a, b] =>
    let x ← getRat? x
    let a ← getUnitArg? a
    let b ← getUnitArg? b
    let (r, lib') := apiConvert ratRoot lib x a b
    let js := match r with
      | .error x => errJson x
      | .ok v => jObj [("ok", jBool true), ("v", jRat v)]
    pure (js, lib', isAbst r)
  | "simplify", [_, e] =>
    let e ← getStr? e
    -- the unit itself, to evaluate its rendered name again
    let (r, lib') := apiSimplify ratRoot lib e
    let (ru, _) := findUnit ratRoot lib e
    let js := match r, ru with
      | .error x, _ => errJson x
      | .ok .unity, _ => jObj [("ok", jBool true), ("toks", Json.null)]
      | .ok .same, _ => jObj [("ok", jBool true), ("same", jBool true)]
      | .ok (.toks ts), .ok u =>
        let raw := nameToks u.names
        -- runtime check of the link  parseToks (nameToks n) = nameExpr n
        let link := decide (parseToks raw = some (nameExpr u.names))
        let back := evalE ratRoot lib'.baseNames lib'.table (nameExpr u.names)
        jObj [("ok", jBool true), ("toks", jArr tokJson ts), ("link", jBool link),
              ("back", valJson back)]
      | .ok (.toks ts), .error _ => jObj [("ok", jBool true), ("toks", jArr tokJson ts)]
    pure (js, lib', isAbst r)
  | _, _ => none

def runSteps (lib : Lib) (steps : List Json) (dead : Bool) (acc : List Json) : Option (List Json) :=
  match steps with
  | [] => some acc.reverse
  | s :: rest =>
    if dead then
      runSteps lib rest true (jObj [("ok", jBool false), ("err", jStr "abstain"), ("why", jStr "after abstain")] :: acc)
    else
      match step lib s with
      | none => none
      | some (js, lib', ab) => runSteps lib' rest ab (js :: acc)

def handle (j : Json) : Option Json := do
  let op ← fieldStr? j "op"
  match op with
  | "script" =>
    let steps ← fieldList? j "steps"
    let res ← runSteps Gen.lib steps false []
    pure (jObj [("res", Json.arr res.toArray)])
  | "parse" =>
    -- tokens and AST shape of a string (debug / tie of the lexer to Python's tokenizer)
    let e ← fieldStr? j "e"
    match lex (subAs e.toList) with
    | .error x => pure (errJson x)
    | .ok ts => pure (jObj [("ok", jBool true), ("toks", jArr tokJson ts),
                           ("parsed", jBool (parseToks ts).isSome)])
  | _ => none

def main : IO Unit := runDriver handle
