import OMV.Model.Basic
import OMV.Model.C29
open Lean OMV OMV.C29

/-
Requests (one JSON object per line):

* `{"op":"run","fixed":b,"dg":delims,"dp":delims,"lines":[..],"gen":[step..],"par":[step..]}`
  runs the generator steps on the template lines, then the parser steps on the generated lines.
  generator steps: `reset` | `mark a occ` | `var v row field` | `arr vals rs fs fe re sep` |
  `arr2 vals rs re fs fe`;  parser steps: `reset` | `mark` | `var row field` |
  `arr rs fs re fe` | `arr2 rs fs re fe` | `key key field occ off`.
* `{"op":"fmt","sel":"f1"|"g16","f":FLT}`  the executable reference of `fmt % val`
* `{"op":"getformat","f":FLT}`  `_getformat`
* `{"op":"special","fixed":b,"t":text}`  special-token table of the parser
-/

abbrev StrTab := List (Flt × Text)

def getText? (j : Json) : Option Text := (getStr? j).map String.toList
def fieldText? (j : Json) (k : String) : Option Text := field? j k >>= getText?
def jText (t : Text) : Json := jStr (String.ofList t)

def getFlt? (j : Json) : Option Flt := do
  let k ← fieldStr? j "k"
  match k with
  | "nan" => pure .nan
  | "inf" => pure (.inf false)
  | "-inf" => pure (.inf true)
  | "fin" =>
    let q ← fieldRat? j "q"
    let z := (fieldBool? j "nz").getD false
    pure (.fin q z)
  | _ => none

/-- A value and, for floats, the table entry for `str(val)`. -/
def getVal? (j : Json) : Option (Val × StrTab) := do
  let t ← fieldStr? j "t"
  match t with
  | "i" =>
    let s ← fieldStr? j "v"
    let i ← s.toInt?
    pure (.int i, [])
  | "s" =>
    let s ← fieldText? j "v"
    pure (.str s, [])
  | "f" =>
    let f ← getFlt? j
    let tab := match fieldText? j "str" with
      | some s => [(f, s)]
      | none => []
    pure (.flt f, tab)
  | _ => none

def getVals? (j : Json) : Option (List Val × StrTab) := do
  let l ← getList? j
  let vs ← l.mapM getVal?
  pure (vs.map (·.1), (vs.map (·.2)).flatten)

def getVals2? (j : Json) : Option (List (List Val) × StrTab) := do
  let l ← getList? j
  let vs ← l.mapM getVals?
  pure (vs.map (·.1), (vs.map (·.2)).flatten)

def mkRt (tab : StrTab) : Rt :=
  { pct := pctImpl
    strF := fun f => match tab.find? (fun p => p.1 = f) with
      | some p => p.2
      | none => "?".toList }

/-- `fixed`: (formatter total on floats, overflow keeps the line ending) -/
abbrev Variant := Bool × Bool

def mkEnv (fixed : Variant) (dg : Text) (tab : StrTab) : Env :=
  { sepG := isSep dg, fmt := fmtVal fixed.1 (mkRt tab), pystr := strVal (mkRt tab),
    keepEol := fixed.2 }

def optInt? (j : Json) (k : String) : Option (Option Int) := optField? j k getInt?

/-- One generator step. `none` = malformed request. -/
def genStep (fixed : Variant) (dg : Text) (s : St) (j : Json) : Option (Except Err St) := do
  let op ← fieldStr? j "s"
  match op with
  | "reset" => pure (.ok s.resetAnchor)
  | "mark" =>
    let a ← fieldText? j "a"
    let occ ← fieldInt? j "occ"
    pure (s.markAnchor a occ)
  | "var" =>
    let (v, tab) ← field? j "v" >>= getVal?
    let row ← fieldInt? j "row"
    let fld ← fieldInt? j "field"
    pure (s.transferVar (mkEnv fixed dg tab) v row fld)
  | "arr" =>
    let (vs, tab) ← field? j "vals" >>= getVals?
    let rs ← fieldInt? j "rs"
    let fs ← fieldInt? j "fs"
    let fe ← fieldInt? j "fe"
    let re ← optInt? j "re"
    let sep ← fieldText? j "sep"
    pure (s.transferArray (mkEnv fixed dg tab) vs rs fs fe re sep)
  | "arr2" =>
    let (vs, tab) ← field? j "vals" >>= getVals2?
    let rs ← fieldInt? j "rs"
    let re ← fieldInt? j "re"
    let fs ← fieldInt? j "fs"
    let fe ← fieldInt? j "fe"
    pure (s.transfer2D (mkEnv fixed dg tab) vs rs re fs fe)
  | _ => none

/-- Run generator steps until the first exception. Result: final state or (error, step index). -/
def genRun (fixed : Variant) (dg : Text) : St → List Json → Nat → Option (Except (Err × Nat) St)
  | s, [], _ => some (.ok s)
  | s, j :: js, k =>
    match genStep fixed dg s j with
    | none => none
    | some (.error e) => some (.error (e, k))
    | some (.ok s') => genRun fixed dg s' js (k + 1)

def jErr (e : Err) : Json := jObj [("ok", jBool false), ("err", jStr e.name)]

/-- One parser step: new state and the answer. -/
def parStep (dp : Text) (s : St) (j : Json) : Option (St × Json) := do
  let op ← fieldStr? j "s"
  let sepP := isSep dp
  let ok1 (r : Except Err Text) : Json := match r with
    | .ok t => jObj [("ok", jBool true), ("v", jText t)]
    | .error e => jErr e
  match op with
  | "reset" => pure (s.resetAnchor, jObj [("ok", jBool true)])
  | "mark" =>
    let a ← fieldText? j "a"
    let occ ← fieldInt? j "occ"
    match s.markAnchor a occ with
    | .ok s' => pure (s', jObj [("ok", jBool true), ("row", jNat s'.cur)])
    | .error e => pure (s, jErr e)
  | "var" =>
    let row ← fieldInt? j "row"
    let fld ← fieldInt? j "field"
    pure (s, ok1 (s.readVar sepP row fld))
  | "arr" =>
    let rs ← fieldInt? j "rs"
    let fs ← fieldInt? j "fs"
    let re ← optInt? j "re"
    let fe ← fieldInt? j "fe"
    match s.readArray sepP rs fs re fe with
    | .ok ts => pure (s, jObj [("ok", jBool true), ("v", jArr jText ts)])
    | .error e => pure (s, jErr e)
  | "arr2" =>
    let rs ← fieldInt? j "rs"
    let fs ← fieldInt? j "fs"
    let re ← fieldInt? j "re"
    let fe ← optInt? j "fe"
    match s.read2D sepP rs fs re fe with
    | .ok (rows, n) => pure (s, jObj [("ok", jBool true), ("v", jArr (jArr jText) rows),
                                     ("nrows", jNat n)])
    | .error e => pure (s, jErr e)
  | "key" =>
    let key ← fieldText? j "key"
    let fld ← fieldInt? j "field"
    let occ ← fieldInt? j "occ"
    let off ← fieldInt? j "off"
    pure (s, ok1 (s.readKeyvar sepP key fld occ off))
  | _ => none

def parRun (dp : Text) : St → List Json → Option (List Json)
  | _, [] => some []
  | s, j :: js =>
    match parStep dp s j with
    | none => none
    | some (s', a) => (parRun dp s' js).map (a :: ·)

def handle (j : Json) : Option Json := do
  let op ← fieldStr? j "op"
  match op with
  | "run" =>
    let fixed : Variant := ((fieldBool? j "fixed").getD false, (fieldBool? j "keep_eol").getD false)
    let dg ← fieldText? j "dg"
    let dp ← fieldText? j "dp"
    let lines ← fieldList? j "lines" >>= fun l => l.mapM getText?
    let gen ← fieldList? j "gen"
    let par ← fieldList? j "par"
    let r ← genRun fixed dg { data := lines, cur := 0, anchored := false } gen 0
    match r with
    | .error (e, k) =>
      pure (jObj [("gen", jObj [("ok", jBool false), ("err", jStr e.name), ("step", jNat k)])])
    | .ok s =>
      let answers ← parRun dp { data := readlines s.data.flatten, cur := 0, anchored := false } par
      pure (jObj [("gen", jObj [("ok", jBool true), ("lines", jArr jText s.data),
                                 ("row", jNat s.cur)]),
                  ("par", Json.arr answers.toArray)])
  | "fmt" =>
    let sel ← fieldStr? j "sel"
    let f ← field? j "f" >>= getFlt?
    let s ← (match sel with
      | "f1" => some FmtSel.f1
      | "g16" => some FmtSel.g16
      | _ => none)
    pure (jObj [("v", jText (pctImpl s f))])
  | "getformat" =>
    let f ← field? j "f" >>= getFlt?
    match getformat f with
    | .ok .f1 => pure (jObj [("ok", jBool true), ("v", jStr "%.1f")])
    | .ok .g16 => pure (jObj [("ok", jBool true), ("v", jStr "%.16g")])
    | .error e => pure (jErr e)
  | "special" =>
    let fixed := (fieldBool? j "fixed").getD false
    let t ← fieldText? j "t"
    match parseSpecial fixed t with
    | some .nan => pure (jObj [("v", jStr "nan")])
    | some (.inf false) => pure (jObj [("v", jStr "inf")])
    | some (.inf true) => pure (jObj [("v", jStr "-inf")])
    | _ => pure (jObj [("v", Json.null)])
  | _ => none

def main : IO Unit := runDriver handle
