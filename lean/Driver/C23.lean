import OMV.Model.Basic
import OMV.Model.C23
open Lean OMV OMV.C23

/-
Requests (one JSON object per line):

* `{"op":"linspace","lo":q,"hi":q,"n":k}` → `{"v":[q…]}`
* `{"op":"fullfact","levels":[k…]}` → `{"doe":[[k…]…]}`
* `{"op":"pydoe","kind":"ff"|"pb"|"bb"|"raw","names":[s…],"dvs":[{"size":k,"lower":B,"upper":B}…],
   "spec": k | {"name":k,…}, "doe":[[i…]…]}`  (`doe` = coded third-party design; ignored for "ff",
   where the model enumerates the design itself) →
  `{"ok":true,"levels":[…],"levels_max":k,"doe":[[…]],"design_ok":b,"cases":[[[q|"nan"…]…]…]}`
* `{"op":"lhs"|"uniform","dvs":[…],"doe":[[q…]…]}` →
  `{"ok":true,"cases":[[[q…]…]…],"unit_ok":[b…],"strata_ok":[b|null…]}`
* `{"op":"apply","arr":[q…],"idxs":null|[k…],"vals":[q…],"conv":null|[factor,offset]}` → `{"arr":[q…]}`

`B` is a rational string (python float bound) or a list of them (ndarray bound).
-/

def getBound? (j : Json) : Option (Bound Rat) :=
  match j with
  | Json.arr a => (a.toList.mapM getRat?).map Bound.array
  | _ => (getRat? j).map Bound.scalar

def getDV? (levels : Nat) (j : Json) : Option (DV Rat) := do
  let size ← fieldNat? j "size"
  let lo ← field? j "lower" >>= getBound?
  let hi ← field? j "upper" >>= getBound?
  pure { size := size, lower := lo, upper := hi, levels := levels }

def getSpec? (j : Json) : Option LevelSpec :=
  match j with
  | Json.obj kvs =>
    (kvs.toList.mapM (fun (p : String × Json) => (getNat? p.2).map (fun n => (p.1, n)))).map
      LevelSpec.dict
  | _ => (getNat? j).map LevelSpec.int

def jCell (c : Option Rat) : Json :=
  match c with
  | some q => jRat q
  | none => jStr "nan"

def shapeErr : Json := jObj [("ok", jBool false), ("err", jStr "shape")]

def handle (j : Json) : Option Json := do
  let op ← fieldStr? j "op"
  match op with
  | "linspace" =>
    let lo ← fieldRat? j "lo"
    let hi ← fieldRat? j "hi"
    let n ← fieldNat? j "n"
    pure (jObj [("v", jRats (linspace lo hi n))])
  | "fullfact" =>
    let ls ← fieldNats? j "levels"
    pure (jObj [("doe", jArr jNats (fullfact ls))])
  | "pydoe" =>
    let kind ← fieldStr? j "kind"
    let names ← fieldList? j "names" >>= fun l => l.mapM getStr?
    let spec ← field? j "spec" >>= getSpec?
    let dvj ← fieldList? j "dvs"
    if dvj.length != names.length then pure shapeErr else
    let dvs ← (List.zip names dvj).mapM (fun p => getDV? (spec.dvLevels p.1) p.2)
    if !(dvs.all DV.ok) then pure shapeErr else
    let sized := List.zip names (dvs.map (fun dv => dv.size))
    let levels := spec.allLevels sized
    let coded ← fieldList? j "doe" >>= fun rows => rows.mapM (fun r => getList? r >>= fun l => l.mapM getInt?)
    let doe : List (List Nat) :=
      match kind with
      | "ff" => fullfact levels
      | "pb" => coded.map (fun r => r.map pbIndex)
      | "bb" => coded.map (fun r => r.map bbIndex)
      | _ => coded.map (fun r => r.map Int.toNat)
    let nonneg := kind == "ff" || kind == "pb" || coded.all (fun r => r.all (fun x =>
      if kind == "bb" then decide (-1 ≤ x) else decide (0 ≤ x)))
    let lmax := spec.levelsMax
    let cases := pydoeCases dvs lmax doe
    pure (jObj [("ok", jBool true), ("levels", jNats levels), ("levels_max", jNat lmax),
      ("doe", jArr jNats doe),
      ("design_ok", jBool (nonneg && designOk ((factors dvs).map (fun f => f.levels)) doe)),
      ("cases", jArr (jArr (jArr jCell)) cases)])
  | "lhs" | "uniform" =>
    let dvj ← fieldList? j "dvs"
    let dvs ← dvj.mapM (getDV? 0)
    if !(dvs.all DV.ok) then pure shapeErr else
    let doe ← fieldList? j "doe" >>= fun rows => rows.mapM (fun r => getList? r >>= fun l => l.mapM getRat?)
    let F := factors dvs
    if !(doe.all (fun r => r.length == F.length)) then pure shapeErr else
    let cases := if op == "lhs" then lhsCases dvs doe else doe.map (uniformCase dvs)
    let n := doe.length
    let flat := cases.map List.flatten
    let unitOk := (List.range F.length).map (fun c => strataOk (0 : Rat) 1 n (column c doe))
    let strata : List Json := (List.zip (List.range F.length) F).map (fun p =>
      if p.2.lo < p.2.hi then jBool (strataOk p.2.lo p.2.hi n (column p.1 flat)) else Json.null)
    pure (jObj [("ok", jBool true), ("cases", jArr (jArr jRats) cases),
      ("unit_ok", jArr jBool unitOk), ("strata_ok", Json.arr strata.toArray)])
  | "apply" =>
    let arr ← fieldRats? j "arr"
    let vals ← fieldRats? j "vals"
    let idxs ← optField? j "idxs" (fun v => getList? v >>= fun l => l.mapM getNat?)
    let conv ← optField? j "conv" (fun v => do
      let l ← getList? v
      match l with
      | [f, o] => do pure ((← getRat? f), (← getRat? o))
      | _ => none)
    let loc := match idxs with
      | none => List.range arr.length
      | some l => l
    if loc.length != vals.length || !(loc.all (fun i => decide (i < arr.length))) then
      pure shapeErr
    else
      pure (jObj [("ok", jBool true), ("arr", jRats (setDesvar arr idxs vals conv))])
  | _ => none

def main : IO Unit := runDriver handle
