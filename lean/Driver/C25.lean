import OMV.Model.Basic
import OMV.Model.C25
open Lean OMV OMV.C25

/-- The model is run at IEEE doubles with libm's `exp` / `log`. -/
instance : ExpLog Float := ⟨Float.exp, Float.log⟩

/-- Exact conversion of the rational value of a double (`n / 2^k`, `|n| < 2^53`) back to that
double.  `none` when the denominator is not a power of two or the numerator is too large. -/
def ratToFloat? (q : Rat) : Option Float :=
  let k := q.den.log2
  if q.den == 2 ^ k && q.num.natAbs < 2 ^ 53 then
    some ((Float.ofInt q.num).scaleB (-(k : Int)))
  else none

/-- Exact rational value of a finite double. -/
def floatToRat? (f : Float) : Option Rat :=
  if f.isFinite then
    let b : Nat := f.toBits.toNat
    let neg := b / 2 ^ 63 == 1
    let ex : Nat := (b / 2 ^ 52) % 2 ^ 11
    let fr : Nat := b % 2 ^ 52
    -- value = mant * 2^(e - 1075) (normal: implicit leading bit; subnormal: exponent field 0)
    let mant : Nat := if ex == 0 then fr else fr + 2 ^ 52
    let e : Int := (if ex == 0 then 1 else (ex : Int)) - 1075
    let m : Int := if neg then -(mant : Int) else mant
    if e ≥ 0 then some ((m * (2 : Int) ^ e.toNat : Int) : Rat)
    else some (mkRat m (2 ^ (-e).toNat))
  else none

def getFloat? (j : Json) : Option Float := getRat? j >>= ratToFloat?
def fieldFloat? (j : Json) (k : String) : Option Float := field? j k >>= getFloat?
def getFloats? (j : Json) : Option (List Float) := getList? j >>= fun l => l.mapM getFloat?
def fieldFloats? (j : Json) (k : String) : Option (List Float) := field? j k >>= getFloats?

def nonfinite : Json := jObj [("ok", jBool false), ("err", jStr "nonfinite")]

def jF? (f : Float) : Option Json := (floatToRat? f).map jRat
def jFs? (l : List Float) : Option Json := (l.mapM floatToRat?).map jRats

def handle (j : Json) : Option Json := do
  let op ← fieldStr? j "op"
  match op with
  | "comp" =>
    let upper ← fieldFloat? j "upper"
    let rho ← fieldFloat? j "rho"
    let lf ← fieldBool? j "lower_flag"
    let mn ← fieldBool? j "minimum"
    let vs ← fieldNat? j "vec_size"
    let w ← fieldNat? j "width"
    let G ← fieldList? j "g" >>= fun l => l.mapM getFloats?
    let o : Opts Float := { upper := upper, lowerFlag := lf, minimum := mn, rho := rho }
    match compute o vs w G, partialsFlat o vs w G with
    | some ks, some vals =>
      match jFs? ks, jFs? vals with
      | some a, some b =>
        pure (jObj [("ok", jBool true), ("ks", a), ("vals", b),
                    ("rows", jNats (declRows vs w)), ("cols", jNats (declCols vs w))])
      | _, _ => pure nonfinite
    | _, _ => pure (jObj [("ok", jBool false), ("err", jStr "shape")])
  | "jax" =>
    let fn ← fieldStr? j "fn"
    let rho ← fieldFloat? j "rho"
    let x ← fieldFloats? j "x"
    if x.isEmpty then pure (jObj [("ok", jBool false), ("err", jStr "shape")]) else
    match fn with
    | "ks_max" =>
      match jF? (ksRow x rho), jFs? (dKSdg x rho (maxL x)),
            jF? (dKSdrhoExact x rho (maxL x)) with
      | some a, some b, some c =>
        pure (jObj [("ok", jBool true), ("value", a), ("grad", b), ("drho", c)])
      | _, _, _ => pure nonfinite
    | "ks_min" =>
      -- d/drho of ks_min x = -(d/drho of ks_max (-x))
      let nx := x.map (fun v => -v)
      match jF? (jaxKsMin x rho), jFs? (jaxKsMinGrad x rho),
            jF? (-(dKSdrhoExact nx rho (maxL nx))) with
      | some a, some b, some c =>
        pure (jObj [("ok", jBool true), ("value", a), ("grad", b), ("drho", c)])
      | _, _, _ => pure nonfinite
    | _ => none
  | "ksfun" =>
    let rho ← fieldFloat? j "rho"
    let G ← fieldList? j "g" >>= fun l => l.mapM getFloats?
    if G.any (fun r => r.isEmpty) then pure (jObj [("ok", jBool false), ("err", jStr "shape")]) else
    match jFs? (G.map (fun g => ksRow g rho)),
          (G.mapM (fun g => jFs? (dKSdg g rho (maxL g)))),
          jFs? (G.map (fun g => dKSdrhoCode g rho (maxL g))),
          jFs? (G.map (fun g => dKSdrhoExact g rho (maxL g))) with
    | some a, some b, some c, some d =>
      pure (jObj [("ok", jBool true), ("value", a), ("dg", Json.arr b.toArray),
                  ("drho_code", c), ("drho_exact", d)])
    | _, _, _, _ => pure nonfinite
  | _ => none

def main : IO Unit := runDriver handle
