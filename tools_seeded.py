#!/venv/bin/python
"""tools_seeded.py <Cxx> [<src dir>=/tmp/mut_cxx_out] [--checks C01,C08] [--tier quick] [--seeds 0]
       [--keep NAME]

Confirm a seeded change and run checks against it WITHOUT touching /repo: a scratch worktree of /repo
HEAD is created under /tmp, the patch applied there, and the checks run with VERIF_REPO and PYTHONPATH
pointing at it (evidence and replays go to /tmp).  With --keep the change is stored under
seeded/<Cxx>/<NAME>/ with meta.json."""
import argparse, json, os, shutil, subprocess, sys, time
V = os.path.dirname(os.path.abspath(__file__))
ap = argparse.ArgumentParser()
ap.add_argument('pid'); ap.add_argument('src', nargs='?')
ap.add_argument('--checks'); ap.add_argument('--tier', default='quick'); ap.add_argument('--seeds', default='0')
ap.add_argument('--keep'); ap.add_argument('--reuse', action='store_true'); ap.add_argument('--needs', default='')
a = ap.parse_args()
pid = a.pid.upper()
src = a.src or '/tmp/mut_%s_out' % pid.lower()
patch = os.path.join(src, 'patch.diff'); demo = os.path.join(src, 'demo.py')
wt = '/tmp/seedwt_%s_%d' % (pid.lower(), os.getpid())
env0 = dict(os.environ, OPENMDAO_REPORTS='0'); env0.pop('PYTHONPATH', None)
def sh(cmd, **kw):
    return subprocess.run(cmd, capture_output=True, text=True, **kw)
res = {'property': pid, 'repo_head': sh(['git', '-C', '/repo', 'rev-parse', '--short', 'HEAD']).stdout.strip()}
rp = '/tmp/seed_res_%s.json' % pid.lower()
if a.reuse:
    res = json.load(open(rp))
else:
  r = sh(['git', '-C', '/repo', 'worktree', 'add', '--detach', wt, 'HEAD'])
  if r.returncode: sys.exit('worktree: ' + r.stderr)
  try:
      r = sh(['git', '-C', wt, 'apply', patch])
      if r.returncode:
          r = sh(['git', '-C', wt, 'apply', '--3way', patch])
          if r.returncode: sys.exit('patch does not apply: ' + r.stderr)
      envm = dict(env0, PYTHONPATH=wt)
      d0 = sh(['/venv/bin/python', demo], env=env0, cwd='/tmp', timeout=1800)
      d1 = sh(['/venv/bin/python', demo], env=envm, cwd='/tmp', timeout=1800)
      res['demo_on_repo'] = d0.returncode; res['demo_on_mutant'] = d1.returncode
      print('demo: repo rc=%d  mutant rc=%d' % (d0.returncode, d1.returncode))
      if d0.returncode != 0: print(d0.stdout[-1500:], d0.stderr[-1500:])
      res['checks'] = {}
      for c in (a.checks.split(',') if a.checks else [pid]):
          for seed in a.seeds.split(','):
              t = time.time()
              e = dict(envm, VERIF_REPO=wt, VERIF_EVIDENCE_DIR='/tmp/seed_ev', VERIF_REPLAY_DIR='/tmp/seed_replay')
              r = sh([os.path.join(V, 'check'), c, '--tier', a.tier, '--seed', seed], env=e, cwd=V, timeout=7200)
              lines = [l for l in r.stdout.splitlines() if l.startswith(('VIOLATION', 'INFRA'))]
              summ = [l for l in r.stdout.splitlines() if l.startswith(c + ' tier=')]
              res['checks']['%s/%s/%s' % (c, a.tier, seed)] = {'rc': r.returncode, 'violations': len(lines),
                                                            'first': lines[:2], 'summary': summ[-1:] }
              print('%s seed=%s rc=%d viol=%d %.0fs %s' % (c, seed, r.returncode, len(lines), time.time() - t, lines[:1]))
              if r.returncode not in (0, 1): print(r.stdout[-2000:], r.stderr[-2000:])
  finally:
      sh(['git', '-C', '/repo', 'worktree', 'remove', '--force', wt]); shutil.rmtree(wt, ignore_errors=True)
      sh(['git', '-C', '/repo', 'worktree', 'prune'])
  json.dump(res, open(rp, 'w'))
if a.keep:
    d = os.path.join(V, 'seeded', pid, a.keep); os.makedirs(d, exist_ok=True)
    if os.path.abspath(src) != os.path.abspath(d):
        shutil.copy(patch, d); shutil.copy(demo, d)
    if os.path.abspath(src) != os.path.abspath(d) and os.path.exists(os.path.join(src, 'notes.md')): shutil.copy(os.path.join(src, 'notes.md'), d)
    mp = os.path.join(d, 'meta.json')
    meta = json.load(open(mp)) if os.path.exists(mp) else {'property': pid, 'name': a.keep, 'runs': []}
    if a.needs: meta['needs_to_manifest'] = a.needs
    meta['runs'].append(res)
    json.dump(meta, open(mp, 'w'), indent=1)
print(json.dumps(res)[:600])
