#!/usr/bin/env python3
"""tools_fixed.py <property> <commit> <what failed> [corpus path]  -- record a fix: commit"""
import json, sys
pid, commit, what = sys.argv[1:4]
k = json.load(open('known_findings.json'))
k.append({"property": pid, "status": "fixed", "commit": commit,
          "title": "fixed: property=%s %s %s" % (pid, commit, what), "match": {},
          "first_replay": sys.argv[4] if len(sys.argv) > 4 else None})
json.dump(k, open('known_findings.json', 'w'), indent=1)
