"""C18 — case recordings survive a crash at any point as a consistent prefix.

Two kinds of cases.

* `boundary`: a real recording run in-process; every connection the recorder opens is traced
  (`set_trace_callback`).  At EVERY traced statement (= statement/commit boundary) the database file and
  its rollback journal are copied; afterwards each copy is opened with the real `om.CaseReader`, its
  `list_cases()` is taken and every listed case is loaded and compared with the same case of the
  complete file.  The statement stream is mapped to the tokens of `OMV.C18.Stmt`.
    - direct oracle (no Lean): after the first `UPDATE metadata` commit every copy must open, list exactly
      the cases whose transaction had committed (counted on the stream), in order, each case loadable with
      the same content as in the complete run;
    - correspondence: the Lean driver must `accept` the stream (start-up sequence, then one transaction
      per case = case row + global row carrying lastrowid, or one auxiliary insert, or one UPDATE
      metadata) and `crash k` + `Db.read` must agree with what the real reader found on copy `k`.
* `kill`: recording subprocesses are SIGKILLed at random times after they reported that the recorder has
  started; the file left behind must open, list a prefix of the cases of an uninterrupted reference run
  of the same (deterministic) script, every case loadable and equal to the reference.
"""
import os
import re
import shutil
import signal
import sqlite3
import sys
import time
import warnings

import numpy as np

from common import Property


class Heavy:
    """Bulk data of a run, kept out of the evidence and replay files (json writes its str())."""

    def __init__(self, v):
        self.v = v

    def __repr__(self):
        return '<%d items>' % len(self.v)


def unwrap(impl):
    return {k: (v.v if isinstance(v, Heavy) else v) for k, v in impl.items()}


TEMPLATES = ['flat', 'sellar_gs', 'sellar_newton']
ATTACH = {
    'flat': ['problem', 'driver', 'root', 'c1', 'c10'],
    'sellar_gs': ['problem', 'driver', 'root', 'g', 'g.nl', 'g.d1', 'obj'],
    'sellar_newton': ['problem', 'driver', 'root', 'g', 'g.nl', 'g.ls', 'g.d1'],
}

STMT_RE = [
    (re.compile(r'^BEGIN'), lambda m: ['begin']),
    (re.compile(r'^COMMIT'), lambda m: ['commit']),
    (re.compile(r'^ROLLBACK'), lambda m: ['rollback']),
    (re.compile(r'^CREATE TABLE (\w+)\('), lambda m: ['create', m.group(1)]),
    (re.compile(r'^CREATE INDEX \w+ on (\w+)\('), lambda m: ['index', m.group(1)]),
    (re.compile(r'^INSERT INTO metadata\('), lambda m: ['insert_meta']),
    (re.compile(r'^UPDATE metadata SET'), lambda m: ['update_meta']),
    (re.compile(r'^INSERT INTO (driver_metadata|system_metadata|solver_metadata|driver_derivatives)\W'),
     lambda m: ['aux', m.group(1)]),
    (re.compile(r'^INSERT INTO (driver_iterations|system_iterations|solver_iterations|problem_cases)\W'),
     lambda m: ['case', {'driver_iterations': 'driver', 'system_iterations': 'system',
                         'solver_iterations': 'solver', 'problem_cases': 'problem'}[m.group(1)]]),
    (re.compile(r"^INSERT INTO global_iterations\(record_type, rowid, source\) VALUES\('(\w+)',(\d+),"),
     lambda m: ['global', m.group(1), int(m.group(2))]),
]
TABLES = {'global_iterations', 'driver_iterations', 'driver_derivatives', 'problem_cases',
          'system_iterations', 'solver_iterations', 'metadata', 'driver_metadata', 'system_metadata',
          'solver_metadata'}


def tokenize(stmts):
    out = []
    n_case = 0
    for s in stmts:
        tok = ['other']
        for rx, f in STMT_RE:
            m = rx.match(s)
            if m:
                tok = f(m)
                break
        if tok[0] in ('create', 'index', 'aux') and tok[1] not in TABLES:
            tok = ['other']
        if tok[0] == 'case':
            tok = ['case', tok[1], n_case]
            n_case += 1
        out.append(tok)
    return out


def build_problem(case):
    import openmdao.api as om
    t = case['template']
    p = om.Problem()
    m = p.model
    nl_kw = dict(iprint=-1, atol=1e-30, rtol=1e-30, err_on_non_converge=False)
    if t.startswith('sellar'):
        m.add_subsystem('ivc', om.IndepVarComp('x', 1.0), promotes=['*'])
        g = m.add_subsystem('g', om.Group())
        if t == 'sellar_gs':
            g.add_subsystem('d1', om.ExecComp('y1 = 0.5*y2 + x'), promotes=['*'])
            g.add_subsystem('d2', om.ExecComp('y2 = 0.25*y1 + 1'), promotes=['*'])
            g.nonlinear_solver = om.NonlinearBlockGS(maxiter=2, **nl_kw)
        else:
            g.add_subsystem('d1', om.ExecComp('y1 = 0.5*y2*y2 + x'), promotes=['*'])
            g.add_subsystem('d2', om.ExecComp('y2 = 0.25*y1 + 1'), promotes=['*'])
            g.nonlinear_solver = om.NewtonSolver(maxiter=2, solve_subsystems=False, **nl_kw)
            g.nonlinear_solver.linesearch = om.ArmijoGoldsteinLS(maxiter=2, iprint=-1, c=0.9999, rho=0.5)
            g.linear_solver = om.DirectSolver()
        m.add_subsystem('obj', om.ExecComp('f = (1-y1)**2 + 8*(z-y1*y1)**2'), promotes_outputs=['f'])
        m.connect('x', 'g.x')
        m.connect('g.y1', 'obj.y1')
        m.add_design_var('x', lower=-5, upper=5 if t == 'sellar_gs' else 3)
        m.add_design_var('obj.z', lower=-5, upper=5)
        m.add_objective('f')
        m.add_constraint('g.y2', upper=10.)
        var = 'x'
    else:
        m.add_subsystem('c1', om.ExecComp('y = 2*x + 1'), promotes=['*'])
        m.add_subsystem('c10', om.ExecComp('f = (y-3)**2 + (w+1)**2 + 0.5*y*w'), promotes=['*'])
        m.add_design_var('x', lower=-8, upper=8)
        m.add_design_var('w', lower=-8, upper=8)
        m.add_objective('f')
        m.add_constraint('y', lower=-20.)
        var = 'x'
    d = case['driver']
    if d['kind'] == 'doe':
        p.driver = om.DOEDriver(om.FullFactorialGenerator(levels=d['levels']))
    elif d['kind'] == 'slsqp':
        p.driver = om.ScipyOptimizeDriver(optimizer='SLSQP', maxiter=d['maxiter'], disp=False, tol=1e-12)
    return p, var


def requester(p, a):
    if a == 'problem':
        return p
    if a == 'driver':
        return p.driver
    if a == 'root':
        return p.model
    if a.endswith('.nl'):
        return p.model._get_subsystem(a[:-3]).nonlinear_solver
    if a.endswith('.ls'):
        return p.model._get_subsystem(a[:-3]).nonlinear_solver.linesearch
    return p.model._get_subsystem(a)


def case_digest(c):
    """Content of a loaded case, canonical (names and exact values)."""
    out = {}
    for kind, d in (('i', c.inputs), ('o', c.outputs), ('r', c.residuals)):
        if d is not None:
            for n in sorted(d.absolute_names()):
                out[kind + ':' + n] = np.asarray(d[n]).ravel().tolist()
    out['counter'] = c.counter
    return out


def read_file(path):
    """Open with the real reader; list and load every case."""
    import openmdao.api as om
    try:
        cr = om.CaseReader(path)
    except Exception as e:
        return {'open': False, 'err': '%s: %s' % (type(e).__name__, str(e)[:120])}
    try:
        names = list(cr.list_cases(out_stream=None))
    except Exception as e:
        return {'open': True, 'list_err': '%s: %s' % (type(e).__name__, str(e)[:120])}
    digests = []
    for n in names:
        try:
            digests.append(case_digest(cr.get_case(n)))
        except Exception as e:
            digests.append({'load_err': '%s: %s' % (type(e).__name__, str(e)[:120])})
    return {'open': True, 'names': names, 'digests': digests}


def do_runs(p, var, case):
    for k, (kind, arg) in enumerate(case['runs']):
        if kind == 'run_model':
            p.set_val(var, arg)
            p.run_model(case_prefix='r%d' % k)
        elif kind == 'run_driver':
            p.run_driver(case_prefix='d%d' % k)
        else:
            p.record(arg)


class C18(Property):
    pid = 'C18'
    level = 'partial'
    workers = 1
    required_theorems = ['C18_accept_sound', 'C18_prefix', 'C18_readable', 'C18_complete_run',
                         'C18_monotone', 'C18_startup_window', 'C18_needs_single_transaction',
                         'C18_needs_rowid']
    rule = ("boundary cases: template in {flat chain, coupled group with NonlinearBlockGS, with "
            "Newton+linesearch} x one SqliteRecorder on a random subset of {problem, driver, root, groups, "
            "components, solvers, linesearch} x {run_model sequences, DOEDriver full factorial, SLSQP} x "
            "viewer data / derivative recording on or off; EVERY traced statement boundary of the run is a "
            "crash point (db + journal copied and read back). kill cases: batches of recording subprocesses "
            "SIGKILLed at random times after start-up. Non-trivial: a boundary case with >= 3 recorded cases "
            "and >= 20 boundaries, or a kill that left a strict non-empty prefix or a hot journal; distinct by "
            "canonical case encoding.")
    assumptions = [
        "sqlite atomic commit and commit order (rollback-journal mode, the default): after a crash the file "
        "shows exactly the committed transactions - trusted, exercised by copying db+journal and by SIGKILL, "
        "not proved; power loss / fsync behaviour of the file system is not simulated",
        "'after the recorder started' = after the first `UPDATE metadata` transaction committed (end of the "
        "first SqliteRecorder.startup); earlier crash points are outside the property (see "
        "C18_startup_window) and only counted in the evidence",
        "serial recording (no MPI), one recorder per file",
    ]
    level_text = ("Proved in Lean for every statement stream of the accepted shape and every crash point after "
                  "start-up: the committed database opens (needed tables and a complete metadata row), the reader "
                  "lists exactly the first m recorded cases (m = case transactions completed before the crash "
                  "point), every listed case has its row and no case row is unlisted; later crash points never "
                  "show fewer cases; with the whole stream executed all cases are listed. The shape hypothesis "
                  "(`accept`) is checked on the real statement stream of every generated run, and the model's "
                  "answer at every boundary is compared with the real CaseReader on a copy of the real file.")
    level_note = ("Partial: atomicity/durability of sqlite transactions and of the file system are the hypothesis "
                  "(`crash` is defined as the committed state), validated only by copies at statement boundaries "
                  "and by SIGKILL, not by power-loss simulation. The mapping statement text -> model token and the "
                  "reader's metadata needs are tied differentially.")
    technique = "Lean 4 proof over a transaction-log model + statement-stream acceptance + crash-point replay"
    trusted_extra = ["sqlite3 atomic commit / hot-journal rollback and Python's sqlite3 transaction control "
                     "(observed through set_trace_callback)",
                     "OS file copy of db and -journal as the image a crashed process leaves (no fsync/power-loss "
                     "modelling)"]

    def setup(self, tier):
        import openmdao.api  # noqa: F401
        self._ref = {}

    # -- generation ---------------------------------------------------------------------------------
    def _config(self, rng, small):
        t = rng.choice(TEMPLATES)
        pts = ATTACH[t]
        rr = rng.random()
        if rr < 0.45:
            drv = {'kind': 'none'}
            runs = [['run_model', rng.choice([0.5, 1.0, 2.0, -1.0])]
                    for _ in range(rng.choice([1, 2, 3] if small else [3, 6, 10]))]
        elif rr < 0.8:
            drv = {'kind': 'doe', 'levels': rng.choice([2, 2, 3] if small else [3, 3, 4])}
            runs = [['run_driver', None]]
        else:
            drv = {'kind': 'slsqp', 'maxiter': rng.choice([2, 4] if small else [8, 14])}
            runs = [['run_driver', None]]
        k_att = rng.choice([1, 2, 2, 3])
        att = sorted(rng.sample(pts, k_att), key=pts.index)
        if drv['kind'] != 'none' and 'driver' not in att and rng.random() < 0.7:
            att = ['driver'] + att
        if 'problem' in att:
            runs.append(['record', 'final'])
            if rng.random() < 0.5:
                runs.insert(1, ['record', 'mid'])
        if drv['kind'] == 'none' and 'driver' in att and rng.random() < 0.5:
            runs.append(['run_driver', None])
        return {'template': t, 'driver': drv, 'attach': att, 'runs': runs,
                'viewer': rng.random() < 0.3,
                'derivs': drv['kind'] == 'slsqp' and 'driver' in att and rng.random() < 0.6}

    def cases(self, rng, tier):
        out = []
        nb = 6 if tier == 'quick' else 28
        for _ in range(nb):
            c = self._config(rng, small=(tier == 'quick'))
            c['kind'] = 'boundary'
            out.append(c)
        # kill batches
        nbatch, per = (2, 5) if tier == 'quick' else (25, 8)
        for _ in range(nbatch):
            c = self._config(rng, small=False)
            c['kind'] = 'kill'
            c['viewer'] = False
            c['derivs'] = False
            c['fractions'] = [round(rng.random() * 1.1, 4) for _ in range(per)]
            out.append(c)
        return out

    # -- real code ------------------------------------------------------------------------------------
    def run_impl(self, case):
        with warnings.catch_warnings():
            warnings.simplefilter('ignore')
            try:
                if case['kind'] == 'boundary':
                    return self._run_boundary(case)
                return self._run_kill(case)
            except Exception as e:
                import traceback
                return {'harness_error': '%s: %s' % (type(e).__name__, e),
                        'trace': traceback.format_exc()[-1500:]}

    def _run_boundary(self, case):
        import contextlib
        import io
        import openmdao.api as om
        wd = os.path.join(os.getcwd(), 'c18_b_%d' % os.getpid())
        shutil.rmtree(wd, ignore_errors=True)
        os.makedirs(wd)
        fname = os.path.join(wd, 'rec.sql')
        stmts = []
        real_connect = sqlite3.connect

        def snap():
            k = len(stmts)
            dst = os.path.join(wd, 'snap_%05d.sql' % k)
            if os.path.exists(fname):
                shutil.copyfile(fname, dst)
                j = fname + '-journal'
                if os.path.exists(j):
                    shutil.copyfile(j, dst + '-journal')

        def on_stmt(s):
            snap()                 # state BEFORE statement number len(stmts)
            stmts.append(s)

        def connect(database, *a, **k):
            c = real_connect(database, *a, **k)
            if str(database) == fname:
                c.set_trace_callback(on_stmt)
            return c
        p, var = build_problem(case)
        rec = om.SqliteRecorder(fname, record_viewer_data=case['viewer'])
        names = []
        orig = rec.record_iteration

        def hook(req, data, metadata, **kw):
            orig(req, data, metadata, **kw)
            names.append(metadata['name'] if req is p else rec._iteration_coordinate)
        rec.record_iteration = hook
        for a in case['attach']:
            requester(p, a).add_recorder(rec)
        if case['derivs']:
            p.driver.recording_options['record_derivatives'] = True
        marks = {}
        sqlite3.connect = connect
        try:
            p.setup()
            p.final_setup()
            marks['final_setup'] = len(stmts)
            with contextlib.redirect_stdout(io.StringIO()):
                do_runs(p, var, case)
            p.cleanup()
        finally:
            sqlite3.connect = real_connect
        n = len(stmts)
        # final image (all statements executed, connection closed)
        shutil.copyfile(fname, os.path.join(wd, 'snap_%05d.sql' % n))
        toks = tokenize(stmts)
        full = read_file(fname)
        res = {'kind': 'boundary', 'tokens': toks, 'names': names, 'n_stmts': n, 'marks': marks,
               'full_open': full.get('open'), 'full_names': full.get('names'),
               'journal_mode': real_connect(fname).execute('pragma journal_mode').fetchone()[0]}
        snaps = []
        for k in range(n + 1):
            path = os.path.join(wd, 'snap_%05d.sql' % k)
            if not os.path.exists(path):
                snaps.append({'k': k, 'exists': False})
                continue
            hot = os.path.exists(path + '-journal')
            r = read_file(path)
            e = {'k': k, 'exists': True, 'hot': hot, 'open': r['open']}
            if r['open']:
                if 'list_err' in r:
                    e['list_err'] = r['list_err']
                else:
                    e['names'] = r['names']
                    bad = []
                    for nm, dg in zip(r['names'], r['digests']):
                        if 'load_err' in dg:
                            bad.append([nm, dg['load_err']])
                        elif full.get('open') and nm in full['names']:
                            if dg != full['digests'][full['names'].index(nm)]:
                                bad.append([nm, 'content differs from the complete run'])
                    e['bad'] = bad[:3]
            else:
                e['err'] = r['err']
            snaps.append(e)
        res['snaps'] = Heavy(snaps)
        res['tokens'] = Heavy(toks)
        res['names'] = Heavy(names)
        res['full_names'] = Heavy(res['full_names']) if res['full_names'] is not None else None
        shutil.rmtree(wd, ignore_errors=True)
        return res

    def _reference(self, base, fname):
        """The same deterministic script, uninterrupted, in-process."""
        import contextlib
        import io
        import openmdao.api as om
        p, var = build_problem(base)
        rec = om.SqliteRecorder(fname, record_viewer_data=base['viewer'])
        for a in base['attach']:
            requester(p, a).add_recorder(rec)
        p.setup()
        p.final_setup()
        with contextlib.redirect_stdout(io.StringIO()):
            do_runs(p, var, base)
        p.cleanup()
        return read_file(fname)

    @staticmethod
    def _child_body(base, fname, out, go):
        """Runs in a forked child: record until killed. Progress lines go to the pipe `out`."""
        import contextlib
        import io
        import openmdao.api as om
        p, var = build_problem(base)
        rec = om.SqliteRecorder(fname, record_viewer_data=base['viewer'])
        orig = rec.record_iteration

        def hook(req, data, metadata, **kw):
            orig(req, data, metadata, **kw)
            out.write('C\n')
            out.flush()
        rec.record_iteration = hook
        for a in base['attach']:
            requester(p, a).add_recorder(rec)
        p.setup()
        p.final_setup()
        out.write('STARTED\n')
        out.flush()
        go.read(1)                       # wait until the parent watches
        with contextlib.redirect_stdout(io.StringIO()):
            do_runs(p, var, base)
        p.cleanup()
        out.write('DONE\n')
        out.flush()

    def _run_kill(self, case):
        import random
        import threading
        wd = os.path.join(os.getcwd(), 'c18_k_%d' % os.getpid())
        shutil.rmtree(wd, ignore_errors=True)
        os.makedirs(wd)
        base = {k: case[k] for k in ('template', 'driver', 'attach', 'runs', 'viewer', 'derivs')}
        ref = self._reference(base, os.path.join(wd, 'ref.sql'))
        ref_n = len(ref.get('names') or [])
        kills = [None] * len(case['fractions'])
        children = []
        sys.stdout.flush()
        for i, fr in enumerate(case['fractions']):
            f = os.path.join(wd, 'k%d.sql' % i)
            r1, w1 = os.pipe()           # child -> parent: progress
            r2, w2 = os.pipe()           # parent -> child: go
            pid = os.fork()
            if pid == 0:                 # ---- child: a recording process that will be killed
                code = 1
                try:
                    os.close(r1)
                    os.close(w2)
                    devnull = os.open(os.devnull, os.O_WRONLY)
                    os.dup2(devnull, 1)
                    os.dup2(devnull, 2)
                    self._child_body(base, f, os.fdopen(w1, 'w'), os.fdopen(r2, 'r'))
                    code = 0
                finally:
                    os._exit(code)
            os.close(w1)
            os.close(r2)
            children.append([i, fr, f, pid, os.fdopen(r1, 'r'), os.fdopen(w2, 'w')])

        def worker(i, fr, f, pid, rd, go):
            target = int(fr * (ref_n + 1))          # kill after this many recorded cases were reported
            extra = random.Random(int(fr * 1e6)).random() * 0.004
            started = False
            seen = 0
            for line in rd:
                if line.startswith('STARTED'):
                    started = True
                    try:
                        go.write('g')
                        go.flush()
                    except Exception:
                        pass
                    if target == 0:
                        break
                elif line.startswith('C'):
                    seen += 1
                    if seen >= target:
                        break
                elif line.startswith('DONE'):
                    break
            time.sleep(extra)
            done_pid, _ = os.waitpid(pid, os.WNOHANG)
            finished = done_pid != 0
            if not finished:
                os.kill(pid, signal.SIGKILL)
                os.waitpid(pid, 0)
            rd.close()
            go.close()
            kills[i] = {'started': started, 'fraction': fr, 'finished': finished, 'file': f,
                        'reported': seen}
        threads = [threading.Thread(target=worker, args=tuple(c)) for c in children]
        for t in threads:
            t.start()
        for t in threads:
            t.join()
        for e in kills:
            if not e.get('started'):
                continue
            f = e.pop('file')
            e['hot'] = os.path.exists(f + '-journal')
            r = read_file(f)
            e['open'] = r['open']
            if r['open'] and 'names' in r:
                e['n'] = len(r['names'])
                e['prefix'] = r['names'] == (ref.get('names') or [])[:len(r['names'])]
                bad = []
                for nm, dg in zip(r['names'], r['digests']):
                    if 'load_err' in dg:
                        bad.append([nm, dg['load_err']])
                    elif ref.get('open') and nm in ref['names']:
                        if dg != ref['digests'][ref['names'].index(nm)]:
                            bad.append([nm, 'content differs from the reference run'])
                e['bad'] = bad[:3]
                # every case the child reported as recorded before the kill must be there
                e['lost'] = max(0, e['reported'] - e['n'])
            else:
                e['err'] = r.get('err') or r.get('list_err')
        shutil.rmtree(wd, ignore_errors=True)
        return {'kind': 'kill', 'ref_open': ref.get('open'), 'ref_n': ref_n, 'kills': kills}

    # -- oracle ---------------------------------------------------------------------------------------
    @staticmethod
    def started_index(toks):
        """Index of the first boundary at which the recorder has started: right after the COMMIT that
        follows the first UPDATE metadata."""
        seen = False
        for i, t in enumerate(toks):
            if t[0] == 'update_meta':
                seen = True
            elif seen and t[0] == 'commit':
                return i + 1
        return None

    @staticmethod
    def committed_cases(toks):
        """For every boundary k (0..n): number of cases whose COMMIT is among the first k statements."""
        out = [0]
        open_cases = 0
        done = 0
        in_txn = False
        for t in toks:
            if t[0] == 'begin':
                in_txn, open_cases = True, 0
            elif t[0] == 'case':
                if in_txn:
                    open_cases += 1
                else:
                    done += 1          # autocommitted insert (never happens in an accepted stream)
            elif t[0] == 'commit':
                done += open_cases
                in_txn, open_cases = False, 0
            elif t[0] == 'rollback':
                in_txn, open_cases = False, 0
            out.append(done)
        return out

    def oracle(self, case, impl):
        impl = unwrap(impl)
        if 'harness_error' in impl:
            from common import Infra
            raise Infra('C18 harness failed on a case: %s\n%s' % (impl['harness_error'], impl.get('trace')))
        if impl['kind'] == 'kill':
            if not impl['ref_open']:
                return {'what': 'complete reference recording does not open'}
            for e in impl['kills']:
                if not e.get('started'):
                    continue
                if not e['open']:
                    return {'what': 'killed recording does not open', 'detail': e}
                if 'n' not in e:
                    return {'what': 'killed recording cannot list its cases', 'detail': e}
                if not e['prefix']:
                    return {'what': 'killed recording is not a prefix of the complete run', 'detail': e}
                if e['bad']:
                    return {'what': 'killed recording has an incomplete or different case', 'detail': e}
                if e['finished'] and e['n'] != impl['ref_n']:
                    return {'what': 'finished recording lists fewer cases than the reference', 'detail': e}
                if e['lost']:
                    return {'what': 'a case whose record call had returned before the kill is missing',
                            'detail': e}
            return None
        toks = impl['tokens']
        start = self.started_index(toks)
        if start is None:
            return {'what': 'no UPDATE metadata commit in the statement stream'}
        if not impl['full_open'] or impl['full_names'] != impl['names']:
            return {'what': 'complete recording does not list the recorded cases in order',
                    'got': (impl['full_names'] or [])[:5], 'want': impl['names'][:5]}
        m = self.committed_cases(toks)
        for e in impl['snaps']:
            k = e['k']
            if k < start:
                continue
            if not e['exists']:
                return {'what': 'no database file at a boundary after start-up', 'k': k}
            if not e['open']:
                return {'what': 'crashed recording does not open', 'k': k, 'stmt': toks[k - 1][0],
                        'err': e.get('err')}
            if 'names' not in e:
                return {'what': 'crashed recording cannot list its cases', 'k': k, 'err': e.get('list_err')}
            if e['names'] != impl['names'][:len(e['names'])]:
                return {'what': 'crashed recording is not a prefix of the complete run', 'k': k,
                        'got': e['names'][-2:], 'want_len': len(e['names'])}
            if len(e['names']) != m[k]:
                return {'what': 'crashed recording lists a different number of cases than were committed',
                        'k': k, 'got': len(e['names']), 'want': m[k]}
            if e['bad']:
                return {'what': 'crashed recording has an incomplete or different case', 'k': k,
                        'detail': e['bad']}
        return None

    def signature(self, case, impl, failure):
        return {'what': failure.get('what'), 'kind': case['kind']}

    def nontrivial(self, case, impl):
        impl = unwrap(impl)
        if impl.get('kind') == 'boundary':
            return len(impl['names']) >= 3 and impl['n_stmts'] >= 20
        if impl.get('kind') == 'kill':
            return any(e.get('started') and e.get('open') and (0 < e.get('n', 0) < impl['ref_n'] or e.get('hot'))
                       for e in impl['kills'])
        return False

    def bucket(self, case, impl):
        impl = unwrap(impl)
        b = ['kind=' + case['kind'], 'template=' + case['template'], 'driver=' + case['driver']['kind']]
        if impl.get('kind') == 'boundary':
            toks = impl['tokens']
            start = self.started_index(toks) or 0
            b.append('journal_mode=' + str(impl['journal_mode']))
            for e in impl['snaps']:
                if not e['exists']:
                    b.append('boundary:no_file_yet')
                    continue
                if e['k'] < start:
                    b.append('boundary:before_start:' + ('opens' if e['open'] else 'does_not_open'))
                else:
                    prev = toks[e['k'] - 1][0] if e['k'] > 0 else 'none'
                    b.append('boundary:after_' + prev)
                    if e.get('hot'):
                        b.append('boundary:hot_journal')
            for t in toks:
                if t[0] in ('aux', 'rollback', 'update_meta'):
                    b.append('stmt:' + t[0] + (':' + t[1] if t[0] == 'aux' else ''))
        elif impl.get('kind') == 'kill':
            for e in impl['kills']:
                if not e.get('started'):
                    b.append('kill:not_started')
                elif e['finished']:
                    b.append('kill:finished_before_kill')
                else:
                    n = e.get('n', 0)
                    b.append('kill:' + ('empty' if n == 0 else 'all' if n == impl['ref_n'] else 'strict_prefix'))
                    if e.get('hot'):
                        b.append('kill:hot_journal')
        return b

    # -- model -------------------------------------------------------------------------------------------
    def model_requests(self, case, impl):
        impl = unwrap(impl)
        if impl.get('kind') != 'boundary':
            return []
        toks = impl['tokens']
        return [{'op': 'accept', 'stream': toks},
                {'op': 'crash', 'stream': toks, 'ks': list(range(len(toks) + 1))}]

    def compare(self, case, impl, answers):
        impl = unwrap(impl)
        acc, cr = answers
        if not acc['accepted']:
            bad = [t for t in impl['tokens'] if t[0] == 'other']
            return 'the real statement stream is not accepted by the model grammar (%d unknown statements; ' \
                   'first 24 tokens: %s)' % (len(bad), [t[0] for t in impl['tokens'][:24]])
        want = [[t[1], t[2]] for t in impl['tokens'] if t[0] == 'case']
        if acc['cases'] != want:
            return 'accepted case list differs from the case inserts of the stream'
        if len(want) != len(impl['names']):
            return '%d case inserts in the stream but %d record calls' % (len(want), len(impl['names']))
        name_of = {i: n for i, n in enumerate(impl['names'])}
        for a, e in zip(cr['r'], impl['snaps']):
            if not e['exists']:
                if a['open']:
                    return 'model says boundary %d opens but there is no file yet' % e['k']
                continue
            if a['open'] != e['open']:
                return 'boundary %d (after %s): model open=%s, real reader open=%s (%s)' % (
                    e['k'], impl['tokens'][e['k'] - 1] if e['k'] else None, a['open'], e['open'], e.get('err'))
            if not e['open']:
                continue
            if a['read'] is None:
                return 'boundary %d: model cannot read, real reader lists %s' % (e['k'], e.get('names'))
            got = [name_of[c[1]] for c in a['read']]
            if got != e.get('names'):
                return 'boundary %d: model lists %d cases, real reader %s' % (
                    e['k'], len(got), len(e.get('names') or []))
            if e['k'] >= acc['startup'] and a['m'] != len(got):
                return 'boundary %d: completeCases=%d but %d cases read' % (e['k'], a['m'], len(got))
        return None


PROP = C18()
