"""C17 — recorded cases are faithful, filtered and ordered.

A case is a small real OpenMDAO problem (coupled group with NonlinearBlockGS / Newton+linesearch, a
flat chain, or one of two name-edge templates), ONE SqliteRecorder attached to a random subset of
{problem, driver, root, groups, components, nonlinear solvers, linesearch} with random recording
options (includes/excludes globs, record_* flags), and a run sequence (run_model with prefixes /
without counter reset, Problem.record, DOEDriver full factorial, ScipyOptimizeDriver SLSQP with
two-digit iteration counters).

* hook: `recorder.record_iteration` is wrapped; at every call the harness takes its own snapshot of
  the live model (all inputs/outputs/residuals through `System.get_val`) and of the recording stack.
* direct oracle (no Lean): every stored case is read back with the real CaseReader and compared with
  (a) the variable set given by the declarative selection rule evaluated with Python's own
  `fnmatchcase`, (b) the live snapshot, exactly; `list_cases()` must be the hook order; every
  `list_cases(source, recurse, flat)` form, `list_sources`, `get_case(name|index)` is compared with
  the answer computed from the recorded stacks by list-prefix (coordinate parsing never used).
* correspondence: the Lean driver runs `OMV.C17` (`driverStored/systemStored/solverStored`,
  `formatCoord`, `Db.build` + reader queries, `logContract`) on the same data.
"""
import os
import sqlite3
import warnings
from fnmatch import fnmatchcase

import numpy as np

from common import Property, canon


class Heavy:
    """Bulk data of a run, kept out of the evidence and replay files (json writes its str())."""

    def __init__(self, v):
        self.v = v

    def __repr__(self):
        return '<%d items>' % len(self.v)



class ScaleState:
    """Which entries of the root output / residual vectors are currently in their scaled
    (normalised) state.  OpenMDAO keeps no such flag; the harness tracks it by wrapping
    `DefaultVector.scale_to_norm/scale_to_phys` for the duration of a run, so that the live snapshot
    is always the PHYSICAL value of every variable, whatever context the recorder is called in."""

    def __init__(self, model):
        from openmdao.vectors.default_vector import DefaultVector
        self.cls = DefaultVector
        self.root = {'output': model._outputs, 'residual': model._residuals}
        self.state = {k: np.zeros(v._data.size, dtype=bool) for k, v in self.root.items()}
        self.orig = (DefaultVector.scale_to_norm, DefaultVector.scale_to_phys)

    @staticmethod
    def _addr(a):
        return a.__array_interface__['data'][0]

    def mark(self, vec, scaled):
        if vec._name != 'nonlinear' or vec._kind not in self.root:
            return
        root = self.root[vec._kind]._data
        off = (self._addr(vec._data) - self._addr(root)) // root.itemsize
        if 0 <= off and off + vec._data.size <= root.size:
            self.state[vec._kind][off:off + vec._data.size] = scaled

    def __enter__(self):
        o_norm, o_phys = self.orig
        me = self

        def scale_to_norm(vec, mode='fwd'):
            o_norm(vec, mode)
            if mode != 'rev':
                me.mark(vec, True)

        def scale_to_phys(vec, mode='fwd'):
            o_phys(vec, mode)
            if mode != 'rev':
                me.mark(vec, False)
        self.cls.scale_to_norm = scale_to_norm
        self.cls.scale_to_phys = scale_to_phys
        return self

    def __exit__(self, *a):
        self.cls.scale_to_norm, self.cls.scale_to_phys = self.orig

    def physical(self, kind, name):
        """Physical value of one variable of the root output/residual vector."""
        vec = self.root[kind]
        view = vec._abs_get_val(name, True)
        raw = np.array(view, dtype=float)
        if vec._scaling is None:
            return raw
        root = vec._data
        off = (self._addr(view) - self._addr(root)) // root.itemsize
        st = self.state[kind][off:off + raw.size]
        if not st.any():
            return raw
        scaler, adder = vec._scaling
        phys = raw * np.asarray(scaler)[off:off + raw.size] if np.ndim(scaler) else raw * scaler
        if adder is not None:
            phys = phys + (np.asarray(adder)[off:off + raw.size] if np.ndim(adder) else adder)
        return np.where(st, phys, raw)


def unwrap(impl):
    return {k: (v.v if isinstance(v, Heavy) else v) for k, v in impl.items()}


# ------------------------------------------------------------------------------------------------
# vocabulary

PATTERNS = ['*', 'x', 'f', 'y1', 'y2', 'z', '*y*', 'y?', '?1', '*.x', 'g.*', 'g.y?', 'obj.*',
            'g.d1.*', 'g.d?.y1', '*d2*', 'd1.*', '*.y2', 'c1.*', 'c10.*', 'c1*', 'w', 'nomatch', '*1',
            '_auto_ivc.*', 'ivc.x', 'obj.z', '*.z', '??', 'g.d1.y?', 'd?.y?']

DRIVER_FLAGS = ['record_desvars', 'record_responses', 'record_objectives', 'record_constraints',
                'record_inputs', 'record_outputs', 'record_residuals']
SYSTEM_FLAGS = ['record_inputs', 'record_outputs', 'record_residuals']
SOLVER_FLAGS = ['record_inputs', 'record_outputs', 'record_solver_residuals']

TEMPLATES = {
    # name: (attach points, weight)
    'sellar_gs': ['problem', 'driver', 'root', 'root.nl', 'g', 'g.nl', 'g.d1', 'g.d2', 'obj'],
    'sellar_newton': ['problem', 'driver', 'root', 'g', 'g.nl', 'g.ls', 'g.d1', 'obj'],
    'sellar_newton_sub': ['problem', 'driver', 'root', 'g', 'g.nl', 'g.d1'],
    'flat': ['problem', 'driver', 'root', 'c1', 'c10'],
    'flat_arr': ['problem', 'driver', 'root', 'c1', 'c10'],
    'rootfind': ['root', 'rootfind', 'other'],
    'tgroup': ['root', 't', 't.nl', 't.d1'],
}


# outputs that can be given ref/ref0/res_ref scaling: key -> size
SCALABLE = {
    'sellar_gs': {'ivc.x': 1, 'd1.y1': 1, 'd2.y2': 1, 'obj.f': 1},
    'sellar_newton': {'ivc.x': 1, 'd1.y1': 1, 'd2.y2': 1, 'obj.f': 1},
    'sellar_newton_sub': {'ivc.x': 1, 'd1.y1': 1, 'd2.y2': 1},
    'flat': {'c1.y': 1, 'c10.f': 1},
    'flat_arr': {'c1.y': 3, 'c10.f': 1},
    'rootfind': {'rootfind.y': 1, 'other.y': 1},
    'tgroup': {'d1.y1': 1, 'd2.y2': 1},
}
REF_PAIRS = [(2.0, 0.0), (0.5, 0.0), (4.0, 1.0), (1.0, 3.0), (0.25, 2.0), (-2.0, 0.0), (8.0, -1.0)]
RES_REFS = [2.0, 0.5, 8.0, 0.125]


def _scaling(rng, template):
    """Random ref/ref0/res_ref (scalar or per-element arrays, ref < ref0 included) for some outputs."""
    out = {}
    for key, size in SCALABLE[template].items():
        if rng.random() < 0.6:
            meta = {}
            as_array = size > 1 and rng.random() < 0.7
            if rng.random() < 0.85:
                if as_array:
                    prs = [rng.choice(REF_PAIRS) for _ in range(size)]
                    meta['ref'] = [a for a, _ in prs]
                    meta['ref0'] = [b for _, b in prs]
                else:
                    a, b = rng.choice(REF_PAIRS)
                    meta['ref'] = a
                    if b != 0.0 or rng.random() < 0.3:
                        meta['ref0'] = b
            if rng.random() < 0.6:
                meta['res_ref'] = [rng.choice(RES_REFS) for _ in range(size)] if as_array \
                    else rng.choice(RES_REFS)
            if meta:
                out[key] = meta
    return out


BOOL_FLAGS = ['record_desvars', 'record_responses', 'record_objectives', 'record_constraints',
              'record_inputs', 'record_outputs', 'record_residuals']


def _cross_owner_case(rng, j):
    """Targeted family: the driver and the Problem (which share `Driver._get_vars_to_record`) get
    COMPLEMENTARY recording flags and different patterns, so that any option read from the wrong owner
    changes what is stored; optionally a group and its solver get complementary flags as well.  The
    driver's options are set even when no recorder is attached to the driver."""
    t = ['flat', 'sellar_gs', 'flat_arr', 'sellar_gs'][j % 4]
    narrow = {'flat': ['x'], 'flat_arr': ['w'], 'sellar_gs': ['g.x']}[t]
    po = {f: rng.random() < 0.5 for f in BOOL_FLAGS}
    if j < 2:
        # the shorthand flag alone decides whether objectives / constraints are stored
        po.update(record_responses=(j == 0), record_objectives=False, record_constraints=False)
    elif j < 4:
        po.update(record_responses=(j == 2), record_objectives=rng.random() < 0.5)
        po['record_constraints'] = not po['record_objectives']
    po['record_outputs'] = True if j < 4 else po['record_outputs']
    do = {f: not v for f, v in po.items()}
    po['includes'] = rng.choice([[], narrow, ['nomatch']])
    po['excludes'] = rng.choice([[], [], ['f']])
    do['includes'] = ['*'] if rng.random() < 0.6 else rng.sample(PATTERNS, 2)
    do['excludes'] = rng.choice([[], ['*y*'], narrow])
    att = ['problem']
    extra = {}
    with_driver = rng.random() < 0.5
    if with_driver:
        att.append('driver')
    else:
        extra['driver'] = do
    opts = {'problem': po}
    if with_driver:
        opts['driver'] = do
    if t == 'sellar_gs' and rng.random() < 0.6:
        so = {f: rng.random() < 0.5 for f in SYSTEM_FLAGS}
        no = {'record_inputs': not so['record_inputs'], 'record_outputs': not so['record_outputs'],
              'record_solver_residuals': not so['record_residuals']}
        so['includes'] = rng.choice([['*'], ['y?'], ['d1.*']])
        no['includes'] = rng.choice([['*'], ['d2.*'], ['*y1']])
        att += ['g', 'g.nl']
        opts['g'] = so
        opts['g.nl'] = no
    pts = TEMPLATES[t]
    att = sorted(att, key=pts.index)
    if with_driver and rng.random() < 0.5:
        drv = {'kind': 'doe', 'levels': 2}
        runs = [['run_driver', None, True], ['record', 'final', None]]
    else:
        drv = {'kind': 'none'}
        runs = [['run_model', None, True], ['record', 'final', None]]
        if with_driver:
            runs.insert(1, ['run_driver', 'drv', True])
    return {'template': t, 'driver': drv, 'attach': att, 'opts': opts, 'extra_opts': extra, 'runs': runs,
            'nl_iter': 2, 'init': [rng.choice([-1.0, 0.5, 2.0]), rng.choice([1.5, -0.5])],
            'pre_load': rng.random() < 0.5, 'viewer': False, 'idx_problem': False,
            'scaling': _scaling(rng, t) if rng.random() < 0.3 else {}, 'qseed': rng.randrange(1 << 30),
            'family': 'cross_owner'}


# (record_inputs, record_outputs, record_residuals): residual-only and input-only first
FLAG_COMBOS = [(False, False, True), (True, False, True), (True, False, False), (False, True, True),
               (False, True, False), (True, True, False), (True, True, True), (False, False, False)]

# system attachment points whose promoted (relative) output names differ from the absolute names,
# with patterns written the documented way: promoted names relative to the recording system
REL_PATTERNS = {
    ('flat', 'root'): ['y', 'f', '?', 'y*'],
    ('flat', 'c1'): ['y', '?'],
    ('flat', 'c10'): ['f', '?'],
    ('flat_arr', 'root'): ['y', 'f', '?'],
    ('flat_arr', 'c1'): ['y'],
    ('sellar_gs', 'root'): ['f', 'x', 'g.y1', 'g.y?', 'g.*'],
    ('sellar_gs', 'g'): ['y1', 'y2', 'y?', '*1'],
    ('sellar_gs', 'g.d1'): ['y1', 'y?'],
    ('sellar_gs', 'obj'): ['f'],
    ('sellar_newton', 'g'): ['y1', 'y2', 'y?'],
    ('sellar_newton', 'root'): ['f', 'g.y2', 'x'],
    ('tgroup', 't'): ['y1', 'y2', 'y?'],
    ('tgroup', 'root'): ['t.y1', 't.*'],
}
# solver patterns are relative to the solver's group and matched against absolute names
SOLVER_PATTERNS = {'g.nl': ['d1.y1', 'd?.y?', '*.y2', 'd2.*', 'd1.x'], 't.nl': ['d1.y1', '*.y2']}


def _owner_flags_case(rng, j):
    """Targeted family: system and solver recorders with every combination of
    record_inputs/record_outputs/record_residuals (outputs off + residuals on, inputs only, ...) and
    include/exclude patterns written as promoted names relative to the recording system, on systems
    whose promoted names differ from the absolute names."""
    keys = sorted(REL_PATTERNS)
    t, a = keys[(j * 5 + j // len(keys)) % len(keys)] if j >= 2 else [('sellar_gs', 'g'), ('flat', 'root')][j]
    pats = REL_PATTERNS[(t, a)]
    ri, ro, rr = FLAG_COMBOS[j % len(FLAG_COMBOS)]
    so = {'record_inputs': ri, 'record_outputs': ro, 'record_residuals': rr}
    if j == 0:
        so['includes'] = [pats[0]]
    elif j == 1:
        so['includes'] = ['*']
        so['excludes'] = [pats[0]]
    else:
        r = rng.random()
        if r < 0.45:
            so['includes'] = rng.sample(pats, rng.choice([1, 1, 2]) if len(pats) > 1 else 1)
        elif r < 0.8:
            so['includes'] = ['*']
            so['excludes'] = [rng.choice(pats)]
        else:
            so['includes'] = [rng.choice(pats)]
            so['excludes'] = [rng.choice(pats)]
    att, opts = [a], {a: so}
    pts = TEMPLATES[t]
    # a second owner with another flag combination: a solver of the same model or another system
    others = [x for x in pts if x not in ('problem', 'driver', a)]
    if others and rng.random() < 0.8:
        b = rng.choice(others)
        bi, bo, br = FLAG_COMBOS[(j + 3) % len(FLAG_COMBOS)]
        if attach_kind(b) == 'solver':
            o = {'record_inputs': bi, 'record_outputs': bo, 'record_solver_residuals': br}
            if b in SOLVER_PATTERNS:
                o['includes'] = rng.sample(SOLVER_PATTERNS[b], 2)
                if rng.random() < 0.4:
                    o['excludes'] = [rng.choice(SOLVER_PATTERNS[b])]
        else:
            o = {'record_inputs': bi, 'record_outputs': bo, 'record_residuals': br}
            if (t, b) in REL_PATTERNS:
                if rng.random() < 0.5:
                    o['includes'] = [rng.choice(REL_PATTERNS[(t, b)])]
                else:
                    o['excludes'] = [rng.choice(REL_PATTERNS[(t, b)])]
        att.append(b)
        opts[b] = o
    att = sorted(att, key=pts.index)
    return {'template': t, 'driver': {'kind': 'none'}, 'attach': att, 'opts': opts, 'extra_opts': {},
            'runs': [['run_model', None, True]], 'nl_iter': 2,
            'init': [rng.choice([-1.0, 0.5, 2.0]), rng.choice([1.5, -0.5])],
            'pre_load': rng.random() < 0.5, 'viewer': False, 'idx_problem': False,
            'scaling': _scaling(rng, t) if rng.random() < 0.3 else {}, 'qseed': rng.randrange(1 << 30),
            'family': 'owner_flags'}


def _opts(rng, kind):
    flags = {'driver': DRIVER_FLAGS, 'problem': DRIVER_FLAGS, 'system': SYSTEM_FLAGS,
             'solver': SOLVER_FLAGS}[kind]
    o = {}
    mode = rng.random()
    if mode < 0.25:
        return o                              # all defaults
    for f in flags:
        if rng.random() < 0.5:
            o[f] = rng.random() < 0.6
    r = rng.random()
    if r < 0.3:
        o['includes'] = ['*']
    elif r < 0.45:
        o['includes'] = []
    elif r < 0.85:
        o['includes'] = rng.sample(PATTERNS, rng.choice([1, 1, 2, 3]))
    if rng.random() < 0.45:
        o['excludes'] = rng.sample(PATTERNS, rng.choice([1, 1, 2]))
    return o


def attach_kind(a):
    if a in ('problem', 'driver'):
        return a
    if a.endswith('.nl') or a.endswith('.ls'):
        return 'solver'
    return 'system'


# ------------------------------------------------------------------------------------------------
# real models

def build_problem(case):
    import openmdao.api as om
    t = case['template']
    p = om.Problem()
    m = p.model
    nl_kw = dict(iprint=-1, atol=1e-30, rtol=1e-30, err_on_non_converge=False)
    scaling = case.get('scaling') or {}

    def sc(key, **extra):
        meta = {k: (np.array(v, dtype=float) if isinstance(v, list) else v)
                for k, v in scaling.get(key, {}).items()}
        meta.update(extra)
        return meta
    if t.startswith('sellar'):
        m.add_subsystem('ivc', om.IndepVarComp('x', 1.0, **sc('ivc.x')), promotes=['*'])
        g = m.add_subsystem('g', om.Group())
        if t == 'sellar_gs':
            g.add_subsystem('d1', om.ExecComp('y1 = 0.5*y2 + x', y1=sc('d1.y1')), promotes=['*'])
            g.add_subsystem('d2', om.ExecComp('y2 = 0.25*y1 + 1', y2=sc('d2.y2')), promotes=['*'])
            g.nonlinear_solver = om.NonlinearBlockGS(maxiter=case['nl_iter'], **nl_kw)
        else:
            g.add_subsystem('d1', om.ExecComp('y1 = 0.5*y2*y2 + x', y1=sc('d1.y1')), promotes=['*'])
            g.add_subsystem('d2', om.ExecComp('y2 = 0.25*y1 + 1', y2=sc('d2.y2')), promotes=['*'])
            g.nonlinear_solver = om.NewtonSolver(maxiter=case['nl_iter'],
                                                 solve_subsystems=(t == 'sellar_newton_sub'), **nl_kw)
            if t == 'sellar_newton':
                g.nonlinear_solver.linesearch = om.ArmijoGoldsteinLS(maxiter=2, iprint=-1, c=0.9999,
                                                                     rho=0.5)
            else:
                g.nonlinear_solver.linesearch = None
            g.linear_solver = om.DirectSolver()
        m.add_subsystem('obj', om.ExecComp('f = (1-y1)**2 + 8*(z-y1*y1)**2', f=sc('obj.f')),
                        promotes_outputs=['f'])
        m.connect('x', 'g.x')
        m.connect('g.y1', 'obj.y1')
        m.add_design_var('x', lower=-5, upper=5 if t == 'sellar_gs' else 3)
        m.add_design_var('obj.z', lower=-5, upper=5)
        m.add_objective('f')
        m.add_constraint('g.y2', upper=10.)
        inits = {'x': case['init'][0], 'obj.z': case['init'][1]}
    elif t == 'flat':
        m.add_subsystem('c1', om.ExecComp('y = 2*x + 1', y=sc('c1.y')), promotes=['*'])
        m.add_subsystem('c10', om.ExecComp('f = (y-3)**2 + (w+1)**2 + 0.5*y*w', f=sc('c10.f')),
                        promotes=['*'])
        m.add_design_var('x', lower=-8, upper=8)
        m.add_design_var('w', lower=-8, upper=8)
        m.add_objective('f')
        m.add_constraint('y', lower=-20.)
        inits = {'x': case['init'][0], 'w': case['init'][1]}
    elif t == 'flat_arr':
        m.add_subsystem('c1', om.ExecComp('y = 2*x + 1', x=np.ones(3), y=sc('c1.y', val=np.ones(3))),
                        promotes=['*'])
        m.add_subsystem('c10', om.ExecComp('f = sum((y-3)**2) + (w+1)**2', y=np.ones(3), f=sc('c10.f')),
                        promotes=['*'])
        m.add_design_var('x', lower=-8, upper=8)
        m.add_design_var('w', lower=-8, upper=8)
        m.add_objective('f')
        m.add_constraint('y', lower=-20.)
        inits = {'x': np.array([case['init'][0], 0.5, -1.0]), 'w': case['init'][1]}
    elif t == 'rootfind':
        m.add_subsystem('rootfind', om.ExecComp('y = 2*x', y=sc('rootfind.y')))
        m.add_subsystem('other', om.ExecComp('y = 3*x', y=sc('other.y')))
        inits = {'rootfind.x': case['init'][0], 'other.x': case['init'][1]}
    elif t == 'tgroup':
        g = m.add_subsystem('t', om.Group())
        g.add_subsystem('d1', om.ExecComp('y1 = 0.5*y2 + x', y1=sc('d1.y1')), promotes=['*'])
        g.add_subsystem('d2', om.ExecComp('y2 = 0.25*y1 + 1', y2=sc('d2.y2')), promotes=['*'])
        g.nonlinear_solver = om.NonlinearBlockGS(maxiter=case['nl_iter'], **nl_kw)
        inits = {'t.x': case['init'][0]}
    else:
        raise ValueError(t)
    d = case['driver']
    if d['kind'] == 'doe':
        p.driver = om.DOEDriver(om.FullFactorialGenerator(levels=d['levels']))
    elif d['kind'] == 'slsqp':
        p.driver = om.ScipyOptimizeDriver(optimizer='SLSQP', maxiter=d['maxiter'], disp=False,
                                          tol=1e-12)
    return p, inits


def requester(p, a):
    if a == 'problem':
        return p
    if a == 'driver':
        return p.driver
    if a == 'root':
        return p.model
    if a == 'root.nl':
        return p.model.nonlinear_solver
    if a.endswith('.nl'):
        return p.model._get_subsystem(a[:-3]).nonlinear_solver
    if a.endswith('.ls'):
        return p.model._get_subsystem(a[:-3]).nonlinear_solver.linesearch
    return p.model._get_subsystem(a)


def canonical_source(a):
    """The name under which the cases of an attachment point are meant to be listed."""
    if a in ('problem', 'driver', 'root'):
        return a
    if a == 'root.nl':
        return 'root.nonlinear_solver'
    if a.endswith('.nl'):
        return 'root.%s.nonlinear_solver' % a[:-3]
    if a.endswith('.ls'):
        return 'root.%s.nonlinear_solver.linesearch' % a[:-3]
    return 'root.' + a


EXC = {'Source not found': 'sourceNotFound', 'Case not found': 'notFound',
       'A nested dictionary': 'noRoot', "Can't parse": 'cantParse'}


def exc_code(e):
    if isinstance(e, RuntimeError):
        s = str(e.args[0]) if e.args else ''
        for k, v in EXC.items():
            if s.startswith(k):
                return v
        return 'RuntimeError'
    if isinstance(e, UnboundLocalError):
        return 'unbound'
    if isinstance(e, IndexError):
        return 'indexError'
    if isinstance(e, ValueError):
        return 'valueError'
    return type(e).__name__


def tree_json(od):
    return [[k, tree_json(v)] for k, v in od.items()]


# ------------------------------------------------------------------------------------------------

class C17(Property):
    pid = 'C17'
    level = 'proof'
    workers = 1
    required_theorems = [
        'C17_glob_match_spec', 'C17_check_path_spec', 'C17_selection_spec',
        'C17_selection_spec_system', 'C17_selection_spec_solver', 'C17_recording_postorder',
        'C17_order', 'C17_prefix_bridge', 'C17_collision_excluded',
        'C17_startswith_is_not_list_prefix', 'C17_descendants', 'C17_descendants_of_contract',
        'C17_descendants_needs_counter_sync', 'C17_descendants_needs_monotone', 'C17_get_case',
        'C17_get_case_index_partial', 'C17_get_case_index_problem_counterexample',
        'C17_get_case_needs_unique_names', 'C17_list_sources_root_prefix_counterexample',
        'C17_solver_source_counterexample', 'C17_newton_subsolve_source_counterexample']
    rule = ("cases: template in {coupled group with NonlinearBlockGS, with Newton+ArmijoGoldstein linesearch, "
            "with Newton solve_subsystems, flat chain with subsystems c1/c10 (scalar and 3-element array "
            "variables), 45% of the cases with ref/ref0/res_ref scaling (scalar, per-element arrays, ref<ref0) on "
            "some recorded outputs, subsystem named 'rootfind', "
            "group named 't'} x one SqliteRecorder attached to a random non-empty subset of the template's "
            "attachment points with random recording options (includes/excludes from a glob vocabulary with "
            "* and ?, record_* flags) x run sequence in {run_model x1..3 with case_prefix / "
            "reset_iter_counts=False / Problem.record, DOEDriver full factorial 4..16 cases, "
            "ScipyOptimizeDriver SLSQP up to 30 iterations} x CaseReader pre_load in {True, False}. "
            "A targeted family heads the stream: driver and Problem (shared selection code) get complementary "
            "record_* flags and different patterns, the driver's options being set also when it has no recorder, "
            "plus a group/solver pair with complementary flags; then system and solver recorders with every "
            "combination of record_inputs/outputs/residuals (residual-only, input-only, ...) and patterns written as "
            "promoted names relative to the recording system, on systems whose promoted and absolute names differ. "
            "Non-trivial: at least two cases recorded from at least two attachment points or a driver "
            "with >= 10 iterations; distinct by canonical case encoding.")
    assumptions = [
        "patterns use only literals, '*' and '?' (no bracket classes); no discrete variables, serial run "
        "(rank 0)",
        "multi-run sequences use distinct case_prefix or reset_iter_counts=False (documented way to keep "
        "case names unique); the duplicate-name stream is compared with the model only",
        "the live snapshot is the PHYSICAL value of every variable of the root vectors immediately before "
        "the recorder is called; which entries are currently scaled is tracked by wrapping "
        "DefaultVector.scale_to_norm/scale_to_phys during the run (OpenMDAO keeps no such flag)",
    ]
    level_text = ("Proved in Lean for all inputs: the glob matcher against its declarative relation; stored "
                  "variable sets of driver/problem/system/solver cases = the declarative selection rule; the "
                  "Recording context records in post-order; list_cases() reconstructs recording order from the "
                  "four tables + global_iterations; string startswith on rendered coordinates = list prefix or a "
                  "digit collision, and a collision is impossible among earlier cases when counters do not run "
                  "backwards; hence list_cases(coordinate) = exactly the recorded descendants, in order, for "
                  "every log that meets a decidable contract which the driver evaluates on every real log; "
                  "get_case by unique name and by index (index of problem cases: counterexample).")
    level_note = ("Tied to the code differentially (not proved about Python): extraction of variable names, "
                  "promoted names and sources from the real model, get_source_system / SolverCases._get_source "
                  "string parsing (modelled literally, two defects shown by kernel-checked counterexamples), the "
                  "nested form of list_cases, JSON value round trip (checked against live snapshots), sqlite "
                  "storage (trusted).")
    technique = "Lean 4 proof (lists, strings as List Char) + differential correspondence on real recordings"
    trusted_extra = ["sqlite3 storage and Python json round trip of floats (checked per case against the live "
                     "snapshot, not modelled)",
                     "Python's fnmatch.fnmatchcase as the reference for the declarative glob relation in the "
                     "direct oracle"]

    # -- generation --------------------------------------------------------------------------------
    def setup(self, tier):
        import openmdao.api  # noqa: F401  (import before timing / forking)
        self.cfg = self.probe_cfg()

    def probe_cfg(self):
        """Which of the proposed reader repairs are present in the tree under test."""
        from openmdao.recorders.sqlite_reader import SolverCases, SystemCases
        cfg = {'root': False, 'solver': False, 'getcase': False, 'rows': False}
        try:
            t = SystemCases('x', 14, [(1, 'system', 1, 'rootfind')], {}, {}, {}, {}, {})
            cfg['root'] = 'root.rootfind' in t.list_sources()
        except Exception:
            pass
        try:
            s = SolverCases('x', 14, [], {}, {}, {}, {}, {})
            src = s._get_source('rank0:root._solve_nonlinear|0|NLRunOnce|0|t._solve_nonlinear|0|'
                                'NonlinearBlockGS|1')
            cfg['solver'] = (src == 'root.t.nonlinear_solver')
        except Exception:
            pass
        try:
            s = SolverCases('x', 14, [(1, 'solver', 1, 'g.nonlinear_solver')], {}, {}, {}, {}, {})
            s._keys = ['rank0:root._solve_nonlinear|0|NLRunOnce|0|g._solve_nonlinear|0|NewtonSolver|0|'
                       'Newton_subsolve|0']
            cfg['rows'] = list(s.list_cases('root.g.nonlinear_solver')) == s._keys
        except Exception:
            pass
        try:
            import openmdao.api as om
            f = os.path.join(os.getcwd(), 'c17_probe.sql')
            p = om.Problem()
            p.model.add_subsystem('c', om.ExecComp('y = 2*x'))
            rec = om.SqliteRecorder(f, record_viewer_data=False)
            p.driver.add_recorder(rec)
            p.add_recorder(rec)
            p.setup()
            with warnings.catch_warnings():
                warnings.simplefilter('ignore')
                p.run_driver()
                p.record('final')
                p.cleanup()
                cfg['getcase'] = om.CaseReader(f).get_case(-1).name == 'final'
            os.remove(f)
        except Exception:
            pass
        return cfg

    def cases(self, rng, tier):
        n = 10 if tier == 'quick' else 380
        # targeted families first: options per recorder owner (driver / problem / system / solver)
        out = [_cross_owner_case(rng, j) for j in range(5 if tier == 'quick' else 60)]
        out += [_owner_flags_case(rng, j) for j in range(6 if tier == 'quick' else 104)]
        for k in range(n):
            r = rng.random()
            if r < 0.36:
                t = 'sellar_gs'
            elif r < 0.56:
                t = 'sellar_newton'
            elif r < 0.64:
                t = 'sellar_newton_sub'
            elif r < 0.78:
                t = 'flat'
            elif r < 0.86:
                t = 'flat_arr'
            elif r < 0.93:
                t = 'rootfind'
            else:
                t = 'tgroup'
            pts = TEMPLATES[t]
            has_driver = 'driver' in pts
            rr = rng.random()
            if not has_driver or rr < 0.5:
                drv = {'kind': 'none'}
            elif rr < 0.75:
                drv = {'kind': 'doe', 'levels': 2 if t == 'flat_arr' else rng.choice([2, 3, 4, 4])}
            else:
                drv = {'kind': 'slsqp', 'maxiter': rng.choice([3, 13, 16] if tier == 'quick' else [3, 14, 20, 30])}
            k_att = rng.choice([1, 2, 2, 3, 3, 4, len(pts)])
            att = sorted(rng.sample(pts, min(k_att, len(pts))), key=pts.index)
            if drv['kind'] != 'none' and rng.random() < 0.7 and 'driver' not in att:
                att = ['driver'] + att
            opts = {a: _opts(rng, attach_kind(a)) for a in att}
            extra = {}
            if has_driver and 'driver' not in att and rng.random() < 0.5:
                extra['driver'] = _opts(rng, 'driver')      # options on a driver without recorder
            # run sequence
            if drv['kind'] == 'none':
                style = rng.choice(['one', 'one', 'prefix2', 'noreset', 'prefix3', 'dup'])
                if style == 'one':
                    runs = [['run_model', None, True]]
                elif style == 'prefix2':
                    runs = [['run_model', 'A', True], ['run_model', 'B1', True]]
                elif style == 'prefix3':
                    runs = [['run_model', 'r1', True], ['run_model', 'r10', True], ['run_model', 'r2', False]]
                elif style == 'noreset':
                    runs = [['run_model', None, True]] + [['run_model', None, False]] * rng.choice([1, 2, 11])
                else:
                    runs = [['run_model', None, True], ['run_model', None, True]]
                if has_driver and rng.random() < 0.3:
                    runs.append(['run_driver', 'drv', True])
            else:
                runs = [['run_driver', None, True]]
                if rng.random() < 0.25:
                    runs = [['run_model', 'pre', True]] + runs
            if 'problem' in att:
                # Problem.record at the end and sometimes in the middle; names that are prefixes of
                # each other on purpose
                runs.append(['record', 'final', None])
                if rng.random() < 0.5:
                    runs.insert(1, ['record', 'fin', None])
                if rng.random() < 0.3:
                    runs.append(['record', 'final2', None])
            out.append({'template': t, 'driver': drv, 'attach': att, 'opts': opts, 'extra_opts': extra,
                        'runs': runs,
                        'nl_iter': rng.choice([2, 3, 4]),
                        'init': [rng.choice([-1.0, 0.5, 1.0, 2.0, -1.5]), rng.choice([1.5, -0.5, 0.25, 2.0])],
                        'pre_load': rng.random() < 0.5, 'viewer': rng.random() < 0.15,
                        'idx_problem': rng.random() < 0.25,
                        'scaling': _scaling(rng, t) if rng.random() < (0.85 if t == 'flat_arr' else 0.45) else {},
                        'qseed': rng.randrange(1 << 30)})
        return out

    # -- real code -----------------------------------------------------------------------------------
    def run_impl(self, case):
        with warnings.catch_warnings():
            warnings.simplefilter('ignore')
            try:
                return self._run_impl(case)
            except Exception as e:     # the harness itself failed: infrastructure, reported as such
                import traceback
                return {'harness_error': '%s: %s' % (type(e).__name__, e),
                        'trace': traceback.format_exc()[-1500:]}

    def _run_impl(self, case):
        import random
        import openmdao.api as om
        p, inits = build_problem(case)
        fname = os.path.join(os.getcwd(), 'c17_%d.sql' % os.getpid())
        if os.path.exists(fname):
            os.remove(fname)
        rec = om.SqliteRecorder(fname, record_viewer_data=case['viewer'])
        att = case['attach']
        reqs = {}
        for a in att:
            r = requester(p, a)
            reqs[id(r)] = a
            r.add_recorder(rec)
            for k, v in case['opts'][a].items():
                r.recording_options[k] = v
        # options of owners that have no recorder of their own (they must not influence anything)
        for a, o in (case.get('extra_opts') or {}).items():
            for k, v in o.items():
                requester(p, a).recording_options[k] = v
        p.setup()
        for k, v in inits.items():
            p.set_val(k, v)
        p.final_setup()
        m = p.model
        in_names = list(m.get_io_metadata(iotypes=('input',), return_rel_names=False))
        out_names = list(m.get_io_metadata(iotypes=('output',), return_rel_names=False))

        log = []
        orig = rec.record_iteration
        scale_state = ScaleState(m)

        def hook(req, data, metadata, **kw):
            snap = {'input': {}, 'output': {}, 'residual': {}}
            for n in out_names:
                shp = np.shape(m.get_val(n, kind='output', from_src=False, flat=False))
                snap['output'][n] = scale_state.physical('output', n).reshape(shp)
                snap['residual'][n] = scale_state.physical('residual', n).reshape(shp)
            for n in in_names:
                snap['input'][n] = np.array(m.get_val(n, kind='input', from_src=False, flat=False))
            it = req._recording_iter
            stack = [[str(a), int(b)] for a, b in it.stack]
            prefix = it.prefix
            orig(req, data, metadata, **kw)
            a = reqs.get(id(req))
            kind = attach_kind(a)
            if kind == 'problem':
                name = metadata['name']
            else:
                name = rec._iteration_coordinate
            log.append({'att': a, 'kind': kind, 'name': name, 'counter': rec._counter,
                        'stack': None if kind == 'problem' else stack, 'prefix': prefix, 'snap': snap})
        rec.record_iteration = hook

        run_err = None
        import contextlib
        import io
        try:
            with contextlib.redirect_stdout(io.StringIO()), scale_state:
                for kind, arg, reset in case['runs']:
                    if kind == 'run_model':
                        p.run_model(case_prefix=arg, reset_iter_counts=reset)
                    elif kind == 'run_driver':
                        p.run_driver(case_prefix=arg, reset_iter_counts=reset)
                    else:
                        p.record(arg)
        except Exception as e:
            run_err = '%s: %s' % (type(e).__name__, str(e)[:200])
        p.cleanup()

        res = {'run_error': run_err, 'n': len(log)}
        # variable universe per attachment (input to the model and to the declarative rule)
        envs = {}
        for a in att:
            envs[a] = self.env_of(p, a)
        res['envs'] = envs
        res['log'] = [{k: e[k] for k in ('att', 'kind', 'name', 'counter', 'stack', 'prefix')} for e in log]
        # the global_iterations source column as stored (input of the reader model)
        con = sqlite3.connect(fname)
        res['global'] = [[r[1], r[2], r[3]] for r in con.execute(
            'select * from global_iterations order by id')]
        con.close()
        names = [e['name'] for e in log]
        res['unique'] = len(set(names)) == len(names)

        # ---- read back with the real reader
        try:
            cr = om.CaseReader(fname, pre_load=case['pre_load'])
        except Exception as e:
            res['open_error'] = '%s: %s' % (type(e).__name__, str(e)[:160])
            res['open_code'] = exc_code(e)
            return self.pack(res)
        qrng = random.Random(case['qseed'])

        def lc(source, recurse, flat):
            try:
                r = cr.list_cases(source, recurse=recurse, flat=flat, out_stream=None)
            except Exception as e:
                return ['err', exc_code(e)]
            if isinstance(r, dict):
                return ['nested', tree_json(r)]
            return ['flat', list(r)]
        try:
            res['sources'] = sorted(cr.list_sources(out_stream=None))
        except Exception as e:
            res['sources'] = ['err', exc_code(e)]
        srcs = set(res['sources']) if res['sources'][:1] != ['err'] else set()
        srcs |= {canonical_source(a) for a in att} | {'driver', 'problem', 'root', 'bogus', 'g'}
        queries = []
        for s in [None] + sorted(srcs):
            for recurse in (True, False):
                for flat in (True, False):
                    queries.append([s, recurse, flat, lc(s, recurse, flat)])
        coords = [e['name'] for e in log if e['kind'] != 'problem']
        pick = qrng.sample(coords, min(5, len(coords))) if coords else []
        pick += ['rank0:nosuch|0']
        for c in pick:
            for flat in (True, False):
                queries.append([c, True, flat, lc(c, True, flat)])
        res['queries'] = queries

        # get_case by name: variable sets and values against the live snapshot
        cases_out = []
        mism = []
        read_mut = []
        if res['unique']:
            for e in log:
                try:
                    c = cr.get_case(e['name'])
                except Exception as ex:
                    cases_out.append({'err': exc_code(ex)})
                    continue
                got = {}
                for kind, d in (('input', c.inputs), ('output', c.outputs), ('residual', c.residuals)):
                    names_k = sorted(d.absolute_names()) if d is not None else []
                    got[kind] = names_k
                    for n in names_k:
                        v = np.asarray(d[n])
                        want = e['snap'][kind].get(n)
                        if want is None or v.shape != want.shape or not np.array_equal(v, want):
                            mism.append([e['name'], kind, n,
                                         None if want is None else want.ravel().tolist()[:4],
                                         v.ravel().tolist()[:4]])
                got['counter'] = c.counter
                got['name'] = c.name
                cases_out.append(got)
                rm = self.read_then_mutate(c)
                if rm:
                    read_mut.append([e['name']] + rm)
        res['cases'] = cases_out
        res['value_mismatch'] = mism[:10]
        res['read_mutation'] = read_mut[:5]
        # get_case by index
        n = len(log)
        idx = {0, n - 1, n, -1, -n, -n - 1, qrng.randrange(max(n, 1)), qrng.randrange(max(n, 1))}
        if case.get('idx_problem'):
            idx |= {i for i, e in enumerate(log) if e['kind'] == 'problem'}
        else:
            # indices of problem cases are probed only in a fraction of the runs (known defect there)
            idx = {i for i in idx if not (-n <= i < n and log[i]['kind'] == 'problem')}
        idx = sorted(idx)
        gi = []
        for i in idx:
            try:
                c = cr.get_case(i)
                gi.append([i, 'ok', c.name, c.counter])
            except Exception as ex:
                gi.append([i, 'err', exc_code(ex), None])
        res['get_idx'] = gi
        return self.pack(res)

    @staticmethod
    def pack(res):
        for k in ('envs', 'log', 'global', 'queries', 'cases'):
            if k in res:
                res[k] = Heavy(res[k])
        return res

    @staticmethod
    def read_then_mutate(c):
        """Reading a case must not be able to change the record: edit, in place, every array returned by
        get_design_vars / get_responses / get_objectives / get_constraints and read the same Case again
        through outputs[...], get_val and a second call of the getter.  Returns a description of the first
        value that changed, or None."""
        if c.outputs is None:
            return None
        names = sorted(c.outputs.absolute_names())
        before = {n: np.array(c.outputs[n], dtype=float, copy=True) for n in names}
        getters = ('get_design_vars', 'get_responses', 'get_objectives', 'get_constraints')
        for g in getters:
            for kw in ({}, {'scaled': False, 'use_indices': False}):
                try:
                    first = getattr(c, g)(**kw)
                except Exception:
                    continue
                ref = {k: np.array(v, dtype=float, copy=True) for k, v in first.items()}
                for v in first.values():
                    if isinstance(v, np.ndarray):
                        try:
                            v *= 2.0
                            v += 1.0
                        except (ValueError, TypeError):     # read-only arrays are fine
                            pass
                for n in names:
                    if not np.array_equal(np.asarray(c.outputs[n], dtype=float), before[n]):
                        return [g, 'outputs[%s]' % n, before[n].ravel().tolist()[:3],
                                np.asarray(c.outputs[n], dtype=float).ravel().tolist()[:3]]
                    try:
                        gv = np.asarray(c.get_val(n), dtype=float)
                    except Exception:
                        continue
                    if not np.array_equal(gv, before[n]):
                        return [g, 'get_val(%s)' % n, before[n].ravel().tolist()[:3], gv.ravel().tolist()[:3]]
                second = getattr(c, g)(**kw)
                for k, v in second.items():
                    if k in ref and not np.array_equal(np.asarray(v, dtype=float), ref[k]):
                        return [g, 'second %s()[%s]' % (g, k), ref[k].ravel().tolist()[:3],
                                np.asarray(v, dtype=float).ravel().tolist()[:3]]
        return None

    def env_of(self, p, a):
        """Variables in scope of an attachment point, with the names the selection rule matches."""
        m = p.model
        kind = attach_kind(a)
        if kind in ('driver', 'problem') or a == 'root' or a == 'root.nl':
            sysm, path = m, ''
        else:
            path = a[:-3] if kind == 'solver' else a
            sysm = m._get_subsystem(path)
        ins = sysm.get_io_metadata(iotypes=('input',), return_rel_names=False)
        outs = sysm.get_io_metadata(iotypes=('output',), return_rel_names=False)
        env = {'outputs': [[n, md['prom_name']] for n, md in outs.items()],
               'inputs': [[n, md['prom_name'], m.get_source(n)] for n, md in ins.items()],
               'pathname': path, 'desvars': [], 'objectives': [], 'constraints': []}
        if kind in ('driver', 'problem'):
            env['desvars'] = sorted({md['source'] for md in p.driver._designvars.values()})
            env['objectives'] = sorted({md['source'] for md in p.driver._objs.values()})
            env['constraints'] = sorted({md['source'] for md in p.driver._cons.values()})
        return env

    # -- declarative rule ---------------------------------------------------------------------------
    @staticmethod
    def defaults(kind):
        if kind == 'driver':
            return dict(record_desvars=True, record_responses=False, record_objectives=True,
                        record_constraints=True, includes=[], excludes=[], record_inputs=True,
                        record_outputs=True, record_residuals=False)
        if kind == 'problem':
            return dict(record_desvars=True, record_responses=False, record_objectives=True,
                        record_constraints=True, includes=['*'], excludes=[], record_inputs=False,
                        record_outputs=True, record_residuals=False)
        if kind == 'system':
            return dict(record_inputs=True, record_outputs=True, record_residuals=True, includes=['*'],
                        excludes=[])
        return dict(record_inputs=True, record_outputs=True, record_solver_residuals=False,
                    includes=['*'], excludes=[])

    def expected_sets(self, kind, opts, env):
        o = self.defaults(kind)
        o.update(opts)
        incl, excl = o['includes'], o['excludes']
        if kind == 'solver' and env['pathname']:
            incl = [env['pathname'] + '.' + i for i in incl]
            excl = [env['pathname'] + '.' + i for i in excl]

        def sel(n):
            return any(fnmatchcase(n, i) for i in incl) and not any(fnmatchcase(n, x) for x in excl)
        exp = {'input': set(), 'output': set(), 'residual': set()}
        if kind in ('driver', 'problem'):
            if o['record_outputs']:
                exp['output'] |= {a for a, pr in env['outputs'] if sel(pr)}
                if o['record_desvars']:
                    exp['output'] |= set(env['desvars'])
                if o['record_objectives'] or o['record_responses']:
                    exp['output'] |= set(env['objectives'])
                if o['record_constraints'] or o['record_responses']:
                    exp['output'] |= set(env['constraints'])
                if o['record_inputs']:
                    exp['output'] |= {s for a, pr, s in env['inputs'] if sel(pr)}
            if o['record_inputs']:
                exp['input'] = {a for a, pr, s in env['inputs'] if sel(a)}
            if o['record_residuals']:
                exp['residual'] = {a for a, pr in env['outputs'] if sel(pr)}
        elif kind == 'system':
            if o['record_inputs']:
                exp['input'] = {a for a, pr, s in env['inputs'] if sel(a)}
            if o['record_outputs']:
                exp['output'] = {a for a, pr in env['outputs'] if sel(pr)}
            if o['record_residuals']:
                exp['residual'] = {a for a, pr in env['outputs'] if sel(pr)}
        else:
            if o['record_inputs']:
                exp['input'] = {a for a, pr, s in env['inputs'] if sel(a)}
            if o['record_outputs']:
                exp['output'] = {a for a, pr in env['outputs'] if sel(a)}
            if o['record_solver_residuals']:
                exp['residual'] = {a for a, pr in env['outputs'] if sel(a)}
        return {k: sorted(v) for k, v in exp.items()}

    # -- expected answers of the queries, from the recorded stacks --------------------------------------
    @staticmethod
    def entries(impl):
        out = []
        for i, e in enumerate(impl['log']):
            st = None if e['stack'] is None else tuple((a, b) for a, b in e['stack'])
            # the stored prefix is part of the coordinate: runs with different prefixes are unrelated
            key = None if st is None else ((e['prefix'] or '',) + st)
            out.append({'i': i, 'name': e['name'], 'kind': e['kind'], 'key': key,
                        'src': canonical_source(e['att'])})
        return out

    def expected_query(self, ents, source, recurse, flat):
        def desc(c):
            k = c['key']
            return [e['name'] for e in ents if e['key'] is not None and e['key'][:len(k)] == k]

        def tree(c):
            k = c['key']
            kids = [e for e in ents if e['kind'] in ('system', 'solver') and e['key'] is not None
                    and len(e['key']) == len(k) + 1 and e['key'][:len(k)] == k]
            return [c['name'], [tree(e) for e in kids]]
        srcs = {e['src'] for e in ents}
        if source is None:
            if flat:
                return ['flat', [e['name'] for e in ents]]
            if 'driver' in srcs:
                source = 'driver'
            elif 'root' in srcs:
                source = 'root'
            else:
                return ['err', 'noRoot']
        if source == 'problem':
            return ['flat', [e['name'] for e in ents if e['kind'] == 'problem']]
        if source in srcs or source == 'driver':
            mine = [e for e in ents if e['src'] == source]
            if not recurse:
                return ['flat', [e['name'] for e in mine]]
            if flat:
                return ['flat', [n for c in mine for n in desc(c)]]
            return ['nested', [tree(c) for c in mine]]
        if '|' in source:
            hit = [e for e in ents if e['name'] == source and e['kind'] != 'problem']
            if not hit:
                return ['err', 'notFound']
            if flat:
                return ['flat', desc(hit[0])]
            return ['nested', [tree(hit[0])]]
        return ['err', 'sourceNotFound']

    # -- oracle ------------------------------------------------------------------------------------------
    def oracle(self, case, impl):
        impl = unwrap(impl)
        if 'harness_error' in impl:
            from common import Infra
            raise Infra('C17 harness failed on a case: %s\n%s' % (impl['harness_error'], impl.get('trace')))
        # a run that raised (e.g. a diverged solve) is not a recording failure: what was recorded up to
        # the exception is checked like any other log
        if 'open_error' in impl:
            return {'what': 'reader cannot open the recording', 'detail': impl['open_error'],
                    'code': impl['open_code']}
        ents = self.entries(impl)
        names = [e['name'] for e in ents]
        # 1. order
        q0 = [q for q in impl['queries'] if q[0] is None and q[1] and q[2]][0][3]
        if q0 != ['flat', names]:
            return {'what': 'list_cases() is not the recording order', 'got': q0[1][:6] if q0[0] == 'flat'
                    else q0, 'want': names[:6]}
        # 2. stored variables and values
        if impl['unique']:
            if impl['value_mismatch']:
                return {'what': 'stored value differs from the live model', 'detail': impl['value_mismatch'][:3]}
            if impl.get('read_mutation'):
                return {'what': 'editing the arrays returned by a Case getter changed the recorded values',
                        'detail': impl['read_mutation'][:3]}
            for e, log_e, got in zip(ents, impl['log'], impl['cases']):
                if 'err' in got:
                    return {'what': 'get_case(name) raised', 'name': e['name'], 'code': got['err']}
                a = log_e['att']
                exp = self.expected_sets(attach_kind(a), case['opts'][a], impl['envs'][a])
                for k in ('input', 'output', 'residual'):
                    if got[k] != exp[k]:
                        return {'what': 'stored variable set differs from the selection rule', 'att': a,
                                'kind': k, 'got': got[k], 'want': exp[k], 'opts': case['opts'][a]}
                if got['name'] != e['name']:
                    return {'what': 'get_case(name) returned another case', 'name': e['name']}
        # 3. sources
        want_src = sorted({e['src'] for e in ents})
        if impl['sources'] != want_src:
            return {'what': 'list_sources differs from the recording requesters', 'got': impl['sources'],
                    'want': want_src}
        # 4. queries (need unique names: a name identifies a case)
        if impl['unique']:
            for s, recurse, flat, got in impl['queries']:
                want = self.expected_query(ents, s, recurse, flat)
                if s is not None and '|' not in s and recurse and flat and got[0] == want[0] == 'flat':
                    # one subtree per case of the source: a source whose cases nest repeats names;
                    # the property is about the set and its order
                    got = ['flat', list(dict.fromkeys(got[1]))]
                    want = ['flat', list(dict.fromkeys(want[1]))]
                if got != want:
                    return {'what': 'list_cases(source) differs from the recorded descendants',
                            'source': s, 'recurse': recurse, 'flat': flat,
                            'got': got if got[0] == 'err' else [got[0], len(got[1])],
                            'want': want if want[0] == 'err' else [want[0], len(want[1])],
                            'first_diff': self.first_diff(got, want)}
            # 5. get_case(i)
            n = len(ents)
            for i, st, nm, ctr in impl['get_idx']:
                if -n <= i < n:
                    if st != 'ok' or nm != names[i]:
                        return {'what': 'get_case(index) is not the i-th recorded case', 'i': i,
                                'got': [st, nm], 'want': names[i], 'kind_at_i': ents[i]['kind']}
                elif st == 'ok':
                    return {'what': 'get_case(index) out of range returned a case', 'i': i, 'got': nm}
        return None

    @staticmethod
    def first_diff(got, want):
        if got[0] != want[0] or got[0] == 'err':
            return [got[0], want[0]]
        a, b = canon(got[1]), canon(want[1])
        k = next((i for i in range(min(len(a), len(b))) if a[i] != b[i]), min(len(a), len(b)))
        return [a[max(0, k - 60):k + 40], b[max(0, k - 60):k + 40]]

    def signature(self, case, impl, failure):
        impl = unwrap(impl)
        w = failure.get('what', '')
        trig = None
        t = case['template']
        if w.startswith('list_sources') or w.startswith('list_cases(source)'):
            src = failure.get('source')
            got = failure.get('got')
            if t == 'rootfind':
                trig = 'subsystem-name-starts-with-root'
            elif t == 'tgroup':
                trig = 'solver-system-name-is-suffix-of-ancestor'
            elif t == 'sellar_newton_sub' and src == 'root.g.nonlinear_solver' and not (
                    failure.get('recurse') and failure.get('flat')):
                trig = 'newton-subsolve-attributed-to-linesearch'
        elif w.startswith('reader cannot open'):
            if t == 'tgroup' and "Can't parse solver iteration coordinate" in failure.get('detail', ''):
                trig = 'solver-system-name-is-suffix-of-ancestor'
        elif w.startswith('get_case(name) raised'):
            if t == 'tgroup' and failure.get('code') == 'cantParse':
                trig = 'solver-system-name-is-suffix-of-ancestor'
        elif w.startswith('get_case(index) is not'):
            if failure.get('kind_at_i') == 'problem':
                trig = 'index-of-problem-case'
        return {'what': w.split(' differs')[0].split(' is not')[0], 'trigger': trig}

    def nontrivial(self, case, impl):
        impl = unwrap(impl)
        if 'log' not in impl:
            return False
        atts = {e['att'] for e in impl['log']}
        if case.get('family') and len(impl['log']) >= 1:
            return True
        return (len(impl['log']) >= 2 and len(atts) >= 2) or len(impl['log']) >= 10

    def bucket(self, case, impl):
        impl = unwrap(impl)
        b = ['template=' + case['template'], 'driver=' + case['driver']['kind'],
             'pre_load=%s' % case['pre_load'], 'n_attach=%d' % len(case['attach'])]
        b += ['attach=' + attach_kind(a) for a in case['attach']]
        n = impl.get('n', 0)
        b.append('cases_recorded=' + ('0' if n == 0 else '1-9' if n < 10 else '10-99' if n < 100 else '100+'))
        if any(e['stack'] and any(c >= 10 for _, c in e['stack']) for e in impl.get('log', [])):
            b.append('two_digit_counter')
        if not impl.get('unique', True):
            b.append('duplicate_names')
        if any(e['prefix'] for e in impl.get('log', [])):
            b.append('case_prefix')
        for a in case['attach']:
            o = case['opts'][a]
            if o.get('includes') not in (None, ['*'], []):
                b.append('includes_glob')
            if o.get('excludes'):
                b.append('excludes_glob')
        if 'open_error' in impl:
            b.append('open_error')
        if impl.get('run_error'):
            b.append('run_raised')
        if case.get('family'):
            b.append('family=' + case['family'])
        if case.get('extra_opts'):
            b.append('options_on_owner_without_recorder')
        for a in case['attach']:
            o = case['opts'][a]
            for k, v in o.items():
                if isinstance(v, bool):
                    b.append('%s.%s=%s' % (attach_kind(a), k, v))
            if attach_kind(a) in ('system', 'solver'):
                d = self.defaults(attach_kind(a))
                d.update(o)
                res = d.get('record_residuals', d.get('record_solver_residuals'))
                b.append('%s.in/out/res=%d%d%d%s' % (attach_kind(a), d['record_inputs'], d['record_outputs'], res,
                                                    '+patterns' if ('includes' in o or 'excludes' in o) else ''))
        sc = case.get('scaling') or {}
        if sc:
            b.append('scaled_outputs')
            for meta in sc.values():
                if 'res_ref' in meta:
                    b.append('scaling:res_ref')
                if isinstance(meta.get('ref'), list):
                    b.append('scaling:array_ref')
                r, r0 = meta.get('ref'), meta.get('ref0', 0.0)
                if r is not None and not isinstance(r, list) and r < r0:
                    b.append('scaling:ref<ref0')
                if isinstance(r, list) and any(a < c for a, c in zip(r, r0)):
                    b.append('scaling:ref<ref0')
        return b

    # -- model -------------------------------------------------------------------------------------------
    @staticmethod
    def wire_opts(kind, opts):
        o = C17.defaults(kind)
        o.update(opts)
        return {'includes': o['includes'], 'excludes': o['excludes'], 'in': o['record_inputs'],
                'out': o['record_outputs'],
                'res': o['record_solver_residuals'] if kind == 'solver' else o['record_residuals'],
                'desvars': o.get('record_desvars', False), 'objectives': o.get('record_objectives', False),
                'constraints': o.get('record_constraints', False),
                'responses': o.get('record_responses', False)}

    def model_requests(self, case, impl):
        impl = unwrap(impl)
        if 'log' not in impl:
            return []
        reqs = []
        # selection, one request per attachment point that recorded something
        self._sel_atts = atts = [a for a in case['attach'] if any(e['att'] == a for e in impl['log'])]
        for a in atts:
            kind = attach_kind(a)
            reqs.append({'op': 'select', 'kind': 'driver' if kind in ('driver', 'problem') else kind,
                         'opts': self.wire_opts(kind, case['opts'][a]), 'env': impl['envs'][a]})
        # glob matcher against fnmatchcase on all (pattern, name) pairs of the case
        pairs = set()
        for a in case['attach']:
            o = case['opts'][a]
            for pat in o.get('includes', []) + o.get('excludes', []):
                for v in impl['envs'][a]['outputs']:
                    pairs.add((pat, v[1]))
                for v in impl['envs'][a]['inputs'][:6]:
                    pairs.add((pat, v[0]))
        pairs = sorted(pairs)[:400]
        reqs.append({'op': 'globs', 'pairs': [list(x) for x in pairs]})
        # coordinates rendered from the observed recording stack
        items = [{'prefix': e['prefix'], 'stack': e['stack']} for e in impl['log'] if e['stack'] is not None]
        reqs.append({'op': 'render', 'items': items})
        # reader
        rows = [[g[0], e['name'], g[2], e['counter']] for e, g in zip(impl['log'], impl['global'])]
        if 'queries' in impl:
            qs = [{'q': 'list_sources'}]
            for s, recurse, flat, _ in impl['queries']:
                qs.append({'q': 'list_cases', 'source': s, 'recurse': recurse, 'flat': flat})
            for i, _, _, _ in impl['get_idx']:
                qs.append({'q': 'get_case_idx', 'i': i})
            reqs.append({'op': 'reader', 'cfg': self.cfg, 'rows': rows, 'queries': qs})
        # contract + specification of the descendant query
        coords = []
        for e in impl['log']:
            if e['stack'] is None:
                coords.append(None)
            else:
                st = [list(x) for x in e['stack']]
                if st:
                    st[0] = [('%s_' % e['prefix'] if e['prefix'] else '') + 'rank0:' + st[0][0], st[0][1]]
                coords.append(st)
        reqs.append({'op': 'contract', 'rows': rows, 'coords': coords})
        return reqs

    def compare(self, case, impl, answers):
        impl = unwrap(impl)
        k = 0
        for a in self._sel_atts_for(case, impl):
            ans = answers[k]
            k += 1
            got = next((c for c, e in zip(impl['cases'], impl['log']) if e['att'] == a), None) \
                if impl.get('cases') else None
            if got is None or 'err' in got:
                continue
            for kind in ('input', 'output', 'residual'):
                if sorted(set(ans[kind])) != got[kind]:
                    return 'selection %s/%s: model %s != stored %s' % (a, kind, sorted(set(ans[kind])), got[kind])
        g = answers[k]
        k += 1
        pairs = self._pairs(case, impl)
        for (pat, name), r in zip(pairs, g['r']):
            if r != fnmatchcase(name, pat):
                return 'globMatch(%r, %r) = %s but fnmatchcase = %s' % (pat, name, r, not r)
        rn = answers[k]
        k += 1
        stored = [e['name'] for e in impl['log'] if e['stack'] is not None]
        if rn['r'] != stored:
            d = next((i for i, (x, y) in enumerate(zip(rn['r'], stored)) if x != y), None)
            return 'formatCoord of the observed stack differs from the stored coordinate: %r vs %r' % (
                rn['r'][d] if d is not None else len(rn['r']), stored[d] if d is not None else len(stored))
        if 'queries' in impl:
            rd = answers[k]['r']
            k += 1
            if sorted(rd[0]['sources']) != impl['sources']:
                return 'list_sources: model %s != reader %s' % (sorted(rd[0]['sources']), impl['sources'])
            j = 1
            for s, recurse, flat, got in impl['queries']:
                a = rd[j]
                j += 1
                if not impl['unique'] and not (s is None and flat):
                    # repeated names (runs without distinct case_prefix): which duplicate a lookup by
                    # name returns depends on pre_load caching; outside the documented usage
                    continue
                am = ['err', a['err']] if 'err' in a else ['flat', a['flat']] if 'flat' in a else \
                    ['nested', a['nested']]
                if am != got:
                    return 'list_cases(%r, recurse=%s, flat=%s): model %s != reader %s' % (
                        s, recurse, flat, canon(am)[:300], canon(got)[:300])
            for i, st, nm, ctr in impl['get_idx']:
                a = rd[j]
                j += 1
                if not impl['unique']:
                    continue
                am = [i, 'err', a['err'], None] if 'err' in a else [i, 'ok', a['ok'][1], a['ok'][2]]
                if am != [i, st, nm, ctr]:
                    return 'get_case(%d): model %s != reader %s' % (i, am, [i, st, nm, ctr])
        ct = answers[k]
        if not ct['rendered']:
            return 'stored names are not renderStack of the observed stacks'
        if impl['unique'] and not impl.get('open_error'):
            if not (ct['contract'] and ct['sync'] and ct['nodup']):
                return 'log contract does not hold on a real log: %s' % {x: ct[x] for x in
                                                                         ('contract', 'sync', 'nodup')}
            # the theorem applies: specification = reader on every recorded coordinate we asked for
            spec = {e['name']: d for e, d in zip(impl['log'], ct['desc']) if d is not None}
            for s, recurse, flat, got in impl.get('queries', []):
                if s in spec and recurse and flat and got != ['flat', spec[s]]:
                    return 'descendant specification (Lean) differs from list_cases(%r)' % s
        return None

    def _sel_atts_for(self, case, impl):
        return [a for a in case['attach'] if any(e['att'] == a for e in impl['log'])]

    def _pairs(self, case, impl):
        pairs = set()
        for a in case['attach']:
            o = case['opts'][a]
            for pat in o.get('includes', []) + o.get('excludes', []):
                for v in impl['envs'][a]['outputs']:
                    pairs.add((pat, v[1]))
                for v in impl['envs'][a]['inputs'][:6]:
                    pairs.add((pat, v[0]))
        return sorted(pairs)[:400]


PROP = C17()
