"""C16 — interpolation derivatives are exact derivatives of the interpolant.

Cases (random strictly increasing dyadic grids of any sign, random dyadic tables, query points strictly
inside cells):

* `interp_dx` : `InterpND(method).interpolate(x, compute_derivative=True)` for the general and the
  fixed-dimension tables (single point and vectorized);
* `train`     : `InterpND.training_gradients(pt)` for the methods that are linear in the table;
* `mmsc`      : `MetaModelStructuredComp` partials w.r.t. the inputs and (training_data_gradients)
  the table, through `Problem.compute_totals`;
* `spline`    : `SplineComp` outputs and partials w.r.t. the control points (incl. akima, bsplines).

Correspondence: the Lean driver evaluates the *same* `OMV.C15` evaluators over dual numbers
(`dualDx`, `dualDv`), the code's own derivative formulas (`gradIdx`) and the unit-vector weights
(`trainWeights`) in exact rationals.
Direct oracle (no Lean): one-sided second-order differences of the real code on both sides of the
point (a returned derivative must match the forward or the backward estimate, so a derivative kink
of Akima next to the point cannot raise a false alarm); differences in the table values (exact for
the linear methods: step 1); additivity/homogeneity of the real interpolant in its table for the
linear methods; `value = sum(d_dvalues * table)` for every method.
"""
import warnings
from fractions import Fraction

import numpy as np

from common import Property, rat, unrat, rats
from c15 import gen_grid, node_iter, GENERAL, FIXED, BASE, MINPTS, FRACS, is_fixed, probe_flags

LINEAR = ['slinear', 'lagrange2', 'lagrange3', 'cubic']
SCIPY = ['scipy_slinear', 'scipy_cubic', 'scipy_quintic']     # third-party splines: oracle only, no model
SPLINE = ['slinear', 'lagrange2', 'lagrange3', 'cubic', 'akima', 'bsplines']
H = Fraction(1, 2 ** 16)       # relative step of the one-sided differences (fraction of the cell)
TV = 2.0 ** -16                # step in table values for akima
DTOL = {'2D-lagrange3': 1e-5, '3D-lagrange2': 1e-5, '3D-lagrange3': 1e-3, '2D-lagrange2': 1e-6,
        '1D-lagrange3': 1e-6}


def dtol(method):
    if method in SCIPY:
        return 1e-6
    return DTOL.get(method, 1e-7)


def base_of(method):
    return BASE.get(method, method)


def is_linear(method):
    return method in SCIPY or base_of(method) in LINEAR


def one_sided(F, h, f0=None):
    """Forward and backward derivative estimates from one-sided second-order differences at steps 2h
    and h, Richardson-combined (error O(h^3)), each with an error bar |D(h) - D(2h)| that measures how
    far the differences are from having converged (large next to a near-singular Akima weight).
    `F` may return floats or arrays.  Returns (fwd, bwd, err_fwd, err_bwd)."""
    if f0 is None:
        f0 = F(0.0)
    fp1, fp2, fp4 = F(h), F(2 * h), F(4 * h)
    fm1, fm2, fm4 = F(-h), F(-2 * h), F(-4 * h)
    fw1 = (-3.0 * f0 + 4.0 * fp1 - fp2) / (2 * h)
    fw2 = (-3.0 * f0 + 4.0 * fp2 - fp4) / (4 * h)
    bw1 = (3.0 * f0 - 4.0 * fm1 + fm2) / (2 * h)
    bw2 = (3.0 * f0 - 4.0 * fm2 + fm4) / (4 * h)
    return (4.0 * fw1 - fw2) / 3.0, (4.0 * bw1 - bw2) / 3.0, abs(fw1 - fw2), abs(bw1 - bw2)


def fd_ok(d, est, tol, scale):
    """The returned derivative matches the forward or the backward estimate (within its error bar)."""
    fw, bw = est[0], est[1]
    ef, eb = (est[2], est[3]) if len(est) > 2 else (0.0, 0.0)
    return abs(d - fw) <= tol * scale + 4.0 * ef or abs(d - bw) <= tol * scale + 4.0 * eb


def close(a, b, tol, scale):
    return abs(a - b) <= tol * scale


class C16(Property):
    pid = 'C16'
    workers = 1
    tolerance = dict({'derivative_rel_default': 1e-7, 'fd_truncation_step': 'cell/2^17'}, **DTOL)
    required_theorems = ['C16_dx_exact', 'C16_dx_exact_1d', 'C16_linear_in_values',
                         'C16_dvalues_exact', 'C16_dvalues_exact_1d', 'C16_akima_not_additive']
    rule = ("cases: kind in {InterpND.interpolate(compute_derivative=True), InterpND.gradient (call orders: alone / after interpolate(x) / after interpolate(x, True) / at a new point), InterpND.training_gradients, "
            "MetaModelStructuredComp totals (inputs and training data), SplineComp totals} x method "
            "(general slinear/lagrange2/lagrange3/akima/cubic, fixed 1D/2D/3D variants, bsplines for "
            "SplineComp) x 1-3 random strictly increasing dyadic grids of any sign x random dyadic tables x "
            "1-3 query points strictly inside cells. Non-trivial: every case (random table, off-node point); "
            "distinct by canonical encoding.")
    assumptions = [
        "query points are strictly inside cells (distance >= 1/16 cell from every node) or, with "
        "extrapolation on, outside the table by >= 1/4; one-sided "
        "difference step 2^-17 of the cell (truncation ~1e-10 relative), tolerance 1e-7 relative to "
        "max|table| / min cell width (looser for the power-basis fixed lagrange tables, see tolerance)",
        "the model evaluates exact rationals of every double",
    ]
    level = 'proof'
    level_text = (
        "The evaluators of C15 are polymorphic and are run over dual numbers; Lean proves that the "
        "derivative formulas written in the code for slinear, lagrange2, lagrange3 and the natural cubic "
        "spline (own coordinate and, through the recursion, every sub-table coordinate, any dimension) "
        "are the dual part of the evaluator, that these interpolants are linear in the table with the "
        "unit-vector weights returned by training_gradients as coefficients, and that Akima is not "
        "additive; tied to InterpND, MetaModelStructuredComp and SplineComp by exact-rational "
        "differential runs, with finite differences of the real code as independent oracle.")
    level_note = (
        "Partial: Akima's analytic d_dx/d_dvalues and the B-spline basis are tied only differentially "
        "(model: dual numbers through the Akima evaluator; B-splines: oracle only); IEEE rounding "
        "modelled, not verified; scipy_* methods out of scope.")
    technique = "Lean 4 proof (dual numbers over fields) + exact-rational differential correspondence"
    trusted_extra = ["Problem.compute_totals plumbing for component partials (differential only)"]

    akima_fix = False

    def translate(self):
        _, self.akima_fix = probe_flags()
        return ['akima end conditions: %s' % ('independent blocks (repaired)' if self.akima_fix
                                              else 'elif chain (as pinned)')]

    def setup(self, tier):
        import openmdao.api  # noqa: F401

    # -- generation ------------------------------------------------------------------------------
    def gen_table(self, rng, method, ndim, kmin_extra=0):
        base = BASE.get(method, method)
        kmin = MINPTS.get(base, 4)
        if base == 'akima':
            kmin = 5          # 4-point akima tables are a recorded C15 finding
        hi = {1: 7, 2: 6, 3: 5}[ndim]
        grids = [gen_grid(rng, rng.randint(kmin, max(kmin, hi)),
                          rng.choice(['pos', 'start0', 'neg', 'end0', 'straddle', 'straddle']))
                 for _ in range(ndim)]
        shape = [len(g) for g in grids]
        vals = [rng.randint(-2000, 2000) / 64.0 for _ in node_iter(shape)]
        return grids, vals

    def gen_point(self, rng, grids):
        pt = []
        for g in grids:
            i = rng.randrange(len(g) - 1)
            pt.append(g[i] + rng.choice(FRACS) * (g[i + 1] - g[i]))
        return pt

    def far_points(self, rng, grids, count, nvec):
        """`count` batches of `nvec` points; consecutive batches sit in different regions of the table
        (different stencils), so anything cached by one evaluation is stale for the next."""
        out = []
        prev = None
        for _ in range(count):
            batch = []
            for v in range(nvec):
                pt = []
                for d, g in enumerate(grids):
                    n = len(g) - 1
                    i = rng.randrange(n)
                    if prev is not None and n > 1:
                        # as far as the table allows from the previous evaluation of this vec row
                        i = (prev[v][d] + max(1, n // 2) + rng.randrange(2)) % n
                    pt.append((i, g[i] + rng.choice(FRACS) * (g[i + 1] - g[i])))
                batch.append(pt)
            prev = [[c[0] for c in pt] for pt in batch]
            out.append([[c[1] for c in pt] for pt in batch])
        return out

    def outside_points(self, rng, grids, count, nvec):
        """Batches of points with at least one coordinate strictly outside its grid (above the last or
        below the first node by a dyadic margin); the other coordinates are inside cells."""
        out = []
        for b in range(count):
            batch = []
            for v in range(nvec):
                forced = rng.randrange(len(grids))
                side = ['above', 'below'][(b + v) % 2]
                pt = []
                for d, g in enumerate(grids):
                    m = side if d == forced else rng.choice(['inside', 'inside', 'above', 'below'])
                    if m == 'above':
                        pt.append(g[-1] + rng.choice([Fraction(1, 4), Fraction(1, 2), Fraction(3, 2)]))
                    elif m == 'below':
                        pt.append(g[0] - rng.choice([Fraction(1, 4), Fraction(1, 2), Fraction(3, 2)]))
                    else:
                        i = rng.randrange(len(g) - 1)
                        pt.append(g[i] + rng.choice(FRACS) * (g[i + 1] - g[i]))
                batch.append(pt)
            out.append(batch)
        return out

    def extrap_case(self, rng, method, ndim):
        """MetaModelStructuredComp(extrapolate=True, training_data_gradients=True): evaluations outside
        the table (above the last / below the first node) mixed with one inside."""
        grids, vals = self.gen_table(rng, method, ndim)
        nvec = rng.choice([1, 2])
        batches = self.outside_points(rng, grids, 2, nvec)
        batches.insert(rng.randrange(3), self.far_points(rng, grids, 1, nvec)[0])
        return {'kind': 'mmsc', 'method': method, 'grids': [rats(g) for g in grids], 'values': rats(vals),
                'pts': [rats(p) for p in batches[0]], 'seq': [[rats(p) for p in b] for b in batches[1:]],
                'train_grad': True, 'extrapolate': True}

    def seq_case(self, rng, method=None, ndim=None):
        """Several evaluations on ONE MetaModelStructuredComp with training_data_gradients."""
        ndim = ndim or rng.choice([1, 2, 2, 3])
        method = method or rng.choice(GENERAL)
        grids, vals = self.gen_table(rng, method, ndim)
        if ndim == 3:
            grids = [g[:5] for g in grids]
            vals = [rng.randint(-2000, 2000) / 64.0 for _ in node_iter([len(g) for g in grids])]
        nvec = rng.choice([1, 1, 2])
        batches = self.far_points(rng, grids, rng.choice([2, 3]), nvec)
        return {'kind': 'mmsc', 'method': method, 'grids': [rats(g) for g in grids], 'values': rats(vals),
                'pts': [rats(p) for p in batches[0]], 'seq': [[rats(p) for p in b] for b in batches[1:]],
                'train_grad': True}

    def scipy_case(self, rng, method, shape):
        grids = [gen_grid(rng, n, rng.choice(['pos', 'start0', 'neg', 'end0', 'straddle'])) for n in shape]
        vals = [rng.randint(-2000, 2000) / 64.0 for _ in node_iter(list(shape))]
        batches = self.far_points(rng, grids, rng.choice([1, 2]), rng.choice([1, 2]))
        return {'kind': 'mmsc', 'method': method, 'grids': [rats(g) for g in grids], 'values': rats(vals),
                'pts': [rats(p) for p in batches[0]], 'seq': [[rats(p) for p in b] for b in batches[1:]],
                'train_grad': True}

    def gradient_case(self, rng, method, ndim, order):
        grids, vals = self.gen_table(rng, method, ndim)
        b = self.far_points(rng, grids, 2, rng.choice([1, 1, 2]))
        return {'kind': 'gradient', 'method': method, 'grids': [rats(g) for g in grids],
                'values': rats(vals), 'order': order, 'pts0': [rats(p) for p in b[0]],
                'pts': [rats(p) for p in b[1]]}

    def cases(self, rng, tier):
        # head of the stream: derivative w.r.t. the table over several evaluations on one component,
        # every method that supports training_data_gradients, 1-3 dimensions
        for method in GENERAL:
            for ndim in ((1, 2) if tier == 'quick' else (1, 2, 3)):
                yield self.seq_case(rng, method, ndim)
        if tier != 'quick':
            yield self.seq_case(rng, 'akima', 3)
        # derivative w.r.t. the table OUTSIDE the table (extrapolate=True): above the last and below the
        # first node, every method with training_data_gradients, plus SplineComp (always extrapolates)
        for method in GENERAL:
            for ndim in (1, 2):
                yield self.extrap_case(rng, method, ndim)
        if tier != 'quick':
            for method in GENERAL:
                yield self.extrap_case(rng, method, 3)
        for method in ['slinear', 'lagrange2', 'lagrange3', 'cubic', 'akima', 'akima']:
            yield self.spline_case(rng, method, outside=True)
        # scipy-wrapped splines (third party, no Lean model): d/d(table) on N-d tables whose dimensions
        # have mixed sizes, so the spline order is reduced in some dimensions only
        for method in SCIPY:
            for shape in ((3, 7), (7, 3), (4, 8), (2, 6, 5), (6, 2), (5, 5)) if tier == 'quick' else \
                    ((3, 7), (7, 3), (4, 8), (8, 4), (2, 6, 5), (6, 5, 2), (6, 2), (5, 5), (3, 3), (2, 7),
                     (5, 3, 6), (7, 7)):
                yield self.scipy_case(rng, method, shape)
        # the public InterpND.gradient(x) entry point in every call order
        for method in GENERAL + FIXED[1] + FIXED[2] + (FIXED[3] if tier != 'quick' else ['3D-slinear']):
            nd = int(method[0]) if is_fixed(method) else rng.choice([1, 2, 2, 3])
            for order in (('g', 'i_g') if rng.random() < 0.5 else ('id_g', 'g_new')):
                yield self.gradient_case(rng, method, nd, order)
        for _ in range(10 if tier == 'quick' else 200):
            method = rng.choice(GENERAL + GENERAL + FIXED[1] + FIXED[2])
            nd = int(method[0]) if is_fixed(method) else rng.choice([1, 2, 2, 3])
            yield self.gradient_case(rng, method, nd, rng.choice(['g', 'i_g', 'id_g', 'g_new', 'i_g_new']))
        n = 230 if tier == 'quick' else 4000
        for _ in range(n):
            kind = rng.choice(['interp_dx', 'interp_dx', 'interp_dx', 'train', 'mmsc', 'mmsc', 'spline',
                               'spline'])
            if kind == 'interp_dx':
                ndim = rng.choice([1, 1, 2, 2, 3])
                method = rng.choice(GENERAL) if rng.random() < 0.55 else rng.choice(FIXED[ndim])
                grids, vals = self.gen_table(rng, method, ndim)
                pts = [self.gen_point(rng, grids) for _ in range(rng.choice([1, 1, 2, 3]))]
                vals2 = [rng.randint(-2000, 2000) / 64.0 for _ in vals]
                c = {'kind': kind, 'method': method, 'grids': [rats(g) for g in grids],
                     'values': rats(vals), 'values2': rats(vals2), 'a': rat(rng.choice([2, -3, 0.5, 1.5])),
                     'pts': [rats(p) for p in pts]}
                if rng.random() < 0.4:      # later calls on the same InterpND
                    more = self.far_points(rng, grids, rng.choice([1, 2]), rng.choice([1, 2]))
                    c['seq'] = [[rats(p) for p in b] for b in more]
                yield c
            elif kind == 'train':
                ndim = rng.choice([1, 2, 2, 3])
                method = rng.choice(LINEAR)
                if tier == 'quick' and ndim == 3 and method == 'cubic':
                    ndim = 2      # exact-rational value gradients of 3-D global splines are slow: thorough only
                grids, vals = self.gen_table(rng, method, ndim)
                npt = rng.choice([1, 2, 3])
                pts = [b[0] for b in self.far_points(rng, grids, npt, 1)]
                yield {'kind': kind, 'method': method, 'grids': [rats(g) for g in grids],
                       'values': rats(vals), 'pts': [rats(q) for q in pts]}
            elif kind == 'mmsc':
                ndim = rng.choice([1, 2, 2, 3])
                tg = rng.random() < 0.6
                method = rng.choice(GENERAL) if (tg or rng.random() < 0.5) else rng.choice(FIXED[ndim])
                if tier == 'quick' and tg and ndim == 3 and method in ('cubic', 'akima'):
                    ndim = 2      # see above
                grids, vals = self.gen_table(rng, method, ndim)
                if tg and rng.random() < 0.25 and (ndim < 3 or tier != 'quick'):
                    yield self.extrap_case(rng, method, ndim)
                    continue
                if tg and rng.random() < 0.5 and (ndim < 3 or tier != 'quick'):
                    yield self.seq_case(rng, method, ndim)
                    continue
                pts = [self.gen_point(rng, grids) for _ in range(rng.choice([1, 2]))]
                yield {'kind': kind, 'method': method, 'grids': [rats(g) for g in grids],
                       'values': rats(vals), 'pts': [rats(p) for p in pts], 'train_grad': tg}
            else:
                method = rng.choice(SPLINE)
                vec = rng.choice([1, 2])
                if method == 'bsplines':
                    ncp = rng.randint(5, 8)
                    grid = [Fraction(i, ncp - 1) for i in range(ncp)]
                    xi = sorted(set(Fraction(rng.randint(0, 64), 64) for _ in range(rng.randint(3, 6))))
                    vals = [[rng.randint(-2000, 2000) / 64.0 for _ in range(ncp)] for _ in range(vec)]
                    yield {'kind': kind, 'method': method, 'num_cp': ncp, 'grids': [rats(grid)],
                           'values': [rats(v) for v in vals], 'pts': [rats([x]) for x in xi]}
                else:
                    yield self.spline_case(rng, method, outside=rng.random() < 0.3)

    def spline_case(self, rng, method, outside=False):
        vec = rng.choice([1, 2])
        grids, _ = self.gen_table(rng, method, 1)
        ncp = len(grids[0])
        xs = set(self.gen_point(rng, grids)[0] for _ in range(rng.randint(2, 4)))
        if outside:
            g = grids[0]
            xs.add(g[-1] + rng.choice([Fraction(1, 4), Fraction(1), Fraction(3, 2)]))
            xs.add(g[0] - rng.choice([Fraction(1, 4), Fraction(1), Fraction(3, 2)]))
        xi = sorted(xs)
        vals = [[rng.randint(-2000, 2000) / 64.0 for _ in range(ncp)] for _ in range(vec)]
        return {'kind': 'spline', 'method': method, 'grids': [rats(grids[0])],
                'values': [rats(v) for v in vals], 'pts': [rats([x]) for x in xi]}

    # -- helpers on a case --------------------------------------------------------------------------
    @staticmethod
    def arrays(case):
        grids = [np.array([float(unrat(x)) for x in g]) for g in case['grids']]
        shape = [len(g) for g in grids]
        return grids, shape

    @staticmethod
    def steps(case, pt):
        """Per dimension: dyadic step = H * width of the cell that contains the coordinate."""
        hs = []
        for g, x in zip(case['grids'], pt):
            gg = [unrat(v) for v in g]
            xx = unrat(x)
            inside = [k for k, gv in enumerate(gg[:-1]) if gv <= xx]
            i = max(inside) if inside else 0      # below the table: width of the first cell
            hs.append(float((gg[i + 1] - gg[i]) * H))
        return hs

    @staticmethod
    def scales(case):
        if case['kind'] == 'spline':
            vals = [abs(float(unrat(x))) for row in case['values'] for x in row]
        else:
            vals = [abs(float(unrat(x))) for x in case['values']]
        scale = max([1.0] + vals)
        wmin = min(float(unrat(b) - unrat(a)) for g in case['grids'] for a, b in zip(g[:-1], g[1:]))
        return scale, scale / wmin

    # -- real code ---------------------------------------------------------------------------------
    def run_impl(self, case):
        try:
            with warnings.catch_warnings():
                warnings.simplefilter('ignore')
                return getattr(self, '_impl_' + case['kind'])(case)
        except Exception as e:
            import traceback
            return {'err': type(e).__name__, 'msg': str(e)[:200], 'tb': traceback.format_exc()[-600:]}

    def _table(self, case, key='values'):
        grids, shape = self.arrays(case)
        return grids, np.array([float(unrat(x)) for x in case[key]]).reshape(shape)

    def _impl_interp_dx(self, case):
        from openmdao.components.interp_util.interp import InterpND
        grids, vals = self._table(case)
        method = case['method']
        X = np.array([[float(unrat(c)) for c in p] for p in case['pts']])
        t = InterpND(method=method, points=tuple(grids), values=vals)
        v, dx = t.interpolate(X, compute_derivative=True)
        v = np.asarray(v, dtype=float).ravel()
        dx = np.asarray(dx, dtype=float).reshape(len(X), len(grids))
        def fd_rows(pts, XX):
            # one-sided differences of the real code, fresh object per evaluation (no cached state)
            rows = []
            for p, xrow in zip(pts, XX):
                hs = self.steps(case, p)
                row = []
                for j, h in enumerate(hs):
                    def F(s, j=j, xrow=xrow):
                        y = xrow.copy()
                        y[j] += s
                        tt = InterpND(method=method, points=tuple(grids), values=vals)
                        return float(np.asarray(tt.interpolate(y.reshape(1, -1))).ravel()[0])
                    row.append(list(one_sided(F, h)))
                rows.append(row)
            return rows
        res = {'v': rats(v.tolist()), 'dx': [rats(r) for r in dx.tolist()], 'fd': fd_rows(case['pts'], X)}
        seq = []
        for pts in case.get('seq', []):          # later calls on the SAME InterpND
            Xk = np.array([[float(unrat(c)) for c in q] for q in pts])
            vk, dk = t.interpolate(Xk, compute_derivative=True)
            seq.append({'v': rats(np.asarray(vk, dtype=float).ravel().tolist()),
                        'dx': [rats(r) for r in np.asarray(dk, dtype=float).reshape(len(Xk), len(grids)).tolist()],
                        'fd': fd_rows(pts, Xk)})
        if seq:
            res['seq'] = seq
        if is_linear(method) and 'values2' in case:
            _, vals2 = self._table(case, 'values2')
            a = float(unrat(case['a']))
            f1 = np.asarray(InterpND(method=method, points=tuple(grids), values=vals).interpolate(X)).ravel()
            f2 = np.asarray(InterpND(method=method, points=tuple(grids), values=vals2).interpolate(X)).ravel()
            f3 = np.asarray(InterpND(method=method, points=tuple(grids),
                                     values=a * vals + vals2).interpolate(X)).ravel()
            res['lin'] = {'lhs': f3.tolist(), 'rhs': (a * f1 + f2).tolist()}
        return res

    def _impl_gradient(self, case):
        """`InterpND.gradient(x)` after the call order `order`; x = case['pts'], earlier point pts0."""
        from openmdao.components.interp_util.interp import InterpND
        grids, vals = self._table(case)
        method = case['method']
        X = np.array([[float(unrat(c)) for c in p] for p in case['pts']])
        X0 = np.array([[float(unrat(c)) for c in p] for p in case['pts0']])
        t = InterpND(method=method, points=tuple(grids), values=vals)
        order = case['order']
        if order == 'i_g':                  # value only at x, then gradient(x)
            t.interpolate(X.copy())
        elif order == 'id_g':               # value + derivative at x, then gradient(x)
            t.interpolate(X.copy(), compute_derivative=True)
        elif order == 'g_new':              # value + derivative somewhere else, then gradient at a new x
            t.interpolate(X0.copy(), compute_derivative=True)
        elif order == 'i_g_new':            # value only somewhere else, then gradient at a new x
            t.interpolate(X0.copy())
        g = np.asarray(t.gradient(X.copy()), dtype=float)
        res = {'shape_ok': list(g.shape) == list(X.shape),
               'dx': [rats(r) for r in g.reshape(len(X), len(grids)).tolist()], 'fd': []}
        v = np.asarray(InterpND(method=method, points=tuple(grids), values=vals).interpolate(X.copy()),
                       dtype=float).ravel()
        res['v'] = rats(v.tolist())
        for p, xrow in zip(case['pts'], X):
            hs = self.steps(case, p)
            row = []
            for j, h in enumerate(hs):
                def F(s, j=j, xrow=xrow):
                    y = xrow.copy()
                    y[j] += s
                    tt = InterpND(method=method, points=tuple(grids), values=vals)
                    return float(np.asarray(tt.interpolate(y.reshape(1, -1))).ravel()[0])
                row.append(list(one_sided(F, h)))
            res['fd'].append(row)
        return res

    def _impl_train(self, case):
        from openmdao.components.interp_util.interp import InterpND
        grids, vals = self._table(case)
        method = case['method']
        t = InterpND(method=method, points=tuple(grids), values=vals)      # one instance, all points
        out = []
        flat = vals.ravel()
        for q in case['pts']:
            pt = np.array([float(unrat(c)) for c in q])
            w = np.asarray(t.training_gradients(pt), dtype=float).ravel()
            base = float(np.asarray(InterpND(method=method, points=tuple(grids), values=vals)
                                    .interpolate(pt.reshape(1, -1))).ravel()[0])
            fdv = []
            for e in range(flat.size):
                v2 = flat.copy()
                v2[e] += 1.0
                y = InterpND(method=method, points=tuple(grids), values=v2.reshape(vals.shape)) \
                    .interpolate(pt.reshape(1, -1))
                fdv.append(float(np.asarray(y).ravel()[0]) - base)
            out.append({'w': rats(w.tolist()), 'v': rat(base), 'fdv': fdv})
        res = dict(out[0])
        res['more'] = out[1:]
        return res

    def _mmsc_problem(self, case, vals, size):
        import openmdao.api as om
        grids, shape = self.arrays(case)
        comp = om.MetaModelStructuredComp(method=case['method'],
                                          extrapolate=bool(case.get('extrapolate', False)), vec_size=size,
                                          training_data_gradients=bool(case['train_grad']))
        for d, g in enumerate(grids):
            comp.add_input('x%d' % d, float(g[0]), training_data=g)
        comp.add_output('f', 1.0, training_data=vals)
        p = om.Problem()
        p.model.add_subsystem('c', comp, promotes=['*'])
        p.setup()
        return p

    def _impl_mmsc(self, case):
        grids, vals = self._table(case)
        X = np.array([[float(unrat(c)) for c in p] for p in case['pts']])
        size = len(X)
        nd = len(grids)
        p = self._mmsc_problem(case, vals, size)

        def run(Xq, V=None):
            for d in range(nd):
                p.set_val('x%d' % d, Xq[:, d])
            if case['train_grad']:
                p.set_val('f_train', vals if V is None else V)
            p.run_model()
            return np.asarray(p.get_val('f'), dtype=float).ravel().copy()
        wrt = ['x%d' % d for d in range(nd)] + (['f_train'] if case['train_grad'] else [])

        def step(X, pts):
            """One evaluation on the SAME problem: values, totals right after it, then differences."""
            f0 = run(X)
            J = p.compute_totals(of=['f'], wrt=wrt)
            res = {'v': rats(f0.tolist()),
                   'dx': [rats([float(J['f', 'x%d' % d][k, k]) for d in range(nd)]) for k in range(size)],
                   'fd': []}
            Jt = None
            if case['train_grad']:
                Jt = np.array(np.asarray(J['f', 'f_train'], dtype=float).reshape(size, -1))
                res['dv'] = [rats(r) for r in Jt.tolist()]
            for k, pnt in enumerate(pts):
                hs = self.steps(case, pnt)
                row = []
                for j, h in enumerate(hs):
                    def F(s, j=j, k=k):
                        Y = X.copy()
                        Y[k, j] += s
                        return float(run(Y)[k])
                    row.append(list(one_sided(F, h)))
                res['fd'].append(row)
            if case['train_grad']:
                lin = is_linear(case['method'])
                tstep = 1.0 if lin else TV
                fdv = []
                flat = vals.ravel()
                for e in range(flat.size):
                    def F(s, e=e):
                        v2 = flat.copy()
                        v2[e] += s
                        return run(X, v2.reshape(vals.shape))
                    if lin:
                        d = F(1.0) - f0
                        fdv.append([[float(x), float(x)] for x in d])
                    else:
                        fw, bw, ef, eb = one_sided(F, tstep / 2, f0)
                        fdv.append([[float(a), float(b), float(c), float(d)]
                                    for a, b, c, d in zip(fw, bw, ef, eb)])
                res['fdv'] = fdv          # [entry][point][fwd,bwd]
            return res
        res = step(X, case['pts'])
        # further evaluations on the same component (cached gradient arrays, last_index, coefficient
        # caches must not leak from one evaluation into the next)
        seq = []
        for pts in case.get('seq', []):
            Xk = np.array([[float(unrat(c)) for c in q] for q in pts])
            seq.append(step(Xk, pts))
        if seq:
            res['seq'] = seq
        return res

    def _impl_spline(self, case):
        import openmdao.api as om
        method = case['method']
        xi = np.array([float(unrat(p[0])) for p in case['pts']])
        Y = np.array([[float(unrat(x)) for x in row] for row in case['values']])
        vec, ncp = Y.shape
        kw = {'num_cp': case['num_cp']} if method == 'bsplines' else \
             {'x_cp_val': np.array([float(unrat(x)) for x in case['grids'][0]])}
        if method == 'bsplines':
            kw['interp_options'] = {'order': 4}
        comp = om.SplineComp(method=method, x_interp_val=xi, vec_size=vec, **kw)
        comp.add_spline(y_cp_name='ycp', y_interp_name='y', y_cp_val=Y.copy())
        p = om.Problem()
        p.model.add_subsystem('s', comp, promotes=['*'])
        p.setup()

        def run(V):
            p.set_val('ycp', V)
            p.run_model()
            return np.asarray(p.get_val('y'), dtype=float).reshape(vec, len(xi)).copy()
        y0 = run(Y)
        J = np.asarray(p.compute_totals(of=['y'], wrt=['ycp'])['y', 'ycp'], dtype=float)
        J = J.reshape(vec, len(xi), vec, ncp)
        res = {'y': [rats(r) for r in y0.tolist()],
               'J': [[rats(J[v, i, v, :].tolist()) for i in range(len(xi))] for v in range(vec)],
               'cross': float(max([0.0] + [abs(J[v, :, u, :]).max() for v in range(vec)
                                           for u in range(vec) if u != v]))}
        lin = method != 'akima'
        fdv = []
        for v in range(vec):
            rows = []
            for k in range(ncp):
                def F(s, v=v, k=k):
                    V = Y.copy()
                    V[v, k] += s
                    return run(V)[v]
                if lin:
                    d = F(1.0) - y0[v]
                    rows.append([[float(x), float(x)] for x in d])
                else:
                    fw, bw, ef, eb = one_sided(F, TV / 2, y0[v])
                    rows.append([[float(a), float(b), float(c), float(d)]
                                 for a, b, c, d in zip(fw, bw, ef, eb)])
            fdv.append(rows)        # [vec][cp][interp][fwd,bwd]
        res['fdv'] = fdv
        if lin:
            Y2 = np.array([[((7 * i + 3 * j) % 11) - 5.0 for j in range(ncp)] for i in range(vec)])
            res['lin'] = {'lhs': run(2.0 * Y + Y2).ravel().tolist(),
                          'rhs': (2.0 * y0 + run(Y2)).ravel().tolist()}
        run(Y)
        return res

    # -- direct oracle -----------------------------------------------------------------------------
    def oracle(self, case, impl):
        kind, method = case['kind'], case['method']
        ctx = {'kind': kind, 'method': method, 'ndim': len(case['grids']),
               'train_grad': bool(case.get('train_grad', False))}
        if case.get('extrapolate'):
            ctx['extrapolate'] = True
        if kind == 'spline':
            ctx['vec_eq_ninterp'] = len(case['values']) == len(case['pts'])
        if 'err' in impl:
            return dict(ctx, what='error', err=impl['err'], msg=impl.get('msg'), tb=impl.get('tb'))
        scale, dscale = self.scales(case)
        tol = dtol(method)
        if kind == 'gradient':
            ctx['order'] = case['order']
            if not impl['shape_ok']:
                return dict(ctx, what='gradient_shape')
        if kind in ('interp_dx', 'mmsc', 'gradient'):
            # evaluation 0 and every later evaluation on the same object
            evals = [(case['pts'], impl)] + list(zip(case.get('seq', []), impl.get('seq', [])))
            V = [float(unrat(v)) for v in case['values']]
            for step, (pts, r_) in enumerate(evals):
                sctx = dict(ctx, evaluation=step, later_evaluation=step > 0)
                for k, (drow, frow) in enumerate(zip(r_['dx'], r_['fd'])):
                    for j, (d, est) in enumerate(zip(drow, frow)):
                        d = float(unrat(d))
                        if not fd_ok(d, est, tol, dscale):
                            return dict(sctx, what='d_dx_vs_difference', point=pts[k], dim=j, got=d,
                                        forward=est[0], backward=est[1], error_bars=list(est[2:]))
                if kind == 'mmsc' and case['train_grad']:
                    for k, row in enumerate(r_['dv']):
                        r = [float(unrat(x)) for x in row]
                        for e, a in enumerate(r):
                            est = r_['fdv'][e][k]
                            if not fd_ok(a, est, 1e-6, max(1.0, abs(a))):
                                return dict(sctx, what='d_dvalues_vs_difference', point=pts[k], entry=e,
                                            got=a, forward=est[0], backward=est[1])
                        tot = sum(a * v for a, v in zip(r, V))
                        if not close(tot, float(unrat(r_['v'][k])), 1e-8, 10 * scale):
                            return dict(sctx, what='value_not_sum_of_weights', point=pts[k], got=tot,
                                        value=float(unrat(r_['v'][k])))
            if 'lin' in impl:
                for a, b in zip(impl['lin']['lhs'], impl['lin']['rhs']):
                    if not close(a, b, 1e-9, 10 * scale):
                        return dict(ctx, what='not_linear_in_values', lhs=a, rhs=b)
        if kind == 'train':
            for step, r_ in enumerate([impl] + list(impl.get('more', []))):
                sctx = dict(ctx, evaluation=step, later_evaluation=step > 0)
                w = [float(unrat(x)) for x in r_['w']]
                if len(w) != len(case['values']):
                    return dict(sctx, what='training_gradient_shape', got=len(w),
                                expected=len(case['values']))
                for e, (a, b) in enumerate(zip(w, r_['fdv'])):
                    if not close(a, b, 1e-8, max(1.0, abs(a)) * scale):
                        return dict(sctx, what='d_dvalues_vs_difference', entry=e, got=a, difference=b)
                tot = sum(a * float(unrat(v)) for a, v in zip(w, case['values']))
                if not close(tot, float(unrat(r_['v'])), 1e-9, 10 * scale):
                    return dict(sctx, what='value_not_sum_of_weights', got=tot, value=float(unrat(r_['v'])))
        if kind == 'spline':
            if impl['cross'] != 0.0:
                return dict(ctx, what='cross_vec_partials_nonzero', got=impl['cross'])
            for v, rows in enumerate(impl['J']):
                Vv = [float(unrat(x)) for x in case['values'][v]]
                for i, row in enumerate(rows):
                    r = [float(unrat(x)) for x in row]
                    for kcp, a in enumerate(r):
                        est = impl['fdv'][v][kcp][i]
                        if not fd_ok(a, est, 1e-6, max(1.0, abs(a))):
                            return dict(ctx, what='d_dvalues_vs_difference', entry=kcp, interp=i, got=a,
                                        forward=est[0], backward=est[1])
                    tot = sum(a * y for a, y in zip(r, Vv))
                    if not close(tot, float(unrat(impl['y'][v][i])), 1e-8, 10 * scale):
                        return dict(ctx, what='value_not_sum_of_weights', got=tot,
                                    value=float(unrat(impl['y'][v][i])))
            if 'lin' in impl:
                for a, b in zip(impl['lin']['lhs'], impl['lin']['rhs']):
                    if not close(a, b, 1e-9, 10 * scale):
                        return dict(ctx, what='not_linear_in_values', lhs=a, rhs=b)
        return None

    def signature(self, case, impl, failure):
        return {k: failure[k] for k in ('what', 'kind', 'method', 'err', 'ndim', 'train_grad',
                                            'vec_eq_ninterp', 'later_evaluation', 'order', 'extrapolate')
                if k in failure}

    def bucket(self, case, impl):
        if case['kind'] == 'gradient':
            return ['kind=gradient', 'method=' + case['method'], 'ndim=%d' % len(case['grids']),
                    'order=' + case['order'], 'impl_error' if 'err' in impl else 'impl_ok']
        out = ['kind=' + case['kind'], 'method=' + case['method'], 'ndim=%d' % len(case['grids']),
               'points=%d' % len(case['pts']), 'impl_error' if 'err' in impl else 'impl_ok']
        if case['kind'] == 'mmsc':
            out.append('train_grad=%s' % case['train_grad'])
            out.append('extrapolate=%s' % bool(case.get('extrapolate', False)))
        nev = len(case['pts']) if case['kind'] == 'train' else 1 + len(case.get('seq', []))
        out.append('evaluations_on_one_object=%d' % nev)
        return out

    # -- model -----------------------------------------------------------------------------------
    def model_requests(self, case, impl):
        if 'err' in impl or case['method'] == 'bsplines' or case['method'] in SCIPY:
            return []
        base = BASE[case['method']]
        kind = case['kind']
        reqs = []
        if kind == 'spline':
            for row in case['values']:
                for p in case['pts']:
                    reqs.append({'op': 'grad', 'method': base, 'grids': case['grids'], 'values': row,
                                 'pt': p, 'dv': True, 'akimaFix': bool(self.akima_fix)})
            return reqs
        want_dv = kind == 'train' or (kind == 'mmsc' and case['train_grad'])
        allpts = list(case['pts']) + [q for batch in case.get('seq', []) for q in batch]
        for p in allpts:
            reqs.append({'op': 'grad', 'method': base, 'grids': case['grids'], 'values': case['values'],
                         'pt': p, 'dv': want_dv, 'akimaFix': bool(self.akima_fix)})
        return reqs

    def compare(self, case, impl, answers):
        kind, method = case['kind'], case['method']
        scale, dscale = self.scales(case)
        tol = dtol(method)

        def f(x):
            return float(unrat(x))
        if kind in ('interp_dx', 'mmsc', 'gradient'):
            evals = [(case['pts'], impl)] + list(zip(case.get('seq', []), impl.get('seq', [])))
            it = iter(answers)
            for step, (pts, r_) in enumerate(evals):
                for k in range(len(pts)):
                    a = next(it)
                    tag = 'evaluation %d point %d' % (step, k)
                    if not close(f(r_['v'][k]), f(a['v']), tol, scale):
                        return '%s: value %r vs model %r' % (tag, f(r_['v'][k]), f(a['v']))
                    for j, (d, m) in enumerate(zip(r_['dx'][k], a['dx'])):
                        if not close(f(d), f(m), tol, dscale):
                            return '%s dim %d: d_dx %r vs dual-number model %r' % (tag, j, f(d), f(m))
                    if a['dxc'] is not None:
                        for j, (d, m) in enumerate(zip(r_['dx'][k], a['dxc'])):
                            if not close(f(d), f(m), tol, dscale):
                                return '%s dim %d: d_dx %r vs code-formula model %r' % (tag, j, f(d), f(m))
                    if kind == 'mmsc' and case['train_grad']:
                        for e, (d, m) in enumerate(zip(r_['dv'][k], a['dv'])):
                            if not close(f(d), f(m), 1e-8, max(1.0, abs(f(m)))):
                                return '%s entry %d: d_dvalues %r vs model %r' % (tag, e, f(d), f(m))
        elif kind == 'train':
            for step, (a, r_) in enumerate(zip(answers, [impl] + list(impl.get('more', [])))):
                # outer product of the per-axis weights, row-major
                w = [1.0]
                for axis in a['w']:
                    w = [x * f(y) for x in w for y in axis]
                for e, (d, m, mm) in enumerate(zip(r_['w'], w, a['dv'])):
                    if not close(f(d), m, 1e-8, max(1.0, abs(m))):
                        return 'evaluation %d entry %d: training gradient %r vs unit-vector model %r' % (
                            step, e, f(d), m)
                    if not close(f(d), f(mm), 1e-8, max(1.0, abs(m))):
                        return 'evaluation %d entry %d: training gradient %r vs dual-number model %r' % (
                            step, e, f(d), f(mm))
        elif kind == 'spline':
            it = iter(answers)
            for v, row in enumerate(case['values']):
                for i, p in enumerate(case['pts']):
                    a = next(it)
                    if not close(f(impl['y'][v][i]), f(a['v']), 1e-9, scale):
                        return 'vec %d interp %d: value %r vs model %r' % (v, i, f(impl['y'][v][i]), f(a['v']))
                    for kcp, (d, m) in enumerate(zip(impl['J'][v][i], a['dv'])):
                        if not close(f(d), f(m), 1e-8, max(1.0, abs(f(m)))):
                            return 'vec %d interp %d cp %d: partial %r vs model %r' % (v, i, kcp, f(d), f(m))
        return None


PROP = C16()
