"""C12 — FD and complex-step approximations are faithful and side-effect free.

A case is a small real OpenMDAO problem built from harness-defined polynomial components (degree
<= 3 per component, dyadic coefficients and values):

* kind `partials`: IndepVarComp -> one explicit component whose partials are declared
  `method='fd'|'cs'` with `form / step / step_calc / minimum_step` per `wrt`; optionally
  `declare_coloring` on the component; optionally a `compute` that raises when an input exceeds a
  threshold (an `AnalysisError` in the k-th perturbed evaluation);
* kind `totals`: IndepVarComp -> chain of components with analytic partials, `model.approx_totals`;
  design variables / responses with optional indices; optionally `model.declare_coloring`;
* kind `semi`: the chain sits in a sub-group that owns the approximation (semi-totals), the top
  level uses the analytic machinery;
* kind `bad`: an invalid `form` / `step_calc` (error branch).

Observed through the public API: `compute_totals` (twice), `run_linearize`, `check_partials` (with
its own FD options), and SHA-1 hashes of the bytes of `_inputs/_outputs/_residuals` before/after
every call.

* correspondence: the Lean driver runs `OMV.C12.fdApprox` / `csApprox` on the same polynomial
  system, state, jobs (one per column or per color) and options; jacobians must be equal — exactly
  (rationals) when the float computation is exact (power-of-two steps, checked by mirroring every
  intermediate in `Fraction`s), else within the recorded tolerance;
* direct oracle (no Lean, no coefficient table): the exact derivative of the composed polynomial
  plus the textbook Taylor remainder of the form at the documented step
  (forward `sum_{k>=2} g_k h^(k-1)`, backward with `-h`, central odd `k`), from `Fraction`
  arithmetic on univariate expansions; colored == uncolored; byte hashes unchanged.
"""
import ast
import hashlib
import os
import warnings
from fractions import Fraction

# tiny matrices only: BLAS worker threads just add contention when the machine is shared
for _v in ('OMP_NUM_THREADS', 'OPENBLAS_NUM_THREADS', 'MKL_NUM_THREADS'):
    os.environ.setdefault(_v, '1')

from common import Property, TieBroken, Infra, REPO, LEAN, rat, unrat, rats, canon

F = Fraction
U = F(1, 2 ** 46)            # tolerance unit: 128 ulp(1)
CS_STEP = 1e-40


# ------------------------------------------------------------------------------------------------
# translator: FD_COEFFS / DEFAULT_ORDER -> OMV/Generated/C12FdTable.lean

def _num(node):
    if isinstance(node, ast.UnaryOp) and isinstance(node.op, (ast.USub, ast.UAdd)):
        v = _num(node.operand)
        return -v if isinstance(node.op, ast.USub) else v
    if isinstance(node, ast.Constant) and isinstance(node.value, (int, float)) \
            and not isinstance(node.value, bool):
        return F(float(node.value))
    raise TieBroken('not a numeric literal: %s' % ast.dump(node)[:80])


def _arr(node):
    if isinstance(node, ast.Call) and node.args:
        node = node.args[0]
    if isinstance(node, (ast.List, ast.Tuple)):
        return [_num(e) for e in node.elts]
    raise TieBroken('not an array literal: %s' % ast.dump(node)[:80])


def extract_fd_table(path):
    """AST extraction of DEFAULT_ORDER and the FD_COEFFS literal of _generate_fd_coeff."""
    try:
        tree = ast.parse(open(path).read())
    except (OSError, SyntaxError) as e:
        raise TieBroken('cannot parse %s: %s' % (path, e))
    default_order = None
    table = None
    for node in tree.body:
        if isinstance(node, ast.Assign) and len(node.targets) == 1 and \
                isinstance(node.targets[0], ast.Name) and node.targets[0].id == 'DEFAULT_ORDER':
            if not isinstance(node.value, ast.Dict):
                raise TieBroken('DEFAULT_ORDER is not a dict literal')
            default_order = []
            for k, v in zip(node.value.keys, node.value.values):
                if not (isinstance(k, ast.Constant) and isinstance(k.value, str) and
                        isinstance(v, ast.Constant) and isinstance(v.value, int)):
                    raise TieBroken('DEFAULT_ORDER entry is not str: int')
                default_order.append((k.value, v.value))
        if isinstance(node, ast.FunctionDef) and node.name == '_generate_fd_coeff':
            for sub in ast.walk(node):
                if isinstance(sub, ast.Assign) and len(sub.targets) == 1 and \
                        isinstance(sub.targets[0], ast.Name) and sub.targets[0].id == 'FD_COEFFS':
                    if not isinstance(sub.value, ast.Dict):
                        raise TieBroken('FD_COEFFS is not a dict literal')
                    table = {}
                    for k, v in zip(sub.value.keys, sub.value.values):
                        if not (isinstance(k, ast.Tuple) and len(k.elts) == 2 and
                                isinstance(k.elts[0], ast.Constant) and
                                isinstance(k.elts[0].value, str) and
                                isinstance(k.elts[1], ast.Constant) and
                                isinstance(k.elts[1].value, int)):
                            raise TieBroken('FD_COEFFS key is not (str, int)')
                        if not isinstance(v, ast.Call):
                            raise TieBroken('FD_COEFFS value is not an FDForm(...) call')
                        kw = {a.arg: a.value for a in v.keywords}
                        names = ['deltas', 'coeffs', 'current_coeff']
                        for i, a in enumerate(v.args):
                            kw[names[i]] = a
                        if set(kw) != set(names):
                            raise TieBroken('FDForm(...) call has fields %s' % sorted(kw))
                        table[(k.elts[0].value, k.elts[1].value)] = (
                            _arr(kw['deltas']), _arr(kw['coeffs']), _num(kw['current_coeff']))
    if default_order is None:
        raise TieBroken('DEFAULT_ORDER literal not found in finite_difference.py')
    if not table:
        raise TieBroken('FD_COEFFS literal not found in _generate_fd_coeff')
    return default_order, table


def live_fd_table(keys):
    """The same table through the live function (cross-check of the AST reading)."""
    from openmdao.approximation_schemes import finite_difference as fdm
    out = {}
    for form, order in keys:
        try:
            r = fdm._generate_fd_coeff(form, order, None)
        except Exception as e:      # noqa
            raise TieBroken('_generate_fd_coeff(%r, %r) raised %s' % (form, order, type(e).__name__))
        out[(form, order)] = ([F(float(x)) for x in r.deltas], [F(float(x)) for x in r.coeffs],
                              F(float(r.current_coeff)))
    return out, list(fdm.DEFAULT_ORDER.items())


def lean_rat(q):
    q = F(q)
    if q.denominator == 1:
        return '(%d : Rat)' % q.numerator
    return '((%d : Rat) / %d)' % (q.numerator, q.denominator)


def lean_table(default_order, table):
    rows = []
    for (form, order), (dl, cf, cur) in table.items():
        rows.append('  (("%s", %d), { deltas := [%s], coeffs := [%s], current := %s })' % (
            form, order, ', '.join(lean_rat(x) for x in dl), ', '.join(lean_rat(x) for x in cf),
            lean_rat(cur)))
    dord = ', '.join('("%s", %d)' % (f, o) for f, o in default_order)
    return ('/-\nGENERATED by harness/c12.py:translate from '
            '/repo/openmdao/approximation_schemes/finite_difference.py\n'
            '(`FD_COEFFS` literal of `_generate_fd_coeff`, `DEFAULT_ORDER`) — do not edit.\n'
            'Each coefficient is the exact rational value of the source double.\n-/\n'
            'import OMV.Model.C12\n\nnamespace OMV.C12.Generated\n\n'
            'def fdTable : OMV.C12.FdTable := [\n%s]\n\n'
            'def defaultOrderTable : List (String × Nat) := [%s]\n\n'
            'end OMV.C12.Generated\n' % (',\n'.join(rows), dord))


# ------------------------------------------------------------------------------------------------
# exact polynomial arithmetic

class UPoly:
    """univariate polynomial in t with Fraction coefficients (index = power)"""
    __slots__ = ('c',)

    def __init__(self, c):
        c = list(c)
        while len(c) > 1 and c[-1] == 0:
            c.pop()
        self.c = c

    def __add__(self, o):
        n = max(len(self.c), len(o.c))
        return UPoly([(self.c[i] if i < len(self.c) else 0) + (o.c[i] if i < len(o.c) else 0)
                      for i in range(n)])

    def __mul__(self, o):
        out = [F(0)] * (len(self.c) + len(o.c) - 1)
        for i, a in enumerate(self.c):
            if a:
                for j, b in enumerate(o.c):
                    out[i + j] += a * b
        return UPoly(out)

    def coef(self, k):
        return self.c[k] if k < len(self.c) else F(0)


def upc(x):
    return UPoly([F(x)])


def fits(q):
    """q is exactly representable as a double"""
    try:
        return F(float(q)) == q
    except OverflowError:
        return False


class Track:
    """evaluates polynomials in Fractions in the order the component's compute() uses, recording
    whether every intermediate is a double (then the float computation is exact) and the largest
    sum of absolute values of terms (conditioning, for the tolerance)."""

    def __init__(self):
        self.exact = True
        self.gmax = F(0)

    def chk(self, q):
        if self.exact and not fits(q):
            self.exact = False
        return q

    def poly(self, mono, x):
        acc = F(0)
        g = F(0)
        for c, vs in mono:
            t = F(c)
            for v in vs:
                t = self.chk(t * x[v])
            acc = self.chk(acc + t)
            g += abs(t)
        if g > self.gmax:
            self.gmax = g
        return acc


def mono_of(case_polys):
    return [[(unrat(c), vs) for c, vs in mono] for mono in case_polys]


def dmono(mono, j):
    """d/dx_j of a monomial list"""
    out = []
    for c, vs in mono:
        k = vs.count(j)
        if k:
            vs2 = list(vs)
            vs2.remove(j)
            out.append((c * k, vs2))
    return out


# ------------------------------------------------------------------------------------------------
# the generated systems: layout shared by the real problem, the oracle and the model request

class Layout:
    """positions of every variable element in the inputs / outputs vectors of the approximated
    system (component for partials, model or sub-group for totals / semi)."""

    def __init__(self, case):
        self.case = case
        kind = case['kind']
        self.comps = case['comps']
        self.ivc = [(n, [unrat(v) for v in vals]) for n, vals in case['ivc']]
        self.src_of = {}                 # variable name -> ('ivc', i) / ('comp', ci, oi)
        for n, vals in self.ivc:
            self.src_of[n] = 'ivc'
        for ci, c in enumerate(self.comps):
            for n, sz in c['outs']:
                self.src_of[n] = ci
        # outputs vector of the approximated system
        self.out_pos = {}                # var name -> start
        self.out_size = {}
        pos = 0
        if kind in ('totals',):
            for n, vals in self.ivc:
                self.out_pos[n] = pos
                self.out_size[n] = len(vals)
                pos += len(vals)
        for c in self.comps:
            for n, sz in c['outs']:
                self.out_pos[n] = pos
                self.out_size[n] = sz
                pos += sz
        self.n_out = pos
        # inputs vector
        self.in_pos = {}                 # (ci, name) -> start
        pos = 0
        for ci, c in enumerate(self.comps):
            for n, sz in c['ins']:
                self.in_pos[(ci, n)] = pos
                pos += sz
        self.n_in = pos
        self.sizes = {n: len(v) for n, v in self.ivc}
        for c in self.comps:
            for n, sz in c['outs']:
                self.sizes[n] = sz

    def comp_in_local(self, ci):
        """local flat index -> (name, k) for component ci"""
        out = []
        for n, sz in self.comps[ci]['ins']:
            out.extend((n, k) for k in range(sz))
        return out

    # exact evaluation of the whole chain given values of the independent variables
    def evaluate(self, indep, tr=None, one=F, override=None):
        """indep: name -> list of numbers (Fraction or UPoly). Returns name -> list.
        override: {(ci, input name): values} seen by that component input only (semi-totals:
        a group input perturbed without its source)."""
        vals = dict(indep)
        for ci, c in enumerate(self.comps):
            x = []
            for n, sz in c['ins']:
                if override and (ci, n) in override:
                    x.extend(override[(ci, n)])
                else:
                    x.extend(vals[n])
            res = []
            for mono in mono_of(c['polys']):
                if tr is not None:
                    res.append(tr.poly(mono, x))
                else:
                    acc = None
                    for cf, vs in mono:
                        t = one(cf)
                        for v in vs:
                            t = t * x[v]
                        acc = t if acc is None else acc + t
                    res.append(acc if acc is not None else one(0))
            k = 0
            for n, sz in c['outs']:
                vals[n] = res[k:k + sz]
                k += sz
        return vals


def wrt_columns(case, lay):
    """the jacobian columns of the case: list of dicts
    {'var', 'k' (element in var), 'loc' (enumeration index as the code counts it), 'opts'}"""
    cols = []
    if case['kind'] == 'partials' or case['kind'] == 'bad':
        for n, sz in lay.comps[0]['ins']:
            for k in range(sz):
                cols.append({'var': n, 'k': k, 'loc': k, 'opts': case['decl'][n]})
    else:
        for n, idx in case['wrt']:
            sel = list(range(lay.sizes[n])) if idx is None else idx
            for loc, k in enumerate(sel):
                # a negative entry counts from the end of the variable
                cols.append({'var': n, 'k': k % lay.sizes[n], 'loc': loc, 'opts': case['approx']})
    return cols


def of_rows(case, lay):
    rows = []
    if case['kind'] in ('partials', 'bad'):
        for n, sz in lay.comps[0]['outs']:
            for k in range(sz):
                rows.append((n, k))
    else:
        for n, idx in case['of']:
            sel = list(range(lay.sizes[n])) if idx is None else idx
            for k in sel:
                rows.append((n, k % lay.sizes[n]))
    return rows


def documented_step(opts, xvar, k, tr):
    """the step the documentation promises for element k of a variable with value xvar.
    Returns (h, exact_norm)"""
    step = F(opts['step']) if opts.get('step') is not None else F(1e-6)
    sc = opts.get('step_calc') or 'abs'
    mn = F(opts['minimum_step']) if opts.get('minimum_step') is not None else F(1e-12)
    if sc == 'abs':
        return step, True
    if sc in ('rel', 'rel_avg'):
        s = sum(abs(v) for v in xvar)
        h = tr.chk(step * tr.chk(s / len(xvar)))
        return (mn if h < mn else h), True
    if sc == 'rel_legacy':
        ss = sum(v * v for v in xvar)
        r = frac_sqrt(ss)
        if r is None:
            import math
            r = F(math.sqrt(float(ss)))
            tr.exact = False
            ex = False
        else:
            ex = True
        tr.chk(ss)
        h = tr.chk(step * r)
        return (mn if h < mn else h), ex
    if sc == 'rel_element':
        h = tr.chk(abs(xvar[k]) * step)
        return (mn if h < mn else h), True
    raise ValueError(sc)


def frac_sqrt(q):
    import math
    if q < 0:
        return None
    a = math.isqrt(q.numerator)
    b = math.isqrt(q.denominator)
    if a * a == q.numerator and b * b == q.denominator:
        return F(a, b)
    return None


def remainder(form, g, h):
    """textbook Taylor remainder of the difference quotient of the univariate polynomial g at 0"""
    r = F(0)
    deg = len(g.c) - 1
    for k in range(2, deg + 1):
        gk = g.coef(k)
        if form == 'forward':
            r += gk * h ** (k - 1)
        elif form == 'backward':
            r += gk * (-h) ** (k - 1)
        elif form == 'central':
            if k % 2 == 1:
                r += gk * h ** (k - 1)
        else:
            raise ValueError(form)
    return r


_EXP_CACHE = {}


def expected_jac(case, lay=None):
    """memoised `_expected_jac` (the same case object is asked by oracle, compare and bucket)"""
    key = id(case)
    hit = _EXP_CACHE.get(key)
    if hit is not None and hit[0] is case:
        return hit[1]
    val = _expected_jac(case, lay or Layout(case))
    if len(_EXP_CACHE) > 20000:
        _EXP_CACHE.clear()
    _EXP_CACHE[key] = (case, val)
    return val


def _expected_jac(case, lay):
    """Direct oracle value of every jacobian entry: exact derivative + textbook remainder.
    Returns dict with J (list of rows of Fractions), exact (bool), tol (Fraction per column),
    steps."""
    tr = Track()
    indep = {n: list(v) for n, v in lay.ivc}
    base = lay.evaluate(indep, tr)
    cols = wrt_columns(case, lay)
    rows = of_rows(case, lay)
    method = case['method']
    steps = []
    amp = F(1)
    for c in lay.comps:
        x = []
        for n, sz in c['ins']:
            x.extend(abs(v) for v in base[n])
        d = F(0)
        for mono in mono_of(c['polys']):
            s = F(0)
            for j in range(len(x)):
                for cf, vs in dmono(mono, j):
                    t = abs(cf)
                    for v in vs:
                        t *= x[v]
                    s += t
            d = max(d, s)
        amp *= (1 + d)
    J = [[F(0)] * len(cols) for _ in rows]
    for jc, col in enumerate(cols):
        n, k = col['var'], col['k']
        if case['kind'] == 'semi':
            targets = [ci for ci, c in enumerate(lay.comps) if any(m == n for m, _ in c['ins'])]
        else:
            targets = [None]
        hcol = None
        for tgt in targets:
            # univariate expansion along the perturbed element
            ind = {m: [upc(v) for v in vals] for m, vals in indep.items()}
            if tgt is None:
                ind[n][k] = UPoly([indep[n][k], F(1)])
                up = lay.evaluate(ind, None, one=lambda c: upc(c))
            else:
                ov = [upc(v) for v in indep[n]]
                ov[k] = UPoly([indep[n][k], F(1)])
                up = lay.evaluate(ind, None, one=lambda c: upc(c), override={(tgt, n): ov})
            if method == 'cs':
                st = (col['opts'] or {}).get('step')
                hcol = F(CS_STEP) if st is None else unrat(st)
                for ir, (on, ok) in enumerate(rows):
                    J[ir][jc] += up[on][ok].coef(1)
                continue
            opts = col['opts']
            h, exn = documented_step(opts, indep[n], k, tr)
            hcol = h
            form = opts.get('form') or 'forward'
            # mirror the float computation for exactness: x + delta*h, the perturbed evaluations,
            # the scaled coefficients and the accumulation
            deltas = {'forward': [1], 'backward': [-1], 'central': [1, -1]}[form]
            if not fits(1 / h):
                tr.exact = False
            for dl in deltas:
                pert = list(indep[n])
                pert[k] = tr.chk(indep[n][k] + tr.chk(dl * h))
                if tgt is None:
                    ind2 = {m: list(vals) for m, vals in indep.items()}
                    ind2[n] = pert
                    pv = lay.evaluate(ind2, tr)
                else:
                    pv = lay.evaluate(indep, tr, override={(tgt, n): pert})
                for (on, ok) in rows:
                    tr.chk(pv[on][ok] / h)
                    tr.chk(pv[on][ok] / (2 * h))
            for ir, (on, ok) in enumerate(rows):
                g = up[on][ok]
                tr.chk(base[on][ok] / h)
                val = g.coef(1) + remainder(form, g, h)
                tr.chk(val)
                J[ir][jc] = tr.chk(J[ir][jc] + val)
        steps.append(hcol if hcol is not None else F(1))
    gmax = tr.gmax if tr.gmax > 1 else F(1)
    tols = []
    for jc, col in enumerate(cols):
        if method == 'cs':
            tols.append(U * amp * 4)
        else:
            tols.append(U * amp * gmax / abs(steps[jc]) + U * amp)
    return {'J': J, 'exact': tr.exact and method == 'fd', 'tol': tols, 'steps': steps,
            'base': base, 'cols': cols, 'rows': rows}


# ------------------------------------------------------------------------------------------------
# the real problem

def _comp_class():
    import numpy as np
    import openmdao.api as om

    class PolyComp(om.ExplicitComponent):
        def initialize(self):
            self.options.declare('spec', recordable=False)
            self.options.declare('decl', default=None, recordable=False)
            self.options.declare('coloring', default=None, recordable=False)
            self.options.declare('decl_seq', default=None, recordable=False)
            self.ncompute = 0

        def setup(self):
            s = self.options['spec']
            for n, sz in s['ins']:
                self.add_input(n, np.zeros(sz))
            for n, sz in s['outs']:
                self.add_output(n, np.zeros(sz))
            decl = self.options['decl']
            seq = self.options['decl_seq']
            if seq is not None:
                # explicit order of declare_partials / declare_coloring calls
                for what, arg, kw in seq:
                    if what == 'partials':
                        self.declare_partials('*', arg, **kw)
                    else:
                        self.declare_coloring(**kw)
            elif decl is None:
                self.declare_partials('*', '*')            # analytic
            else:
                for wrt, kw in decl.items():
                    self.declare_partials('*', wrt, **kw)
            if seq is None and self.options['coloring'] is not None:
                self.declare_coloring(**self.options['coloring'])
            self._mono = [[(float(unrat(c)), vs) for c, vs in mono] for mono in s['polys']]
            self._dmono = None

        def _x(self, inputs):
            s = self.options['spec']
            x = []
            for n, sz in s['ins']:
                x.extend(inputs[n].ravel())
            return x

        def compute(self, inputs, outputs):
            s = self.options['spec']
            self.ncompute += 1
            x = self._x(inputs)
            g = s.get('guard')
            if g is not None:
                part = x[g[0]].imag if len(g) > 2 else x[g[0]].real
                if part > float(unrat(g[1])):
                    raise om.AnalysisError('input %d above %s' % (g[0], g[1]))
            k = 0
            for n, sz in s['outs']:
                o = outputs[n]
                for i in range(sz):
                    acc = 0.0
                    for c, vs in self._mono[k]:
                        t = c
                        for v in vs:
                            t = t * x[v]
                        acc = acc + t
                    o[i] = acc
                    k += 1

        def compute_partials(self, inputs, partials):
            s = self.options['spec']
            if self.options['decl'] is not None:
                return
            x = self._x(inputs)
            if self._dmono is None:
                self._dmono = [[[(float(c), vs) for c, vs in dmono(mono_of([m])[0], j)]
                                for j in range(len(x))] for m in s['polys']]
            r = 0
            for on, osz in s['outs']:
                j0 = 0
                for inn, isz in s['ins']:
                    blk = np.zeros((osz, isz))
                    for a in range(osz):
                        for b in range(isz):
                            acc = 0.0
                            for c, vs in self._dmono[r + a][j0 + b]:
                                t = c
                                for v in vs:
                                    t = t * x[v]
                                acc = acc + t
                            blk[a, b] = acc.real if hasattr(acc, 'real') else acc
                    partials[on, inn] = blk
                    j0 += isz
                r += osz
    return PolyComp


_PC = None


def poly_comp():
    global _PC
    if _PC is None:
        _PC = _comp_class()
    return _PC


def fd_kwargs(method, opts):
    kw = {'method': method}
    if method == 'fd':
        for k in ('form', 'step_calc'):
            if opts.get(k) is not None:
                kw[k] = opts[k]
        for k in ('step', 'minimum_step'):
            if opts.get(k) is not None:
                kw[k] = float(unrat(opts[k]))
    elif opts.get('step') is not None:
        kw['step'] = float(unrat(opts['step']))          # complex step size (either sign)
    return kw


def build(case, colored):
    import numpy as np
    import openmdao.api as om
    PolyComp = poly_comp()
    kind = case['kind']
    method = case['method']
    p = om.Problem()
    ivc = om.IndepVarComp()
    for n, vals in case['ivc']:
        ivc.add_output(n, np.array([float(unrat(v)) for v in vals]))
    p.model.add_subsystem('ivc', ivc, promotes=['*'])
    parent = p.model
    if kind == 'semi':
        parent = p.model.add_subsystem('g', om.Group(), promotes=['*'])
    comps = []
    for ci, c in enumerate(case['comps']):
        decl = None
        coloring = None
        if kind in ('partials', 'bad'):
            decl = {wrt: fd_kwargs(method, o) for wrt, o in case['decl'].items()}
            if colored:
                o = case['color_opts']
                coloring = dict(wrt='*', method=method, show_summary=False, show_sparsity=False)
                if method == 'fd' and o.get('form') is not None:
                    coloring['form'] = o['form']
                if o.get('step') is not None:
                    coloring['step'] = float(unrat(o['step']))
        seq = None
        if coloring is not None and case.get('color_wrt') is not None:
            # partial coloring limited to some inputs; the other inputs are declared before or
            # after the declare_coloring call
            coloring['wrt'] = list(case['color_wrt'])
            others = [('partials', wrt, kw) for wrt, kw in decl.items()
                      if wrt not in case['color_wrt']]
            seq = ([('coloring', None, coloring)] + others) if case.get('color_first') \
                else (others + [('coloring', None, coloring)])
        comp = PolyComp(spec=c, decl=decl, coloring=coloring, decl_seq=seq)
        parent.add_subsystem(c['name'], comp, promotes=['*'])
        comps.append(comp)
    if kind in ('totals', 'semi'):
        o = case['approx']
        kw = {'method': method}
        if method == 'fd':
            if o.get('form') is not None:
                kw['form'] = o['form']
            if o.get('step_calc') is not None:
                kw['step_calc'] = o['step_calc']
        if o.get('step') is not None:
            kw['step'] = float(unrat(o['step']))
        parent.approx_totals(**kw)
        if colored and case.get('color_mode') == 'driver':
            # the documented way: a total coloring declared on the driver, computed by run_driver
            p.driver = om.ScipyOptimizeDriver(optimizer='SLSQP', maxiter=1, disp=False)
            p.driver.declare_coloring(show_summary=False, show_sparsity=False)
        elif colored:
            ckw = {k: v for k, v in kw.items() if k != 'step_calc'}
            parent.declare_coloring(wrt='*', show_summary=False, show_sparsity=False, **ckw)
    if kind in ('totals', 'semi'):
        for n, idx in case['wrt']:
            p.model.add_design_var(n, indices=idx)
        for io, (n, idx) in enumerate(case['of']):
            if io == 0 and case.get('objective'):
                p.model.add_objective(n, index=idx[0])       # a scalar entry, first row
            else:
                p.model.add_constraint(n, indices=idx, lower=-1e30)
    p.setup(force_alloc_complex=(method == 'cs' or
                                 (case.get('check_opts') or {}).get('method') == 'cs'),
            **({'mode': 'fwd'} if case.get('objective') else {}))
    return p, comps, parent


def vec_hashes(system):
    return [hashlib.sha1(v.asarray().tobytes()).hexdigest()
            for v in (system._inputs, system._outputs, system._residuals)]


def jac_to_rats(J, case, lay):
    """flat_dict of compute_totals -> dense list of rows (rats) in (of_rows, wrt_columns) order"""
    import numpy as np
    cols = wrt_columns(case, lay)
    rows = of_rows(case, lay)
    out = [[None] * len(cols) for _ in rows]
    # position of each (var,k) within the returned block
    if case['kind'] in ('partials', 'bad'):
        ofs = [(n, None) for n, sz in lay.comps[0]['outs']]
        wrts = [(n, None) for n, sz in lay.comps[0]['ins']]
    else:
        ofs = [tuple(x) for x in case['of']]
        wrts = [tuple(x) for x in case['wrt']]
    r0 = 0
    for on, oidx in ofs:
        osel = list(range(lay.sizes[on])) if oidx is None else oidx
        c0 = 0
        for wn, widx in wrts:
            wsel = list(range(lay.sizes[wn])) if widx is None else widx
            blk = np.asarray(J[on, wn]).reshape(len(osel), len(wsel))
            for a in range(len(osel)):
                for b in range(len(wsel)):
                    out[r0 + a][c0 + b] = rat(float(blk[a, b]))
            c0 += len(wsel)
        r0 += len(osel)
    return out


def observe(case, lay, colored):
    """Build the real problem, run the calls, return observations."""
    import numpy as np
    import openmdao.api as om
    p, comps, parent = build(case, colored)
    obs = {'calls': []}
    with warnings.catch_warnings():
        warnings.simplefilter('ignore')
        p.run_model()
        if colored and case.get('color_mode') == 'driver':
            import contextlib
            import io
            with contextlib.redirect_stdout(io.StringIO()):
                p.run_driver()             # computes the dynamic total coloring
            for n, vals in case['ivc']:
                p.set_val(n, np.array([float(unrat(v)) for v in vals]))
            p.run_model()
        if case['kind'] in ('partials', 'bad'):
            of = [n for n, sz in lay.comps[0]['outs']]
            wrt = [n for n, sz in lay.comps[0]['ins']]
        else:
            of = wrt = None
        for call in case['calls']:
            h0 = vec_hashes(p.model)
            rec = {'call': call}
            try:
                if call == 'totals':
                    if of is None:
                        J = p.compute_totals()
                    else:
                        J = p.compute_totals(of=of, wrt=wrt)
                    rec['J'] = jac_to_rats(J, case, lay)
                elif call == 'linearize':
                    if case['kind'] in ('partials', 'bad'):
                        comps[0].run_linearize()
                    elif case['kind'] == 'totals':
                        parent.run_linearize(driver=p.driver)
                    else:
                        parent.run_linearize()
                elif call == 'check_partials':
                    o = case['check_opts']
                    kw = fd_kwargs(o['method'], o)
                    data = p.check_partials(out_stream=None, **kw)
                    d = data[lay.comps[0]['name']]
                    rec['J_fd'] = jac_to_rats({k: v['J_fd'] for k, v in d.items()}, case, lay)
                    rec['J_fwd'] = jac_to_rats({k: v['J_fwd'] for k, v in d.items()}, case, lay)
                elif call == 'check_totals':
                    o = case['check_opts']
                    kw = fd_kwargs(o['method'], o)
                    kw.pop('minimum_step', None)
                    data = p.check_totals(of=of, wrt=wrt, out_stream=None, **kw)
                    rec['J_fd'] = jac_to_rats({k: v['J_fd'] for k, v in data.items()}, case, lay)
                else:
                    raise Infra('unknown call %s' % call)
            except om.AnalysisError:
                rec['raised'] = 'AnalysisError'
            except (ValueError, RuntimeError, TypeError, IndexError, KeyError) as e:
                rec['raised'] = type(e).__name__
                rec['msg'] = str(e)[:160]
            h1 = vec_hashes(p.model)
            rec['same'] = [a == b for a, b in zip(h0, h1)]
            obs['calls'].append(rec)
            if 'raised' in rec:
                break
        if colored:
            try:
                sysc = comps[0] if case['kind'] in ('partials', 'bad') else parent
                coloring = sysc._coloring_info.coloring
                if coloring is None and case.get('color_mode') == 'driver':
                    # (run_model after run_driver clears the driver's handle; the model keeps the
                    # total coloring its approximations use)
                    coloring = p.driver._coloring_info.coloring
                if coloring is None:
                    obs['coloring'] = None
                else:
                    cmap = colored_columns(case, lay)
                    obs['coloring'] = [[[cmap[int(c)], [int(r) for r in nz]]
                                        for c, nz in zip(cs, nzs)]
                                       for cs, nzs in coloring.color_nonzero_iter('fwd')]
                    obs['coloring_shape'] = [int(x) for x in coloring._shape]
            except AttributeError as e:
                raise Infra('cannot read the coloring of the implementation: %s' % e)
    return obs


def colored_columns(case, lay):
    """jacobian column indices (in wrt_columns order) that belong to the coloring, in order: the
    coloring numbers its columns over these only"""
    cols = wrt_columns(case, lay)
    cw = case.get('color_wrt')
    if cw is None or case['kind'] != 'partials':
        return list(range(len(cols)))
    return [i for i, c in enumerate(cols) if c['var'] in cw]


_TV_CACHE = {}


def totals_view(case):
    """a single-component `partials` case seen as the top-level total approximation that
    `check_totals` performs with the check options"""
    hit = _TV_CACHE.get(id(case))
    if hit is not None and hit[0] is case:
        return hit[1]
    o = dict(case['check_opts'])
    o.pop('minimum_step', None)
    comp = case['comps'][0]
    tv = {'kind': 'totals', 'method': o['method'], 'ivc': case['ivc'], 'comps': case['comps'],
          'approx': o, 'wrt': [[n, None] for n, _ in comp['ins']],
          'of': [[n, None] for n, _ in comp['outs']], 'colored': False, 'calls': []}
    if len(_TV_CACHE) > 20000:
        _TV_CACHE.clear()
    _TV_CACHE[id(case)] = (case, tv)
    return tv


# ------------------------------------------------------------------------------------------------
# Lean expression encoding

def expr_of(mono):
    terms = []
    for c, vs in mono:
        e = ["c", rat(unrat(c))]
        for v in vs:
            e = ["*", e, ["v", v]]
        terms.append(e)
    if not terms:
        return ["c", "0"]
    e = terms[0]
    for t in terms[1:]:
        e = ["+", e, t]
    return e


# ------------------------------------------------------------------------------------------------

DY = [F(k, 4) for k in range(-16, 17)]
POW2 = [F(1, 4), F(1, 2), F(1), F(2), F(4)]
COEFS = [F(1), F(-1), F(2), F(-2), F(1, 2), F(-1, 2), F(3), F(1, 4), F(3, 2)]
FORMS = ['forward', 'backward', 'central']
STEP_CALCS = ['abs', 'rel_avg', 'rel', 'rel_legacy', 'rel_element']
PYTH = [[3, 4], [-3, 4], [1, 2, 2], [2, -3, 6], [4, 0, 3], [0, 0, 2], [2, 3, 6], [6, 8]]


def gen_values(rng, size, style):
    if style == 'pow2':
        return [rng.choice(POW2) * rng.choice([1, -1]) for _ in range(size)]
    if style == 'pyth':
        c = [x for x in PYTH if len(x) == size]
        if c:
            s = rng.choice([F(1), F(1, 2), F(1, 4), F(2)])
            return [F(v) * s for v in rng.choice(c)]
        return [rng.choice(POW2) for _ in range(size)] if size > 1 else [rng.choice(DY)]
    if style == 'avgpow2':
        # mean |x| is a power of two
        if size == 1:
            return [rng.choice(POW2) * rng.choice([1, -1])]
        if size == 2:
            m = rng.choice([F(1), F(2), F(1, 2)])
            d = rng.choice([F(0), m / 2, m / 4, m])
            return [(m + d) * rng.choice([1, -1]), (m - d) * rng.choice([1, -1])]
        if size == 4:
            m = rng.choice([F(1), F(2)])
            return [m + F(1, 2), m - F(1, 2), -m, m]
        return [rng.choice(DY) for _ in range(size)]
    return [rng.choice(DY) for _ in range(size)]


def gen_poly(rng, dep, maxdeg, nterms):
    mono = []
    for _ in range(nterms):
        deg = rng.randint(1, maxdeg)
        vs = sorted(rng.choice(dep) for _ in range(deg))
        mono.append([rat(rng.choice(COEFS)), vs])
    if rng.random() < 0.3:
        mono.append([rat(rng.choice(COEFS)), []])
    return mono


def gen_opts(rng, method, exact_bias=True):
    if method == 'cs':
        # complex step size: default, or an explicit one of either sign (f'(x) = Im f(x+ih)/h holds
        # for h < 0 as well)
        return {'step': rng.choice([None, None, rat(F(1e-30)), rat(F(-1e-30)), rat(F(-1e-25)),
                                    rat(F(1e-20)), rat(F(-1e-40))])}
    o = {'form': rng.choice(FORMS + [None])}
    r = rng.random()
    if r < 0.70:
        o['step'] = rat(F(1, 2 ** rng.randint(2, 8)))
    elif r < 0.80:
        o['step'] = None                       # default 1e-6
    elif r < 0.90:
        o['step'] = rat(F(rng.choice([1e-3, 1e-4, 0.05, 1e-6])))
    else:
        o['step'] = rat(-F(1, 2 ** rng.randint(2, 6)))      # negative step (abs only)
    sc = rng.choice(STEP_CALCS + ['abs', 'abs', None])
    if o['step'] is not None and unrat(o['step']) < 0:
        sc = rng.choice(['abs', None])
    o['step_calc'] = sc
    o['minimum_step'] = rng.choice([None, None, rat(F(1, 8)), rat(F(1, 32)), rat(F(1, 1024))])
    return o


class C12(Property):
    pid = 'C12'
    workers = 1
    _plans = {}
    required_theorems = [
        'C12_table_checked', 'C12_fd_taylor_identity', 'C12_order_conditions',
        'C12_truncation_forward', 'C12_truncation_backward', 'C12_truncation_central',
        'C12_cs_exact', 'C12_step_positive', 'C12_state_restored', 'C12_state_restored_partial',
        'C12_state_not_restored_on_raise', 'C12_machine_columns', 'C12_uncolored_entry_is_fdApply',
        'C12_colored_eq_partial', 'C12_uncolored_zero_outside_coloring', 'C12_colored_eq_cs',
        'C12_colored_ne_uncolored_rel_step']
    rule = ("cases: real Problems built from harness-defined polynomial ExplicitComponents (1-3 components, "
            "degree <= 3 each, at most one nonlinear per chain, dyadic coefficients and values, variable "
            "sizes 1-4): kind in {partials (declare_partials fd/cs per wrt), totals (model.approx_totals), "
            "semi (sub-group approx_totals), bad (invalid form/step_calc)} x method {fd, cs} x form "
            "{forward, backward, central, default} x step {2^-k, default 1e-6, decimal, negative} x "
            "step_calc {abs, rel, rel_avg, rel_legacy, rel_element, default} x minimum_step x "
            "colored/uncolored x design-variable / response indices x a compute that raises "
            "AnalysisError on a perturbed evaluation. Observed: compute_totals twice, run_linearize, "
            "check_partials with independent FD options, byte hashes of inputs/outputs/residuals around "
            "every call. Non-trivial: at least one nonlinear dependence (a nonzero second or third "
            "derivative along some column) or a raise / error branch; distinct by canonical case encoding.")
    assumptions = [
        "IEEE-754: when every intermediate of the real computation is a double (checked by mirroring "
        "the computation in Fractions: dyadic data, power-of-two steps) model, oracle and implementation "
        "are compared for equality; otherwise |difference| <= 2^-46 * A * (G/|h| + 1) for FD and "
        "2^-44 * A for CS, where G is the largest sum of absolute values of polynomial terms over all "
        "evaluations and A the product over components of (1 + largest absolute row sum of the "
        "derivative terms) — recorded as `tolerance`",
        "complex step with h = 1e-40 is modelled by dual numbers (h^2 underflows); user code is "
        "complex-safe by construction (polynomials)",
        "rel_legacy: np.linalg.norm is sqrt(dot(x, x)); exact cases use Pythagorean tuples",
        "the coloring used by the implementation is read from the system after the run and passed to "
        "the model, which certifies it against the generator's structural dependencies",
    ]
    tolerance = {'fd': '2^-46 * A * (G/|h| + 1)', 'cs': '2^-44 * A', 'exact_cases': 'equality'}
    level_text = ("The FD coefficient table is regenerated from the source on every run and its order "
                  "conditions re-proved by the kernel; the Taylor identity of the difference quotient "
                  "(any row, any field, any h != 0), the truncation terms of the three forms, exactness "
                  "of the dual-number complex step for every polynomial expression, the step bounds of "
                  "every step_calc branch, restoration of inputs/outputs/residuals by the run-point state "
                  "machine and colored = uncolored under a structural certificate are proved in Lean for "
                  "all inputs; the model is tied to the real schemes by exact differential runs.")
    level_note = ("Trusted: Lean kernel + standard axioms; the Python harness; NumPy. Modelled, not "
                  "verified: float rounding (exact cases compared for equality, others with the recorded "
                  "tolerance); complex step as dual numbers; 'complex-safe user code' is by construction "
                  "of the generated components; jacobian storage and total-jacobian plumbing (differential "
                  "only). Two clauses are false of the current code and kept as _partial + counterexample: "
                  "state restoration on the exception path, colored = uncolored with a relative step_calc.")
    technique = "Lean 4 proof (field algebra, induction over the run-point machine) + translator + exact differential correspondence"
    trusted_extra = ["NumPy elementwise arithmetic and np.linalg.norm = sqrt(dot)",
                     "OpenMDAO setup / vector layout (variables in declaration order), tied differentially"]

    # -- translator --------------------------------------------------------------------------------
    def translate(self):
        src = os.path.join(REPO, 'openmdao', 'approximation_schemes', 'finite_difference.py')
        default_order, table = extract_fd_table(src)
        for (form, order), (dl, cf, cur) in table.items():
            if len(dl) != len(cf):
                raise TieBroken('FD_COEFFS[%r, %r]: %d deltas but %d coeffs' % (form, order, len(dl),
                                                                              len(cf)))
        body = lean_table(default_order, table)
        path = os.path.join(LEAN, 'OMV', 'Generated', 'C12FdTable.lean')
        old = open(path).read() if os.path.exists(path) else None
        if old != body:
            os.makedirs(os.path.dirname(path), exist_ok=True)
            with open(path, 'w') as fh:
                fh.write(body)
        self._table = table
        self._default_order = default_order
        return ['FD_COEFFS (%d rows: %s) and DEFAULT_ORDER %s regenerated from the AST of '
                'finite_difference.py into OMV/Generated/C12FdTable.lean; order conditions re-proved '
                '(C12_table_checked, C12_order_conditions, C12_truncation_*)'
                % (len(table), ', '.join('%s/%d' % k for k in table), default_order)]

    # -- setup: live cross-checks and probes -----------------------------------------------------
    def setup(self, tier):
        import openmdao.api as om       # noqa: F401
        table = getattr(self, '_table', None)
        if table is not None:
            live, live_order = live_fd_table(list(table))
            if live != table or live_order != self._default_order:
                raise Infra('AST reading of the FD table differs from the live function: %s vs %s'
                            % (table, live))
            from common import Driver
            d = Driver('C12')
            if d.available():
                a = d.ask([{'op': 'table'}])[0]
                got = {(e['form'], e['order']): ([unrat(x) for x in e['deltas']],
                                                 [unrat(x) for x in e['coeffs']], unrat(e['current']))
                       for e in a['table']}
                if got != table:
                    raise Infra('driver binary was built from a different FD table')
        try:
            self.restore_on_raise = self.probe_restore()
            self.rel_elem_selected = self.probe_rel_element()
        except Infra:
            raise
        except Exception:        # noqa  a tree broken this badly is reported through the cases
            self.restore_on_raise = False
            self.rel_elem_selected = False

    def probe_restore(self):
        """does the real code put the vectors back when a perturbed evaluation raises?"""
        case = {'kind': 'partials', 'method': 'fd', 'ivc': [['x', ['1']]],
                'comps': [{'name': 'c', 'ins': [['x', 1]], 'outs': [['y', 1]],
                           'polys': [[['1', [0, 0]]]], 'guard': [0, '1']}],
                'decl': {'x': {'form': 'forward', 'step': '1/4'}}, 'calls': ['totals'],
                'colored': False}
        obs = observe(case, Layout(case), False)
        c = obs['calls'][0]
        if c.get('raised') != 'AnalysisError':
            return False        # the perturbed point was not evaluated: left to the oracle
        return all(c['same'])

    def probe_rel_element(self):
        """approx_totals(step_calc='rel_element') with design-variable indices: is the step of the
        k-th selected element taken from that element (True) or from element k (False, the code as
        it is: `loc_idx` indexes the per-element arrays of the whole variable)?"""
        case = {'kind': 'totals', 'method': 'fd', 'ivc': [['x0', ['1', '4']]],
                'comps': [{'name': 'c0', 'ins': [['x0', 2]], 'outs': [['y0', 1]],
                           'polys': [[['1', [1, 1]]]], 'guard': None}],
                'approx': {'form': 'forward', 'step': '1/16', 'step_calc': 'rel_element'},
                'wrt': [['x0', [1]]], 'of': [['y0', None]], 'colored': False, 'calls': ['totals']}
        obs = observe(case, Layout(case), False)
        j = unrat(obs['calls'][0]['J'][0][0])
        # anything else (e.g. a changed coefficient table) is left to the oracle: assume the code
        # as it is
        return j == F(33, 4)

    # -- generator ----------------------------------------------------------------------------------
    def cases(self, rng, tier):
        n = 80 if tier == 'quick' else 7000
        # targeted family first: a partial coloring limited to some inputs, the other inputs
        # approximated by the same method with different options, both declaration orders
        for i in range(14 if tier == 'quick' else 300):
            yield self.gen_partial_coloring(rng, color_first=(i % 2 == 0),
                                            method='cs' if i % 7 == 6 else 'fd')
        # targeted family: negative steps (cs: Im f(x+ih)/h keeps its sign; fd: mirrored stencil)
        for i in range(10 if tier == 'quick' else 200):
            yield self.gen_negative_step(rng, i)
        # targeted family: approximated totals with design-variable / response indices (subsets,
        # reordered, negative), with and without a total coloring declared on the driver
        for i in range(12 if tier == 'quick' else 300):
            yield self.gen_totals_indices(rng, method='cs' if i % 2 == 0 else 'fd',
                                          driver_coloring=(i % 3 != 2))
        for i in range(n):
            r = rng.random()
            if r < 0.40:
                yield self.gen_partials(rng)
            elif r < 0.52:
                yield self.gen_partials(rng, colored=True)
            elif r < 0.62:
                yield self.gen_partials(rng, guard=True)
            elif r < 0.80:
                yield self.gen_totals(rng, 'totals')
            elif r < 0.86:
                yield self.gen_totals(rng, 'totals', colored=True)
            elif r < 0.90:
                yield self.gen_totals(rng, 'totals', guard=True)
            elif r < 0.97:
                yield self.gen_totals(rng, 'semi')
            else:
                yield self.gen_bad(rng)

    def gen_comp(self, rng, name, ins, outs, maxdeg, banded=False):
        nin = sum(sz for _, sz in ins)
        nout = sum(sz for _, sz in outs)
        polys = []
        for i in range(nout):
            if banded:
                dep = sorted({i % nin, (i + 1) % nin}) if rng.random() < 0.7 else [i % nin]
            else:
                k = rng.randint(1, min(3, nin))
                dep = sorted(rng.sample(range(nin), k))
            polys.append(gen_poly(rng, dep, maxdeg, rng.randint(1, 3)))
        return {'name': name, 'ins': ins, 'outs': outs, 'polys': polys, 'guard': None}

    def gen_partials(self, rng, colored=False, guard=False, method=None):
        method = method or ('cs' if rng.random() < 0.25 else 'fd')
        nvars = rng.choice([1, 2, 2, 3])
        ins = []
        ivc = []
        decl = {}
        if colored:
            # one datum for all colored columns (abs, same step/form) in most cases; a relative
            # step_calc (known defect: first wrt's datum used for all columns) in a few
            common = gen_opts(rng, method)
            if method == 'fd':
                if common['step'] is None or unrat(common['step']) < 0:
                    common['step'] = rat(F(1, 16))
                if rng.random() < 0.8:
                    common['step_calc'] = rng.choice(['abs', None])
        for v in range(nvars):
            sz = rng.choice([1, 2, 2, 3, 4])
            name = 'x%d' % v
            o = dict(common) if colored else gen_opts(rng, method)
            sc = o.get('step_calc')
            style = {'rel_element': 'pow2', 'rel_legacy': 'pyth', 'rel': 'avgpow2',
                     'rel_avg': 'avgpow2'}.get(sc, 'any')
            if rng.random() < 0.25:
                style = 'any'
            ins.append([name, sz])
            ivc.append([name, rats(gen_values(rng, sz, style))])
            decl[name] = o
        nin = sum(sz for _, sz in ins)
        nout = rng.choice([1, 2, 3, 4]) if not colored else max(2, min(nin, 5))
        outs = [['y', nout]] if rng.random() < 0.6 or nout < 2 else [['y', nout - 1], ['z', 1]]
        comp = self.gen_comp(rng, 'c', ins, outs, 3, banded=colored)
        case = {'kind': 'partials', 'method': method, 'ivc': ivc, 'comps': [comp], 'decl': decl,
                'colored': colored, 'calls': ['totals', 'totals', 'linearize']}
        if colored:
            case['color_opts'] = {'form': common.get('form'), 'step': common.get('step')}
        if guard:
            # threshold between the base value and the largest perturbed value of one input element
            lay = Layout(case)
            cols = wrt_columns(case, lay)
            col = rng.choice(cols)
            base = unrat(dict((n, v) for n, v in ivc)[col['var']][col['k']])
            j = [i for i, (n, k) in enumerate(lay.comp_in_local(0))
                 if (n, k) == (col['var'], col['k'])][0]
            comp['guard'] = [j, rat(base + F(1, 2 ** 40))]
            if method == 'cs':
                comp['guard'] = [j, '0', 'du']       # fails on a complex-perturbed input
                # (the guard looks at the sign of the imaginary part: one complex step for all
                # inputs, as the model takes a single step per approximation)
                first = next(iter(decl.values()))
                for n in decl:
                    decl[n] = dict(first)
            case['calls'] = ['totals']
        elif rng.random() < 0.5:
            case['calls'].append('check_partials')
            m2 = rng.choice(['fd', 'fd', 'cs'])
            o2 = gen_opts(rng, m2)
            o2['method'] = m2
            if m2 == 'fd' and o2.get('step_calc') in ('rel', 'rel_avg', 'rel_legacy') and \
                    o2['step'] is not None and unrat(o2['step']) < 0:
                o2['step_calc'] = 'abs'
            case['check_opts'] = o2
            if rng.random() < 0.5:
                case['calls'].append('check_totals')
        return case

    def gen_totals(self, rng, kind, colored=False, guard=False, method=None):
        method = method or ('cs' if rng.random() < 0.25 else 'fd')
        approx = gen_opts(rng, method)
        approx.pop('minimum_step', None)
        if colored and method == 'fd':
            approx['step_calc'] = rng.choice(['abs', None])
            if approx['step'] is not None and unrat(approx['step']) < 0:
                approx['step'] = rat(F(1, 16))
        sc = approx.get('step_calc')
        style = {'rel_element': 'pow2', 'rel_legacy': 'pyth', 'rel': 'avgpow2',
                 'rel_avg': 'avgpow2'}.get(sc, 'any')
        nivc = rng.choice([1, 2])
        ivc = []
        for v in range(nivc):
            sz = rng.choice([1, 2, 3, 4]) if not colored else rng.choice([3, 4])
            ivc.append(['x%d' % v, rats(gen_values(rng, sz, style if rng.random() < 0.8 else 'any'))])
        ncomp = rng.choice([1, 2, 2, 3])
        nl = rng.randrange(ncomp)                 # the nonlinear one
        comps = []
        avail = [[n, len(v)] for n, v in ivc]
        for ci in range(ncomp):
            k = rng.randint(1, min(2, len(avail)))
            ins = [list(x) for x in rng.sample(avail, k)]
            if ci > 0 and ['y%d' % (ci - 1), comps[-1]['outs'][0][1]] not in ins:
                ins[0] = ['y%d' % (ci - 1), comps[-1]['outs'][0][1]]
            nin = sum(sz for _, sz in ins)
            nout = rng.choice([1, 2, 3]) if not colored else max(2, min(nin, 4))
            comp = self.gen_comp(rng, 'c%d' % ci, ins, [['y%d' % ci, nout]],
                                 3 if ci == nl else 1, banded=colored)
            comps.append(comp)
            avail.append(['y%d' % ci, nout])
        # connect: inputs named after their source (promotion); an input name must be unique per
        # component (sample() guarantees it)
        wrt = []
        for n, v in ivc:
            if kind == 'totals' and len(v) > 1 and rng.random() < 0.3 and not colored:
                idx = sorted(rng.sample(range(len(v)), rng.randint(1, len(v) - 1)))
                wrt.append([n, idx])
            else:
                wrt.append([n, None])
        of = []
        for c in comps:
            n, sz = c['outs'][0]
            if rng.random() < 0.75 or c is comps[-1]:
                if sz > 1 and rng.random() < 0.3 and not colored:
                    of.append([n, sorted(rng.sample(range(sz), rng.randint(1, sz - 1)))])
                else:
                    of.append([n, None])
        if kind == 'semi':
            # every input of the group that comes from the ivc is a column of the group jacobian;
            # totals are taken wrt whole ivc variables
            wrt = [[n, None] for n, v in ivc]
        case = {'kind': kind, 'method': method, 'ivc': ivc, 'comps': comps, 'approx': approx,
                'wrt': wrt, 'of': of, 'colored': colored, 'calls': ['totals', 'totals', 'linearize']}
        if colored:
            case['calls'] = ['totals', 'totals', 'totals']
        if guard:
            lay = Layout(case)
            ci = rng.randrange(len(comps))
            loc = lay.comp_in_local(ci)
            j = rng.randrange(len(loc))
            base = lay.evaluate({n: [unrat(x) for x in v] for n, v in ivc})
            comps[ci]['guard'] = [j, rat(base[loc[j][0]][loc[j][1]] + F(1, 2 ** 40))]
            if method == 'cs':
                comps[ci]['guard'] = [j, '0', 'du']
            case['calls'] = ['totals']
        return case

    def gen_negative_step(self, rng, i):
        """the ordinary families with every step forced negative (`step_calc='abs'`)"""
        def neg(o, method):
            o = dict(o)
            if method == 'cs':
                o['step'] = rng.choice([rat(F(-1e-30)), rat(F(-1e-25)), rat(F(-1e-20)),
                                        rat(F(-1e-40))])
            else:
                st = o.get('step')
                o['step'] = rat(-abs(unrat(st))) if st is not None else rat(-F(1, 2 ** rng.randint(2, 7)))
                o['step_calc'] = rng.choice(['abs', None])
            return o
        k = i % 5
        method = 'cs' if k in (0, 2, 3) else 'fd'
        if k in (0, 1):
            case = self.gen_partials(rng, method=method)
        elif k == 2:
            case = self.gen_totals(rng, rng.choice(['totals', 'semi']), method=method)
        elif k == 3:
            case = self.gen_partials(rng, colored=True, method=method)
        else:
            method = rng.choice(['cs', 'fd'])
            case = self.gen_totals(rng, 'totals', colored=True, method=method)
        if case['kind'] == 'partials':
            if case.get('colored'):
                o = neg(next(iter(case['decl'].values())), method)
                case['decl'] = {n: dict(o) for n in case['decl']}
                case['color_opts'] = {'form': o.get('form'), 'step': o['step']}
            else:
                case['decl'] = {n: neg(o, method) for n, o in case['decl'].items()}
            if 'check_opts' not in case and not case.get('colored'):
                case['calls'] = ['totals', 'totals', 'linearize', 'check_partials', 'check_totals']
                case['check_opts'] = {'method': method}
            if 'check_opts' in case:
                m2 = case['check_opts']['method']
                o2 = neg(gen_opts(rng, m2), m2)
                o2['method'] = m2
                case['check_opts'] = o2
        else:
            case['approx'] = neg(case['approx'], method)
        case['neg_step'] = True
        return case

    def gen_indices(self, rng, size, allow_none=True):
        """indices of a design variable / response: a subset in random order, some entries
        negative, no duplicates"""
        if allow_none and rng.random() < 0.2:
            return None
        k = rng.randint(1, size)
        idx = rng.sample(range(size), k)
        if rng.random() < 0.5:
            idx = [(i - size) if rng.random() < 0.5 else i for i in idx]
        return idx

    def gen_totals_indices(self, rng, method, driver_coloring):
        """separable model: one elementwise nonlinear component per independent variable (so the
        total jacobian is sparse and a total coloring pays), optionally a component mixing two of
        them; `approx_totals` with the default options (a driver coloring replaces user-given FD
        options by the coloring's own defaults, so only the defaults are comparable)."""
        nv = rng.choice([2, 2, 3])
        ivc = []
        comps = []
        for v in range(nv):
            sz = rng.choice([3, 4, 5])
            ivc.append(['x%d' % v, rats(gen_values(rng, sz, 'any'))])
            polys = []
            for i in range(sz):
                mono = [[rat(rng.choice(COEFS)), [i] * rng.choice([2, 2, 3])]]
                if rng.random() < 0.5:
                    mono.append([rat(rng.choice(COEFS)), [i]])
                if rng.random() < 0.3:
                    mono.append([rat(rng.choice(COEFS)), []])
                polys.append(mono)
            comps.append({'name': 'c%d' % v, 'ins': [['x%d' % v, sz]], 'outs': [['y%d' % v, sz]],
                          'polys': polys, 'guard': None})
        if rng.random() < 0.4:
            # an affine component downstream of two of the nonlinear ones
            a, b = rng.sample(range(nv), 2)
            sa, sb = len(ivc[a][1]), len(ivc[b][1])
            nout = min(sa, sb)
            polys = [[[rat(rng.choice(COEFS)), [i]], [rat(rng.choice(COEFS)), [sa + i]]]
                     for i in range(nout)]
            comps.append({'name': 'cm', 'ins': [['y%d' % a, sa], ['y%d' % b, sb]],
                          'outs': [['w', nout]], 'polys': polys, 'guard': None})
        wrt = []
        for n, vals in ivc:
            wrt.append([n, self.gen_indices(rng, len(vals))])
        if all(i is None for _, i in wrt):
            wrt[-1][1] = self.gen_indices(rng, len(ivc[-1][1]), allow_none=False)
        outs = [c['outs'][0] for c in comps]
        rng.shuffle(outs)
        of = []
        n0, s0 = outs[0]
        of.append([n0, [rng.randrange(-s0, s0)]])          # the objective: one entry
        for n, sz in outs[1:]:
            of.append([n, self.gen_indices(rng, sz)])
        return {'kind': 'totals', 'method': method, 'ivc': ivc, 'comps': comps, 'approx': {},
                'wrt': wrt, 'of': of, 'objective': True, 'colored': bool(driver_coloring),
                'color_mode': 'driver' if driver_coloring else None,
                'calls': ['totals', 'totals']}

    def gen_partial_coloring(self, rng, color_first, method):
        """`declare_coloring(wrt=<some inputs>, ...)` + `declare_partials` with *different* FD
        options for the remaining inputs, declared before or after the coloring.  The colored
        columns must be differenced with the options of the coloring, whatever the order."""
        ncv = 1 if rng.random() < 0.7 else 2
        cvars = [['x%d' % v, rng.choice([2, 3, 3, 4])] for v in range(ncv)]
        ovars = [['g%d' % v, rng.choice([1, 2, 3])] for v in range(rng.choice([1, 1, 2]))]
        # position of the non-colored inputs among the inputs varies too
        k = rng.randint(0, len(cvars))
        ins = cvars[:k] + ovars[:1] + cvars[k:] + ovars[1:]
        fc = rng.choice(FORMS)
        kc = rng.randint(2, 6)
        copt = {'form': fc, 'step': rat(F(1, 2 ** kc)), 'step_calc': None, 'minimum_step': None}
        cs_pool = [None, rat(F(1e-30)), rat(F(-1e-30)), rat(F(-1e-25)), rat(F(1e-20))]
        cs_c = rng.choice(cs_pool)
        decl = {}
        ivc = []
        for n, sz in ins:
            if [n, sz] in cvars:
                decl[n] = dict(copt) if method == 'fd' else {'step': cs_c}
                ivc.append([n, rats(gen_values(rng, sz, 'any'))])
            else:
                if method == 'fd':
                    o = gen_opts(rng, 'fd')
                    ko = rng.choice([x for x in range(2, 8) if x != kc])
                    o['step'] = rat(F(1, 2 ** ko))
                    if rng.random() < 0.6:
                        o['form'] = rng.choice([f for f in FORMS if f != fc])
                    decl[n] = o
                    sc = o.get('step_calc')
                    style = {'rel_element': 'pow2', 'rel_legacy': 'pyth', 'rel': 'avgpow2',
                             'rel_avg': 'avgpow2'}.get(sc, 'any')
                else:
                    decl[n] = {'step': rng.choice([x for x in cs_pool if x != cs_c])}
                    style = 'any'
                ivc.append([n, rats(gen_values(rng, sz, style))])
        # local flat positions
        pos = {}
        p0 = 0
        for n, sz in ins:
            pos[n] = list(range(p0, p0 + sz))
            p0 += sz
        ccols = [j for n, sz in cvars for j in pos[n]]
        ocols = [j for n, sz in ovars for j in pos[n]]
        nout = len(pos[cvars[0][0]])
        polys = []
        for i in range(nout):
            mono = []
            j = pos[cvars[0][0]][i]
            mono.append([rat(rng.choice(COEFS)), [j] * rng.choice([2, 3])])      # nonlinear, diagonal
            if rng.random() < 0.5:
                mono.append([rat(rng.choice(COEFS)), [j]])
            if ncv == 2:
                j2 = pos[cvars[1][0]][i % cvars[1][1]]
                mono.append([rat(rng.choice(COEFS)), [j2] * rng.choice([1, 2])])
            for _ in range(rng.randint(1, 2)):
                jo = rng.choice(ocols)
                mono.append([rat(rng.choice(COEFS)),
                             sorted([jo] * rng.choice([1, 1, 2]) + ([j] if rng.random() < 0.3 else []))])
            polys.append(mono)
        comp = {'name': 'c', 'ins': ins, 'outs': [['y', nout]], 'polys': polys, 'guard': None}
        return {'kind': 'partials', 'method': method, 'ivc': ivc, 'comps': [comp], 'decl': decl,
                'colored': True, 'color_wrt': [n for n, _ in cvars], 'color_first': bool(color_first),
                'color_opts': {'form': copt['form'], 'step': copt['step']} if method == 'fd'
                else {'step': cs_c},
                'calls': ['totals', 'totals', 'linearize']}

    def gen_bad(self, rng):
        case = self.gen_partials(rng)
        case['method'] = 'fd'
        case['kind'] = 'bad'
        case['calls'] = ['totals']
        case.pop('check_opts', None)
        for n in case['decl']:
            case['decl'][n] = {'form': 'forward', 'step': '1/16', 'step_calc': 'abs',
                               'minimum_step': None}
        n = rng.choice(sorted(case['decl']))
        if rng.random() < 0.5:
            case['decl'][n]['form'] = rng.choice(['sideways', 'centre', 'Forward'])
        else:
            case['decl'][n]['step_calc'] = rng.choice(['relative', 'rel_max', 'ABS'])
        return case

    # -- real code ---------------------------------------------------------------------------------
    def run_impl(self, case):
        lay = Layout(case)
        res = {}
        try:
            res['unc'] = observe(case, lay, False)
        except Infra:
            raise
        except Exception as e:       # setup-time errors of the real code are results
            res['error'] = type(e).__name__
            res['msg'] = str(e)[:200]
            return res
        if case.get('colored'):
            try:
                res['col'] = observe(case, lay, True)
            except Infra:
                raise
            except Exception as e:
                res['col_error'] = type(e).__name__
                res['msg'] = str(e)[:200]
        return res

    # -- direct oracle --------------------------------------------------------------------------------
    def check_jac(self, got, exp, what, fails, code, cols_sel=None):
        J = exp['J']
        bad = None
        for ir, row in enumerate(J):
            for jc, v in enumerate(row):
                g = unrat(got[ir][jc])
                if exp['exact']:
                    ok = (g == v)
                else:
                    ok = abs(g - v) <= exp['tol'][jc]
                if not ok:
                    bad = (ir, jc, g, v)
                    break
            if bad:
                break
        if bad:
            ir, jc, g, v = bad
            fails.append({'code': code, 'what': what, 'row': ir, 'col': jc, 'got': rat(g),
                          'expected': rat(v), 'exact_mode': exp['exact'],
                          'tol': None if exp['exact'] else float(exp['tol'][jc]),
                          'step': rat(exp['steps'][jc])})

    def oracle_all(self, case, impl):
        fails = []
        if case['kind'] == 'bad':
            return fails
        if 'error' in impl:
            fails.append({'code': 'error', 'what': 'building / running the problem raised %s: %s'
                          % (impl['error'], impl.get('msg'))})
            return fails
        lay = Layout(case)
        exp = expected_jac(case, lay)
        guard = any(c.get('guard') for c in case['comps'])
        if 'col_error' in impl and not self.rel_coloring(case):
            # (a coloring combined with a relative step_calc may be rejected: one datum cannot
            # serve columns with different steps)
            fails.append({'code': 'error', 'what': 'the colored problem raised %s: %s'
                          % (impl['col_error'], impl.get('msg'))})
        for tag in ('unc', 'col'):
            if tag not in impl:
                continue
            ntot = 0
            for rec in impl[tag]['calls']:
                if not all(rec['same']):
                    changed = [n for n, s in zip(('inputs', 'outputs', 'residuals'), rec['same'])
                               if not s]
                    fails.append({
                        'code': 'raise_state' if rec.get('raised') == 'AnalysisError' else 'state',
                        'what': '%s changed by %s%s' % (
                            '/'.join(changed), rec['call'],
                            ' (AnalysisError in a perturbed evaluation)'
                            if rec.get('raised') == 'AnalysisError' else ''),
                        'changed': changed})
                if 'raised' in rec:
                    if tag == 'col' and self.rel_coloring(case) and \
                            rec['raised'] in ('RuntimeError', 'ValueError'):
                        continue        # coloring + relative step_calc rejected
                    if not (guard and rec['raised'] == 'AnalysisError'):
                        fails.append({'code': 'error', 'what': '%s raised %s: %s' % (
                            rec['call'], rec['raised'], rec.get('msg'))})
                    continue
                if rec['call'] == 'totals':
                    ntot += 1
                    if tag == 'unc':
                        self.check_jac(rec['J'], exp, 'uncolored %s jacobian differs from exact '
                                       'derivative + Taylor remainder' % case['kind'], fails,
                                       'value')
                    else:
                        ref = [r for r in impl['unc']['calls'] if r['call'] == 'totals' and
                               'J' in r]
                        coloring = impl['col'].get('coloring')
                        structural = coloring is None or self.coloring_structural(case, lay,
                                                                                  coloring)
                        differs = bool(ref) and rec['J'] != ref[0]['J']
                        if differs and coloring is None:
                            # no coloring was kept (no improvement); the dynamically detected
                            # sparsity may still have been applied to the sub-jacobians, dropping
                            # entries that vanish numerically: compare within the tolerance
                            differs = any(
                                (unrat(a) != unrat(b)) if exp['exact'] else
                                (abs(unrat(a) - unrat(b)) > exp['tol'][jc])
                                for ra, rb in zip(rec['J'], ref[0]['J'])
                                for jc, (a, b) in enumerate(zip(ra, rb)))
                        if differs and structural:
                            zero = all(unrat(v) == 0 for row in rec['J'] for v in row)
                            rel = self.rel_coloring(case)
                            if ntot == 1 and zero and case['kind'] == 'totals' and \
                                    case.get('color_mode') != 'driver':
                                code = 'colored_total_first_call_zero'
                            elif rel:
                                code = 'colored_rel_step'
                            else:
                                code = 'colored_ne'
                            fails.append({'code': code, 'what': 'colored jacobian (call %d) differs '
                                          'from the uncolored one' % ntot, 'colored': rec['J'],
                                          'uncolored': ref[0]['J']})
                if rec['call'] == 'check_totals':
                    self.check_jac(rec['J_fd'], expected_jac(totals_view(case)),
                                   'check_totals J_fd differs from exact derivative + Taylor '
                                   'remainder', fails, 'check_value')
                if rec['call'] == 'check_partials':
                    c2 = dict(case)
                    o = case['check_opts']
                    c2['method'] = o['method']
                    c2['decl'] = {n: o for n in case['decl']}
                    exp2 = expected_jac(c2, lay)
                    self.check_jac(rec['J_fd'], exp2, 'check_partials J_fd differs from exact '
                                   'derivative + Taylor remainder', fails, 'check_value')
                    if tag == 'unc':
                        self.check_jac(rec['J_fwd'], exp, 'check_partials J_fwd (the component\'s '
                                       'own approximation) differs', fails, 'value')
        # rel_element with design-variable indices: documented step is relative to the element
        # being perturbed
        for f in fails:
            if f['code'] == 'value' and case['kind'] == 'totals' and \
                    (case['approx'].get('step_calc') == 'rel_element') and \
                    any(idx is not None for _, idx in case['wrt']):
                f['code'] = 'rel_element_indices'
        return fails

    def coloring_structural(self, case, lay, coloring):
        """the structural certificate (same predicate as OMV.C12.certifyColor), evaluated in Python:
        every structurally dependent row of a column is in its nzrows, nzrows of different columns
        of one color are disjoint. Dynamic sparsity detection can miss an entry whose value
        vanishes at the sampled points (a non-structural zero); such a coloring is outside the
        hypothesis of the colored = uncolored clause."""
        cols = wrt_columns(case, lay)
        rows = of_rows(case, lay)
        dep = self.structural_dep(case, lay, cols, rows)
        covered = {jc for color in coloring for jc, _ in color}
        for jc in colored_columns(case, lay):
            if jc not in covered and any(jc in dep[r] for r in range(len(rows))):
                return False            # a dependent column left out of every color
        for color in coloring:
            cs = [jc for jc, _ in color]
            if len(set(cs)) != len(cs):
                return False
            for jc, nz in color:
                for r in range(len(rows)):
                    if jc in dep[r] and r not in nz:
                        return False
            for a, (ja, nza) in enumerate(color):
                for b, (jb, nzb) in enumerate(color):
                    if ja != jb and set(nza) & set(nzb):
                        return False
        return True

    def rel_coloring(self, case):
        if case['method'] != 'fd' or case['kind'] != 'partials':
            return False
        cw = case.get('color_wrt')
        return any((o.get('step_calc') or 'abs') != 'abs' for n, o in case['decl'].items()
                   if cw is None or n in cw)

    def oracle(self, case, impl):
        fails = self.oracle_all(case, impl)
        if not fails:
            return None
        f = dict(fails[0])
        f['codes'] = sorted({x['code'] for x in fails})
        return f

    def signature(self, case, impl, failure):
        codes = failure.get('codes', [])
        return {'code': codes[0] if len(codes) == 1 else '+'.join(codes), 'kind': case['kind'],
                'method': case['method'], 'colored': bool(case.get('colored')),
                'guard': any(c.get('guard') for c in case['comps'])}

    def nontrivial(self, case, impl):
        if case['kind'] == 'bad' or any(c.get('guard') for c in case['comps']):
            return True
        return any(len(vs) >= 2 for c in case['comps'] for mono in c['polys'] for _, vs in mono)

    def bucket(self, case, impl):
        b = ['kind=' + case['kind'], 'method=' + case['method'],
             'colored' if case.get('colored') else 'uncolored']
        if any(c.get('guard') for c in case['comps']):
            raised = any(r.get('raised') == 'AnalysisError' for r in impl.get('unc', {}).get('calls', []))
            b.append('guard:raised' if raised else 'guard:not-reached')
        if case['kind'] != 'bad' and 'error' not in impl and case['method'] == 'fd':
            optsl = list(case['decl'].values()) if case['kind'] == 'partials' else [case['approx']]
            for o in optsl:
                b.append('form=%s' % o.get('form'))
                b.append('step_calc=%s' % o.get('step_calc'))
            try:
                exp = expected_jac(case, Layout(case))
                b.append('exact' if exp['exact'] else 'tolerance')
            except Exception:       # noqa
                pass
        if case['kind'] in ('totals', 'semi'):
            if any(i is not None for _, i in case['wrt']):
                b.append('wrt_indices')
            if any(i is not None for _, i in case['of']):
                b.append('of_indices')
            b.append('ncomp=%d' % len(case['comps']))
        if 'check_opts' in case:
            b.append('check_partials:%s' % case['check_opts']['method'])
            if 'check_totals' in case['calls']:
                b.append('check_totals:%s' % case['check_opts']['method'])
        if case['kind'] != 'bad':
            optsl = list(case['decl'].values()) if case['kind'] == 'partials' else [case['approx']]
            sg = {('neg' if unrat(o['step']) < 0 else 'pos') if o and o.get('step') is not None
                  else 'default' for o in optsl}
            for x in sorted(sg):
                b.append('%s_step=%s' % (case['method'], x))
            co = case.get('check_opts')
            if co and co.get('step') is not None and unrat(co['step']) < 0:
                b.append('check_%s_step=neg' % co['method'])
        if case.get('objective'):
            b.append('totals_indices:%s' % ('driver_coloring' if case.get('color_mode') == 'driver'
                                            else 'uncolored'))
            if any(i is not None and any(k < 0 for k in i) for _, i in case['wrt']):
                b.append('wrt_negative_indices')
            if any(i is not None and i != sorted(i) for _, i in case['wrt']):
                b.append('wrt_reordered_indices')
            if any(i is not None and any(k < 0 for k in i) for _, i in case['of']):
                b.append('of_negative_indices')
        if case.get('color_wrt') is not None:
            b.append('partial_coloring:%s' % ('coloring_declared_first' if case.get('color_first')
                                              else 'coloring_declared_last'))
        if impl.get('col', {}).get('coloring'):
            col = impl['col']['coloring']
            b.append('coloring:structural' if self.coloring_structural(case, Layout(case), col)
                     else 'coloring:not-structural')
            b.append('colors=%d/cols=%d' % (len(col), sum(len(c) for c in col)))
        elif case.get('colored') and 'col' in impl:
            b.append('coloring:none')
        if 'error' in impl:
            b.append('impl_error=' + impl['error'])
        for tag in ('unc', 'col'):
            for r in impl.get(tag, {}).get('calls', []):
                if 'raised' in r:
                    b.append('raised=' + r['raised'])
        return b

    # -- model ---------------------------------------------------------------------------------------
    def sys_request(self, case, lay):
        """the polynomial system and its state at the base point"""
        indep = {n: list(v) for n, v in lay.ivc}
        base = lay.evaluate(indep)
        ins = [F(0)] * lay.n_in
        for ci, c in enumerate(lay.comps):
            for n, sz in c['ins']:
                p0 = lay.in_pos[(ci, n)]
                for k in range(sz):
                    ins[p0 + k] = base[n][k]
        outs = [F(0)] * lay.n_out
        for n, p0 in lay.out_pos.items():
            for k in range(lay.out_size[n]):
                outs[p0 + k] = base[n][k]
        comps = []
        for ci, c in enumerate(lay.comps):
            in0 = min(lay.in_pos[(ci, n)] for n, _ in c['ins'])
            transfer = []
            for n, sz in c['ins']:
                if n in lay.out_pos:          # the source lives in the approximated system
                    for k in range(sz):
                        transfer.append([lay.in_pos[(ci, n)] + k, lay.out_pos[n] + k])
            outpos = []
            for n, sz in c['outs']:
                outpos.extend(range(lay.out_pos[n], lay.out_pos[n] + sz))
            f = []
            for mono in c['polys']:
                f.append(expr_of([(cf, [in0 + v for v in vs]) for cf, vs in mono]))
            g = c.get('guard')
            comps.append({'transfer': transfer, 'outpos': outpos, 'f': f,
                          'guard': None if g is None else [in0 + g[0]] + list(g[1:])})
        return {'n_in': lay.n_in, 'n_out': lay.n_out, 'ins': rats(ins), 'outs': rats(outs),
                'res': rats([F(0)] * lay.n_out), 'comps': comps}

    def col_position(self, case, lay, col):
        """(vector, position) perturbed for a column"""
        if case['kind'] == 'totals':
            return 'out', lay.out_pos[col['var']] + col['k']
        if case['kind'] == 'semi':
            # every input of the group connected to that ivc element is a separate jacobian column
            # of the group; the total wrt the ivc element is their sum — handled by the caller
            raise Infra('semi columns are handled separately')
        return 'in', lay.in_pos[(0, col['var'])] + col['k']

    def job_opts(self, opts, xvar, loc):
        step = opts['step'] if opts.get('step') is not None else rat(F(1e-6))
        mn = opts['minimum_step'] if opts.get('minimum_step') is not None else rat(F(1e-12))
        sc = opts.get('step_calc') or 'abs'
        nrm = None
        if sc == 'rel_legacy':
            ss = sum(v * v for v in xvar)
            if frac_sqrt(ss) is None:
                import math
                nrm = rat(F(math.sqrt(float(ss))))
        return {'form': opts.get('form') or 'forward', 'step': step, 'step_calc': sc,
                'minimum_step': mn, 'wrt_val': rats(xvar), 'nrm': nrm, 'loc': loc}

    def cs_step_of(self, case):
        """the complex step handed to the model (its result does not depend on it: C12_cs_exact)"""
        if case['kind'] in ('partials', 'bad'):
            opts = [o for o in case['decl'].values()]
        else:
            opts = [case['approx']]
        for o in opts:
            if o and o.get('step') is not None and case['method'] == 'cs':
                return o['step']
        return rat(F(CS_STEP))

    def model_requests(self, case, impl):
        lay = Layout(case)
        if 'error' in impl and case['kind'] != 'bad':
            return []
        indep = {n: list(v) for n, v in lay.ivc}
        base_req = dict(self.sys_request(case, lay))
        base_req.update({'op': 'approx', 'method': case['method'], 'cs_step': self.cs_step_of(case),
                         'restore_on_raise': bool(self.restore_on_raise),
                         'total': case['kind'] in ('totals', 'semi')})
        reqs = []
        self._plan = plan = []
        if not hasattr(self, '_plans'):
            self._plans = {}
        self._plans[id(case)] = (case, plan)
        kind = case['kind']

        def jobs_for(opts_of_col, cols, case=case, lay=lay, indep=indep):
            jobs = []
            for jc, col in enumerate(cols):
                vec, pos = self.col_position(case, lay, col)
                loc = col['k'] if self.rel_elem_selected else col['loc']
                j = self.job_opts(opts_of_col(col), indep[col['var']], loc)
                j.update({'info': [[vec, [pos]]], 'emit': [[jc, None]]})
                jobs.append(j)
            return jobs

        cols = wrt_columns(case, lay)
        if kind == 'semi':
            # columns of the group's semi-total jacobian: every group input element whose source is
            # an ivc variable; step_calc uses the value of that input variable
            base = lay.evaluate(indep)
            jobs = []
            semi_cols = []
            for ci, c in enumerate(lay.comps):
                for n, sz in c['ins']:
                    if lay.src_of[n] == 'ivc':
                        for k in range(sz):
                            j = self.job_opts(case['approx'], base[n], k)
                            j.update({'info': [['in', [lay.in_pos[(ci, n)] + k]]],
                                      'emit': [[len(semi_cols), None]]})
                            jobs.append(j)
                            semi_cols.append((n, k))
            r = dict(base_req)
            r['jobs'] = jobs
            reqs.append(r)
            plan.append(('semi', semi_cols))
            return reqs
        r = dict(base_req)
        r['jobs'] = jobs_for(lambda col: col['opts'], cols)
        reqs.append(r)
        plan.append(('unc', None))
        if 'check_opts' in case:
            o = case['check_opts']
            r = dict(base_req)
            r['method'] = o['method']
            r['cs_step'] = o['step'] if o.get('step') is not None else rat(F(CS_STEP))
            r['jobs'] = jobs_for(lambda col: o, cols)
            reqs.append(r)
            plan.append(('check', None))
        if 'check_totals' in case['calls']:
            tv = totals_view(case)
            lay2 = Layout(tv)
            r = dict(self.sys_request(tv, lay2))
            r.update({'op': 'approx', 'method': tv['method'], 'cs_step': self.cs_step_of(tv),
                      'restore_on_raise': bool(self.restore_on_raise), 'total': True})
            r['jobs'] = jobs_for(lambda col: col['opts'], wrt_columns(tv, lay2), tv, lay2, indep)
            reqs.append(r)
            plan.append(('check_totals', tv))
        col_obs = impl.get('col')
        if col_obs and col_obs.get('coloring'):
            coloring = col_obs['coloring']
            # structural dependencies of the rows (for the certificate)
            rows = of_rows(case, lay)
            dep = self.structural_dep(case, lay, cols, rows)
            # the coloring's rows/cols are those of the system jacobian: for partials rows = all
            # outputs, cols = all inputs; for totals rows = responses, cols = design variables
            reqs.append({'op': 'certify', 'dep': dep, 'nrows': len(rows), 'ncols': len(cols),
                         'colors': coloring})
            plan.append(('certify', None))
            jobs = []
            ccols = colored_columns(case, lay)
            if kind == 'partials':
                # _wrt_meta is filled in reverse declaration order; the datum is that of the first
                # *colored* wrt in it
                first = cols[ccols[-1]]
                first_var = first['var']
                first_opts = dict(case['decl'][first_var])
            else:
                first_var = cols[0]['var']
                first_opts = dict(case['approx'])
                first_opts['step_calc'] = None
                first_opts['minimum_step'] = None
            for color in coloring:
                positions = []
                emit = []
                for jc, nz in color:
                    vec, pos = self.col_position(case, lay, cols[jc])
                    positions.append(pos)
                    if kind == 'totals':
                        # result rows are positions in the outputs vector
                        nzp = [lay.out_pos[rows[r][0]] + rows[r][1] for r in nz]
                    else:
                        nzp = nz
                    emit.append([jc, nzp])
                j = self.job_opts(first_opts, indep[first_var], 0)
                j.update({'info': [[vec, positions]], 'emit': emit})
                jobs.append(j)
            outside = [c for i, c in enumerate(cols) if i not in set(ccols)]
            if outside:
                extra = jobs_for(lambda col: col['opts'], cols)
                jobs.extend(j for i, j in enumerate(extra) if i not in set(ccols))
            r = dict(base_req)
            r['jobs'] = jobs
            reqs.append(r)
            plan.append(('col', None))
        return reqs

    def structural_dep(self, case, lay, cols, rows):
        """for every response row the list of *colored* column indices it structurally depends on
        (columns outside a partial coloring are approximated one by one and play no role in the
        certificate)"""
        keep = set(colored_columns(case, lay))
        colidx = {(c['var'], c['k']): i for i, c in enumerate(cols) if i in keep}
        depvar = {}
        for n, v in lay.ivc:
            for k in range(len(v)):
                depvar[(n, k)] = {(n, k)}
        for c in lay.comps:
            loc = []
            for n, sz in c['ins']:
                loc.extend((n, k) for k in range(sz))
            r = 0
            for n, sz in c['outs']:
                for k in range(sz):
                    s = set()
                    canon_poly = {}
                    for cf, vs in c['polys'][r]:
                        key = tuple(sorted(vs))
                        canon_poly[key] = canon_poly.get(key, F(0)) + unrat(cf)
                    for vs, cf in canon_poly.items():
                        if cf == 0:
                            continue        # cancelled monomials carry no dependence
                        for v in vs:
                            s |= depvar[loc[v]]
                    depvar[(n, k)] = s
                    r += 1
        return [sorted(colidx[e] for e in depvar[row] if e in colidx) for row in rows]

    def model_jac(self, ans, case, lay, total):
        """dense J (Fractions) from the driver's columns"""
        cols = wrt_columns(case, lay)
        rows = of_rows(case, lay)
        J = [[F(0)] * len(cols) for _ in rows]
        seen = set()
        for jc, colv in ans['cols']:
            seen.add(jc)
            for ir, (on, ok) in enumerate(rows):
                pos = lay.out_pos[on] + ok
                v = unrat(colv[pos])
                # partials: the residual of an explicit component is f(x) - y, so d res/dx = df/dx
                J[ir][jc] = v
        return J, seen

    def compare(self, case, impl, answers):
        lay = Layout(case)
        plan = self._plan_for(case, impl)
        if case['kind'] == 'bad':
            a = answers[0]
            rec = (impl.get('unc') or {}).get('calls', [{}])[0] if 'error' not in impl else {}
            raised = impl.get('error') or rec.get('raised')
            if a.get('ok'):
                return 'model accepted invalid options, implementation: %s' % raised
            want = 'form' if any(o.get('form') not in FORMS + [None] for o in case['decl'].values()) \
                else 'step_calc'
            if a.get('err') != want:
                return 'model error %s, expected %s' % (a.get('err'), want)
            if raised != 'ValueError':
                return 'model rejects (%s) but the implementation: %s' % (a.get('err'), raised)
            return None
        exp = expected_jac(case, lay)
        total = case['kind'] in ('totals', 'semi')
        guard = any(c.get('guard') for c in case['comps'])
        k = 0
        for (tag, extra), a in zip(plan, answers):
            if tag == 'certify':
                py = self.coloring_structural(case, lay, impl['col']['coloring'])
                if (all(a['certified']) and a['covered']) != py:
                    return 'structural certificate: model %s/%s, harness %s' % (
                        a['certified'], a['covered'], py)
                if not py:
                    return None          # outside the hypothesis of the colored clause
                continue
            if not a.get('ok'):
                return 'model rejected the request: %s' % a.get('err')
            if tag == 'check_totals':
                recs = [r for r in impl['unc']['calls'] if r['call'] == 'check_totals']
                if recs and 'J_fd' in recs[0]:
                    lay2 = Layout(extra)
                    J, _ = self.model_jac(a, extra, lay2, True)
                    d = self.diff_jac(recs[0]['J_fd'], J, expected_jac(extra))
                    if d:
                        return 'check_totals jacobian: ' + d
                continue
            if tag in ('unc', 'semi'):
                recs = [r for r in impl['unc']['calls'] if r['call'] == 'totals']
            elif tag == 'check':
                recs = [r for r in impl['unc']['calls'] if r['call'] == 'check_partials']
            else:
                recs = [r for r in impl['col']['calls'] if r['call'] == 'totals'][-1:]
            if not recs:
                continue
            rec = recs[0]
            if rec.get('raised') not in (None, 'AnalysisError'):
                continue          # an error branch other than the guarded evaluation (oracle's business)
            impl_raised = rec.get('raised') == 'AnalysisError'
            if a['raised'] != impl_raised:
                return '%s: model raised=%s, implementation raised=%s' % (tag, a['raised'],
                                                                            impl_raised)
            if a['raised']:
                # state after the exception (only compared when the oracle passed, i.e. restored)
                continue
            if tag == 'semi':
                # sum the group's columns that are fed by the same ivc element
                semi_cols = extra
                cols = wrt_columns(case, lay)
                rows = of_rows(case, lay)
                J = [[F(0)] * len(cols) for _ in rows]
                for jc, colv in a['cols']:
                    n, kk = semi_cols[jc]
                    tgt = [i for i, c in enumerate(cols) if (c['var'], c['k']) == (n, kk)]
                    if not tgt:
                        continue
                    for ir, (on, ok) in enumerate(rows):
                        J[ir][tgt[0]] += unrat(colv[lay.out_pos[on] + ok])
                got = rec['J']
                # the top-level solve chains the group's jacobian exactly only when each ivc
                # element feeds one group input; otherwise sums of columns: still exact in dyadics
                d = self.diff_jac(got, J, exp)
                if d:
                    return 'semi-total jacobian: ' + d
                continue
            J, seen = self.model_jac(a, case, lay, total)
            key = 'J_fd' if tag == 'check' else 'J'
            e = exp
            if tag == 'check':
                c2 = dict(case)
                o = case['check_opts']
                c2['method'] = o['method']
                c2['decl'] = {n: o for n in case['decl']}
                e = expected_jac(c2, lay)
            d = self.diff_jac(rec[key], J, e)
            if d:
                return '%s jacobian: %s' % (tag, d)
            if [unrat(x) for x in a['ins']] != [unrat(x) for x in self.sys_request(case, lay)['ins']]:
                return 'model state changed'
        return None

    def _plan_for(self, case, impl):
        hit = self._plans.get(id(case))
        if hit is not None and hit[0] is case:
            return hit[1]
        self.model_requests(case, impl)
        return self._plan

    def diff_jac(self, got, J, exp):
        for ir, row in enumerate(J):
            for jc, v in enumerate(row):
                g = unrat(got[ir][jc])
                if exp['exact']:
                    ok = g == v
                else:
                    ok = abs(g - v) <= exp['tol'][jc]
                if not ok:
                    return 'entry (%d,%d): implementation %s, model %s (%s)' % (
                        ir, jc, float(g), float(v), 'exact' if exp['exact'] else
                        'tol %g' % float(exp['tol'][jc]))
        return None


PROP = C12()
