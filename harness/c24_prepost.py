"""C24, family `prepost`: optimizer runs with group_by_pre_opt_post=True on small random models that
have components before, inside and after the optimization loop, and design variables of both
kinds (IndepVarComp outputs and promoted inputs fed by the automatic independent-variable
component), each reaching the objective through its own branch.  The objective is a separable
convex quadratic whose optimum is known in closed form; the run with relevance enabled must equal
the run with relevance disabled (all design variables and all outputs) and the known optimum."""
import os
import random
import tempfile

import numpy as np


def gen(seed):
    rng = random.Random(seed)
    n_ivc = rng.randint(0, 2)
    n_auto = rng.randint(0, 2)
    if n_ivc + n_auto == 0:
        n_ivc = n_auto = 1
    spec = {'k': rng.choice([2.0, -1.5, 0.5]), 'pre_gain': rng.choice([3.0, -2.0, 1.0]),
            'ivc': [], 'auto': [], 'post': rng.random() < 0.8, 'pre': rng.random() < 0.8,
            'mode': rng.choice(['fwd', 'rev']), 'con': rng.random() < 0.5,
            'ivc_in_group': rng.random() < 0.3}
    for i in range(n_ivc):
        spec['ivc'].append({'a0': rng.choice([0.5, -1.0, 2.0]), 'c': rng.choice([1.0, 0.0, -2.0]),
                            'u': rng.choice([13.0, -4.0, 2.5]), 'use_pre': rng.random() < 0.6,
                            's': rng.choice([2.0, -3.0, 1.5]), 'two_stage': rng.random() < 0.4})
    for j in range(n_auto):
        spec['auto'].append({'x0': rng.choice([0.0, 1.0, -2.0]), 't': rng.choice([3.0, -1.0, 0.25]),
                             'shared': rng.random() < 0.5})
    return spec


def derive(spec):
    """gain/offset of every IndepVarComp branch (ya = gain * a + off) and the name of its output"""
    pre = 'G.' if spec['ivc_in_group'] else ''
    scale_val = spec['pre_gain'] * spec['k'] if spec['pre'] else 1.0
    for i, d in enumerate(spec['ivc']):
        d['gain'] = scale_val if (d['use_pre'] and spec['pre']) else d['s']
        d['off'] = d['c']
        d['out'] = pre + 'mid%d.ya' % i
        if d['two_stage']:
            d['gain'] *= 2.0
            d['off'] = 2.0 * d['c'] - 1.0
            d['out'] = pre + 'mid%db.yb' % i
    return pre


def build(spec):
    import openmdao.api as om
    derive(spec)
    p = om.Problem(group_by_pre_opt_post=True)
    model = p.model
    model.add_subsystem('params', om.IndepVarComp('k', spec['k']))
    if spec['pre']:
        model.add_subsystem('pre', om.ExecComp('scale = %r * k' % spec['pre_gain']))
        model.connect('params.k', 'pre.k')
    scale_val = spec['pre_gain'] * spec['k'] if spec['pre'] else 1.0
    terms, posts, proms = [], [], []
    parent = model.add_subsystem('G', om.Group()) if spec['ivc_in_group'] else model
    pre = 'G.' if spec['ivc_in_group'] else ''
    for i, d in enumerate(spec['ivc']):
        parent.add_subsystem('ivc%d' % i, om.IndepVarComp('a', d['a0']))
        if d['use_pre'] and spec['pre']:
            parent.add_subsystem('mid%d' % i, om.ExecComp('ya = scale * a + %r' % d['c']))
            model.connect('pre.scale', pre + 'mid%d.scale' % i)
        else:
            parent.add_subsystem('mid%d' % i, om.ExecComp('ya = %r * a + %r' % (d['s'], d['c'])))
        model.connect(pre + 'ivc%d.a' % i, pre + 'mid%d.a' % i)
        out = pre + 'mid%d.ya' % i
        if d['two_stage']:
            parent.add_subsystem('mid%db' % i, om.ExecComp('yb = 2.0 * ya - 1.0'))
            model.connect(out, pre + 'mid%db.ya' % i)
            out = pre + 'mid%db.yb' % i
        terms.append(('v%d' % i, out, d['u']))
    expr = ' + '.join(['(x%d - %r)**2' % (j, a['t']) for j, a in enumerate(spec['auto'])] +
                      ['(%s - %r)**2' % (nm, u) for nm, _, u in terms] + ['1.0'])
    kw = {'x%d' % j: a['x0'] for j, a in enumerate(spec['auto'])}
    model.add_subsystem('objc', om.ExecComp('f = ' + expr, **kw),
                        promotes_inputs=['x%d' % j for j in range(len(spec['auto']))])
    for nm, out, _ in terms:
        model.connect(out, 'objc.' + nm)
    if spec['con']:
        cexpr = ' + '.join(['x%d' % j for j, a in enumerate(spec['auto']) if a['shared']] +
                           [nm for nm, _, _ in terms] + ['0.0'])
        ckw = {'x%d' % j: a['x0'] for j, a in enumerate(spec['auto']) if a['shared']}
        model.add_subsystem('conc', om.ExecComp('g = ' + cexpr, **ckw),
                            promotes_inputs=list(ckw))
        for nm, out, _ in terms:
            model.connect(out, 'conc.' + nm)
        model.add_constraint('conc.g', upper=1e4)        # never active
    if spec['post']:
        pexpr = ' + '.join(['10.0 * f'] + [nm for nm, _, _ in terms])
        model.add_subsystem('post', om.ExecComp('report = ' + pexpr))
        model.connect('objc.f', 'post.f')
        for nm, out, _ in terms:
            model.connect(out, 'post.' + nm)
    for j in range(len(spec['auto'])):
        model.add_design_var('x%d' % j, lower=-50.0, upper=50.0)
    for i in range(len(spec['ivc'])):
        model.add_design_var(pre + 'ivc%d.a' % i, lower=-50.0, upper=50.0)
    model.add_objective('objc.f')
    p.driver = om.ScipyOptimizeDriver(optimizer='SLSQP', tol=1e-12, maxiter=60, disp=False)
    p.setup(mode=spec['mode'])
    for j, a in enumerate(spec['auto']):
        p.set_val('x%d' % j, a['x0'])
    return p, pre


def run(spec, no_rel):
    import openmdao.utils.relevance as R
    saved = R._no_relevance
    R._no_relevance = bool(no_rel)
    cwd = os.getcwd()
    try:
        p, pre = build(spec)
        result = p.run_driver()
        out = {'__failed': [0.0 if getattr(result, 'success', True) else 1.0]}
        for j in range(len(spec['auto'])):
            out['x%d' % j] = np.ravel(p.get_val('x%d' % j)).tolist()
        for i, d in enumerate(spec['ivc']):
            out[pre + 'ivc%d.a' % i] = np.ravel(p.get_val(pre + 'ivc%d.a' % i)).tolist()
            out[d['out']] = np.ravel(p.get_val(d['out'])).tolist()
        out['objc.f'] = np.ravel(p.get_val('objc.f')).tolist()
        if spec['post']:
            out['post.report'] = np.ravel(p.get_val('post.report')).tolist()
        if spec['con']:
            out['conc.g'] = np.ravel(p.get_val('conc.g')).tolist()
        out['__pre'] = sorted(p.model._pre_components or [])
        out['__post'] = sorted(p.model._post_components or [])
        p.cleanup()
        return out
    finally:
        R._no_relevance = saved
        os.chdir(cwd)


def optimum(spec):
    """the unconstrained minimiser (the constraint is never active)"""
    pre = derive(spec)
    ex = {'objc.f': [1.0]}
    for j, a in enumerate(spec['auto']):
        ex['x%d' % j] = [a['t']]
    for i, d in enumerate(spec['ivc']):
        ex[pre + 'ivc%d.a' % i] = [(d['u'] - d['off']) / d['gain']]
        ex[d['out']] = [d['u']]
    return ex
