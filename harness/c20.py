"""C20 — driver scaling is an exact, invertible affine map applied consistently.

Case kinds
  das    direct calls of openmdao.utils.general_utils.determine_adder_scaler (valid + malformed)
  maps   a real Problem (IndepVarComp -> affine/quadratic ExplicitComponent) with random
         scaler/adder/ref/ref0/units/indices/bounds on design vars, constraints, objective, observed
         through Driver.get_*_values, autoscaler.get_bounds_scaling, Driver._compute_totals /
         Problem.compute_totals in every return format, the set -> get round trip through
         Driver._set_design_vars, and autoscaler.apply_mult_unscaling
  qp     strictly convex QP solved by ScipyOptimizeDriver(SLSQP) under two scalings;
         compute_lagrange_multipliers(driver_scaling=False) compared in model units
"""
import os
import re
import warnings
from fractions import Fraction

import numpy as np

from common import Property, TieBroken, Infra, rat, unrat, rats, LEAN, REPO

F = Fraction
TOL = 1e-12          # relative tolerance where the float computation cannot be exact
QP_TOL = 1e-4        # multipliers after an iterative optimizer

# exact conversion table used by the oracle and the model: drv = (src + offset) * factor
UNITS = [
    ('m', 'mm', F(1000), F(0)),
    ('m', 'km', F(1, 1000), F(0)),
    ('m', 'ft', F(10000, 3048), F(0)),
    ('m', 'inch', F(10000, 254), F(0)),
    ('s', 'min', F(1, 60), F(0)),
    ('kg', 'g', F(1000), F(0)),
    ('N', 'kN', F(1, 1000), F(0)),
    ('degC', 'degF', F(9, 5), F(160, 9)),
    ('degC', 'degK', F(1), F(27315, 100)),
]
UNIT_TAB = {(a, b): (f, o) for a, b, f, o in UNITS}

DY = [F(k, 4) for k in range(-24, 25)]
POW = [F(1, 8), F(1, 4), F(1, 2), F(2), F(4), F(8), F(16)]
NEGPOW = [F(-1), F(-2), F(-1, 2), F(-4)]
INEXACT = [F(3), F(10), F(1, 10), F(7, 5), F(-3), F(1, 3)]


def is_pow2(q):
    q = abs(F(q))
    if q == 0:
        return False
    n, d = q.numerator, q.denominator
    return (n & (n - 1)) == 0 and (d & (d - 1)) == 0


# ------------------------------------------------------------------------------------------------
# encoding helpers

def enc(v):
    """Fraction / list of Fractions / None -> JSON.  A declared number is the double the user passes,
    so non-dyadic fractions are rounded to their double here and exact from then on."""
    if v is None:
        return None
    if isinstance(v, list):
        return [x if isinstance(x, str) else rat(float(x)) for x in v]
    if isinstance(v, str):
        return v
    return rat(float(v))


def dec1(x):
    return unrat(x)


def dec(v):
    if v is None:
        return None
    if isinstance(v, list):
        return [dec1(x) for x in v]
    return dec1(v)


def to_float(v, inf_ok=True):
    """JSON scalar/array -> what the user would pass to OpenMDAO (Python float / ndarray)."""
    def one(x):
        if x == 'inf':
            return float('inf')
        if x == '-inf':
            return -float('inf')
        return float(unrat(x))
    if v is None:
        return None
    if isinstance(v, list):
        return np.array([one(x) for x in v])
    return one(v)


def fl(xs):
    out = []
    for x in np.asarray(xs, dtype=float).ravel().tolist():
        if x != x:
            out.append('nan')
        elif x in (float('inf'), -float('inf')):
            out.append('inf' if x > 0 else '-inf')
        else:
            out.append(rat(x))
    return out


def err_enum(e):
    m = str(e)
    if isinstance(e, ValueError) and 'mutually exclusive' in m:
        return 'mutex'
    if isinstance(e, ZeroDivisionError):
        return 'zerodiv'
    if isinstance(e, ValueError) and 'truth value of an array' in m:
        return 'ambiguous'
    if isinstance(e, (ValueError, IndexError)) and ('broadcast' in m or 'boolean index' in m or
                                                    re.search(r'should have size \d+ but instead has size', m)):
        return 'shape'
    return 'other:%s' % type(e).__name__


class Malformed(Exception):
    pass


def guarded(fn):
    """A bug in the harness's own evaluation code is an infrastructure error (exit 2), never a
    violation."""
    import functools

    @functools.wraps(fn)
    def wrapper(self, case, *args):
        try:
            return fn(self, case, *args)
        except Infra:
            raise
        except Exception as e:
            import traceback
            raise Infra('harness error in %s: %s: %s\n%s\ncase=%s' % (
                fn.__name__, type(e).__name__, e, traceback.format_exc()[-1500:], str(case)[:1500]))
    return wrapper


# ------------------------------------------------------------------------------------------------
# the property evaluated in exact arithmetic from the declaration

def affine(scaling, size):
    """Declared scaling -> per-element (adder, scaler) Fractions and an `exact` flag.
    Raises Malformed(enum) for declarations the property does not speak about."""
    def bc(v, default):
        if v is None:
            return [default] * size
        v = dec(v)
        if isinstance(v, list):
            if len(v) != size:
                raise Malformed('shape')
            return v
        return [v] * size
    has_ref = 'ref' in scaling or 'ref0' in scaling
    has_sa = 'scaler' in scaling or 'adder' in scaling
    if has_ref and has_sa:
        raise Malformed('mutex')
    if has_ref:
        ref = bc(scaling.get('ref'), F(1))
        ref0 = bc(scaling.get('ref0'), F(0))
        if any(r == r0 for r, r0 in zip(ref, ref0)):
            raise Malformed('zerodiv')
        a = [-r0 for r0 in ref0]
        s = [1 / (r - r0) for r, r0 in zip(ref, ref0)]
    else:
        a = bc(scaling.get('adder'), F(0))
        s = bc(scaling.get('scaler'), F(1))
    exact = all(is_pow2(x) for x in s)
    return a, s, exact


def unit_of(v):
    if v.get('units') is None:
        return F(1), F(0), False
    f, o = UNIT_TAB[tuple(v['units'])]
    return f, o, True


def vsize(v):
    return len(v['indices']) if v.get('indices') is not None else v['n']


def sel(v, xs):
    if v.get('indices') is not None:
        return [xs[i] for i in v['indices']]
    return list(xs)


class Num:
    """expected value, magnitude of the terms it was formed from, exactness"""
    __slots__ = ('v', 'mag', 'exact')

    def __init__(self, v, mag, exact):
        self.v, self.mag, self.exact = v, mag, exact


def close(got, num):
    """got: Fraction (exact value of the float the implementation returned)."""
    if num.exact:
        return got == num.v
    return abs(got - num.v) <= F(TOL) * max(abs(num.v), num.mag) + F(1, 10 ** 300)


def close_list(got, nums):
    if len(got) != len(nums):
        return False
    for g, n in zip(got, nums):
        if isinstance(g, str) and g in ('nan', 'inf', '-inf'):
            return False
        if not close(unrat(g), n):
            return False
    return True


def model_values(case):
    """Exact model-space values of every variable (source units)."""
    vals = {}
    for v in case['dvs']:
        vals[v['name']] = dec(v['val'])
    for c in case['cons']:
        y = list(dec(c['c']))
        for vn, A in c['A'].items():
            x = vals[vn]
            for i, row in enumerate(A):
                y[i] += sum(dec1(a) * xv for a, xv in zip(row, x))
        vals[c['name']] = y
    o = case['obj']
    f = dec1(o['c'])
    for v in case['dvs']:
        x = vals[v['name']]
        f += sum(dec1(q) * xv for q, xv in zip(o['q'][v['name']], x))
        f += sum(dec1(d) * xv * xv for d, xv in zip(o['dq'][v['name']], x)) / 2
    vals['f'] = [f]
    return vals


def model_jac(case, vals):
    """Exact model-space Jacobian blocks {(of, wrt): rows} (full variables, no indices)."""
    J = {}
    o = case['obj']
    for v in case['dvs']:
        x = vals[v['name']]
        J['f', v['name']] = [[dec1(q) + dec1(d) * xv
                              for q, d, xv in zip(o['q'][v['name']], o['dq'][v['name']], x)]]
        for c in case['cons']:
            J[c['name'], v['name']] = [[dec1(a) for a in row] for row in c['A'][v['name']]]
    return J


def vois(case):
    """(kind, decl) of every variable of interest; the objective is named 'f'."""
    out = [('design_var', v) for v in case['dvs']]
    out += [('constraint', c) for c in case['cons']]
    ob = dict(case['obj'])
    ob.setdefault('name', 'f')
    ob.setdefault('n', 1)
    out.append(('objective', ob))
    return out


def bound_list(b, size, default):
    """Declared bound -> list of Fractions / 'inf' / '-inf' markers of length size."""
    if b is None:
        return [default] * size
    if isinstance(b, list):
        if len(b) != size:
            raise Malformed('shape')
        return [x if x in ('inf', '-inf') else dec1(x) for x in b]
    return [b if b in ('inf', '-inf') else dec1(b)] * size


def expected(case, INF):
    """Everything the optimizer should see, from the declaration, in exact arithmetic.
    Raises Malformed for invalid declarations."""
    vals = model_values(case)
    exp = {'scaled': {}, 'unscaled': {}, 'lower': {}, 'upper': {}, 'equals': {}, 'set_model': {},
           'set_back': {}, 'mult': {}, 'aff': {}, 'rt_model': {}, 'set1_model': {}}
    for kind, v in vois(case):
        n = vsize(v)
        a, s, ex = affine(v['scaling'], n)
        f, o, has_u = unit_of(v)
        ex = ex and not has_u
        x = sel(v, vals[v['name']])
        exp['aff'][v['name']] = (a, s, f, o, ex)
        exp['unscaled'][v['name']] = [Num((xi + o) * f, (abs(xi) + abs(o)) * abs(f), not has_u)
                                      for xi in x]
        exp['scaled'][v['name']] = [
            Num(((xi + o) * f + ai) * si, ((abs(xi) + abs(o)) * abs(f) + abs(ai)) * abs(si), ex)
            for xi, ai, si in zip(x, a, s)]
        if kind == 'objective':
            continue
        # bounds are declared in driver units: only adder/scaler apply
        bex = all(is_pow2(q) for q in s)
        for key, is_lower in (('lower', True), ('upper', False), ('equals', False)):
            if key == 'equals':
                if kind != 'constraint':
                    continue
                if v.get('equals') is None:
                    exp['equals'][v['name']] = None
                    continue
            b = bound_list(v.get(key), n, -INF if is_lower else INF)
            out = []
            for bi, ai, si in zip(b, a, s):
                if bi == '-inf':
                    bi = -INF * 2
                elif bi == 'inf':
                    bi = INF * 2
                unb = (bi <= -INF) if is_lower else (bi >= INF)
                if unb:
                    out.append(Num(-INF if is_lower else INF, F(0), True))
                else:
                    out.append(Num((bi + ai) * si, (abs(bi) + abs(ai)) * abs(si), bex))
            exp[key][v['name']] = out
        # The pair the optimizer is given must describe the image of the model interval: where the
        # scaler is negative the image of the upper bound is the lower bound in driver units and
        # vice versa, "no bound" staying "no bound" on the other side.
        lo_img, hi_img = exp['lower'][v['name']], exp['upper'][v['name']]
        lo_out, hi_out = [], []
        for lq, hq, si in zip(lo_img, hi_img, s):
            if si < 0:
                lo_out.append(Num(-INF, F(0), True) if hq.v >= INF and hq.mag == 0 else hq)
                hi_out.append(Num(INF, F(0), True) if lq.v <= -INF and lq.mag == 0 else lq)
            else:
                lo_out.append(lq)
                hi_out.append(hq)
        exp['lower'][v['name']], exp['upper'][v['name']] = lo_out, hi_out
        if kind == 'design_var':
            # get -> set without a new optimizer point returns the model to where it was
            exp['rt_model'][v['name']] = [
                Num(xi, (abs(q.mag / si) + abs(ai)) / abs(f) + abs(o), ex)
                for xi, q, ai, si in zip(x, exp['scaled'][v['name']], a, s)]
        if kind == 'design_var' and v.get('setv') is not None:
            y = dec(v['setv'])
            # model value in driver units, then in source units
            xd = [Num(yi / si - ai, abs(yi / si) + abs(ai), ex) for yi, ai, si in zip(y, a, s)]
            exp['set_model'][v['name']] = [
                Num(q.v / f - o, q.mag / abs(f) + abs(o), ex) for q in xd]
            exp['set1_model'][v['name']] = [Num(yi / f - o, abs(yi / f) + abs(o), not has_u) for yi in y]
            # back through the forward map: magnitude of the terms of ((x_src + o) * f + a) * s
            exp['set_back'][v['name']] = [
                Num(yi, ((q.mag + abs(o)) * abs(f) + abs(ai)) * abs(si), ex)
                for yi, q, ai, si in zip(y, exp['set_model'][v['name']], a, s)]
    # multipliers
    # lambda_model = lambda_s * (dT_v/dv) / (dT_f/df); the derivative of the declared map includes the
    # unit conversion factor.  `mult_nounits` is what results when only scaler/ref are used.
    sf = exp['aff']['f'][1][0]
    uf = exp['aff']['f'][2]
    exp['mult_nounits'] = {}
    for name, lam in (case.get('mult') or {}).items():
        a, s, f, o, ex = exp['aff'][name]
        exp['mult'][name] = [Num(dec1(l) * si * f / (sf * uf), abs(dec1(l) * si * f / (sf * uf)),
                                 is_pow2(si) and is_pow2(sf) and f == 1 and uf == 1)
                             for l, si in zip(lam, s)]
        exp['mult_nounits'][name] = [Num(dec1(l) * si / sf, abs(dec1(l) * si / sf),
                                         is_pow2(si) and is_pow2(sf)) for l, si in zip(lam, s)]
    # jacobian
    Jm = model_jac(case, vals)
    jac_s, jac_u, jac_nou = {}, {}, {}
    resp = [r for k, r in vois(case) if k != 'design_var']
    resp = [resp[-1]] + resp[:-1]           # objective first, then constraints
    for r in resp:
        ar, sr, fr, orr, exr = exp['aff'][r['name']]
        for v in case['dvs']:
            av, sv, fv, ov, exv = exp['aff'][v['name']]
            rows = sel(r, Jm[r['name'], v['name']]) if r['name'] != 'f' else Jm['f', v['name']]
            rows = [sel(v, row) for row in rows]
            hasu = (fr != 1) or (fv != 1)
            jac_u[r['name'], v['name']] = [[Num(fr * e / fv, abs(fr * e / fv), not hasu)
                                            for e in row] for row in rows]
            jac_nou[r['name'], v['name']] = [
                [Num(sr[i] * e / sv[j], abs(sr[i] * e / sv[j]), is_pow2(sr[i]) and is_pow2(sv[j]))
                 for j, e in enumerate(row)] for i, row in enumerate(rows)]
            jac_s[r['name'], v['name']] = [
                [Num(sr[i] * fr * e / (fv * sv[j]), abs(sr[i] * fr * e / (fv * sv[j])),
                     (not hasu) and is_pow2(sr[i]) and is_pow2(sv[j]))
                 for j, e in enumerate(row)] for i, row in enumerate(rows)]
    exp['jac_s'], exp['jac_u'], exp['jac_nounits'] = jac_s, jac_u, jac_nou
    return exp


# ------------------------------------------------------------------------------------------------

class C20(Property):
    pid = 'C20'
    workers = 1          # one case takes ~8 ms; forking the loaded interpreter costs more
    tolerance = {'exact_cases': 0.0, 'inexact_cases_rel': TOL, 'qp_multipliers': QP_TOL}
    required_theorems = [
        'C20_ref_map', 'C20_ref_map_array', 'C20_ref_excludes_scaler', 'C20_scaler_adder_passthrough',
        'C20_inverse', 'C20_inverse_vec', "C20_inverse_vec'", 'C20_no_double_scaling',
        'C20_units_fold', 'C20_units_roundtrip',
        'C20_bounds_image', 'C20_bounds_image_vec', 'C20_unbounded_stays_sentinel',
        'C20_bounds_interval_pos', 'C20_bounds_interval_neg', 'C20_inf_sentinels',
        'C20_bounds_feasible_image', 'C20_bounds_feasible_image_partial',
        'C20_bounds_unswapped_negative_counterexample', 'C20_scaled_bounds_vec',
        'C20_jac_block', 'C20_jac_block_units', 'C20_jac_chain_rule', 'C20_jac_layouts_agree',
        'C20_jac_units_gate',
        'C20_multiplier_invariant', 'C20_multiplier_roundtrip', 'C20_multiplier_unscale']
    rule = ("cases: (das) determine_adder_scaler on scalar/array ref/ref0/scaler/adder incl. malformed "
            "combinations; (maps) real Problems with 1-2 design vars (size 1-3, optional indices), 0-2 "
            "constraints, one objective, each with scaling in {none, scaler, adder, scaler+adder, ref, "
            "ref0, ref+ref0} x {scalar, array} x {dyadic, non-dyadic, negative}, optional unit "
            "conversion (9 unit pairs incl. offsets), bounds in {none, scalar, array, partly infinite}, "
            "declared by add_* or set_*_options; observed through get_design_var_values / "
            "get_constraint_values / get_objective_values (driver_scaling on/off), "
            "autoscaler.get_bounds_scaling, Driver._compute_totals (flat_dict/dict/array, twice) and "
            "Problem.compute_totals (scaled/unscaled), set_data + _set_design_vars round trip, "
            "apply_mult_unscaling; (qp) strictly convex QPs solved by SLSQP under two scalings. "
            "Non-trivial: at least one variable has a non-identity map (maps), ref/ref0 given (das), "
            "both runs converged with a non-degenerate active set (qp); distinct by canonical case.")
    assumptions = [
        "dyadic data with power-of-two scalers is compared exactly; with unit conversions or "
        "non-dyadic scalers the comparison uses relative tolerance 1e-12 on the largest term",
        "bounds are declared in the variable's driver units (OpenMDAO convention), so only "
        "adder/scaler apply to them",
        "the scaled bound pair must describe the image of the model interval: under a negative "
        "scaler the image of the upper bound is the driver-space lower bound and vice versa",
        "QP multipliers are requested with use_sparse_solve=False (direct dense least squares); "
        "the default scipy lsqr is iterative with atol=btol=1e-6 on the driver-scaled system",
        "multipliers after SLSQP are compared with tolerance 1e-4 and only when both runs converged "
        "and the active set is non-degenerate (LICQ + strict complementarity)"]
    level = 'proof'
    level_text = ("The affine maps (ref/ref0 -> adder/scaler with precedence, vector scaling/unscaling "
                  "with the driver_scaling flag, unit conversion folded in, bounds with sentinels, "
                  "Jacobian block scaling in both dict layouts, multiplier unscaling) are modelled in "
                  "Lean (bounds in both variants of _compute_scaled_bounds: the repaired exchange under a "
                  "negative scaler is proved to give the image of the model interval for every non-zero "
                  "scaler, the un-exchanged one only for positive scalers, with a kernel-checked "
                  "counterexample; which variant /repo contains is probed by behaviour) "
                  "and the property clauses are proved over any ordered field for scalars and "
                  "arrays of any length; the model is tied to the real driver by differential runs "
                  "on generated Problems (exact for dyadic data). Optimizer-reported multipliers are "
                  "checked at run time only (against the exact KKT multipliers of generated QPs).")
    level_note = ("Trusted: Lean kernel + standard axioms; the harness; NumPy broadcasting (modelled "
                  "by Sv.bcast/Sv.strict); the unit table of the harness (checked against "
                  "openmdao.utils.units at start). Modelled, not verified: float rounding; how the "
                  "driver gathers values and totals from the model; SLSQP.")
    technique = "Lean 4 proof over (ordered) fields + differential correspondence, exact where dyadic"
    trusted_extra = ["NumPy broadcasting rules (modelled by Sv.bcast / Sv.strict / Sv.zip)",
                     "scipy SLSQP and lsqr (qp stream only; contract: converged KKT point)",
                     "exact unit factors of the harness table (validated against the live unit "
                     "library to 1e-13 at start; C06 covers the unit algebra)"]

    # -- translator ------------------------------------------------------------------------------
    def translate(self):
        src = os.path.join(REPO, 'openmdao', 'core', 'constants.py')
        try:
            text = open(src).read()
        except OSError as e:
            raise TieBroken('cannot read %s: %s' % (src, e))
        m = re.search(r'^INF_BOUND\s*=\s*([-+0-9.eE_]+)\s*(?:#.*)?$', text, re.M)
        if not m:
            raise TieBroken('INF_BOUND literal not found in core/constants.py')
        lit = m.group(1)
        try:
            val = Fraction(float(lit))
        except ValueError:
            raise TieBroken('INF_BOUND literal %r is not a float' % lit)
        if val.denominator != 1:
            raise TieBroken('INF_BOUND %r is not an integer-valued double' % lit)
        body = ('/-\nGENERATED by harness/c20.py:translate from /repo/openmdao/core/constants.py — do '
                'not edit.\n`INF_BOUND = %s` (source literal); value below is the exact rational value '
                'of that double.\n-/\nnamespace OMV.C20.Generated\n\n'
                'def infBoundLiteral : String := "%s"\n\n'
                'def infBound : Rat := (%d : Int)\n\nend OMV.C20.Generated\n' % (lit, lit, val.numerator))
        path = os.path.join(LEAN, 'OMV', 'Generated', 'C20Consts.lean')
        old = open(path).read() if os.path.exists(path) else None
        if old != body:
            os.makedirs(os.path.dirname(path), exist_ok=True)
            with open(path, 'w') as fh:
                fh.write(body)
        self._inf = val
        self.SWAP_NEG = self._probe_swap()
        return ['INF_BOUND literal %s = %d regenerated into OMV/Generated/C20Consts.lean; '
                'C20_inf_sentinels re-proved on it' % (lit, val.numerator),
                'model variant compared (probed by behaviour: lower=0, scaler=-1): swapNeg=%s (%s)'
                % (self.SWAP_NEG, 'scaled bounds exchanged under a negative scaler, /repo cf7cce3'
                   if self.SWAP_NEG else 'each bound scaled on its own, pinned snapshot')]

    @staticmethod
    def _probe_swap():
        """Which variant of Autoscaler._compute_scaled_bounds does /repo contain?  Decided by
        behaviour on `lower=0, scaler=-1`: (0, +INF) = not exchanged, (-INF, 0) = exchanged."""
        from common import in_tempdir

        def run():
            import openmdao.api as om
            from openmdao.core.constants import INF_BOUND
            with warnings.catch_warnings():
                warnings.simplefilter('ignore')
                p = om.Problem()
                p.model.add_subsystem('ivc', om.IndepVarComp('x', 1.0), promotes=['*'])
                p.model.add_subsystem('c', om.ExecComp('f = x'), promotes=['*'])
                p.model.add_design_var('x', lower=0.0, scaler=-1.0)
                p.model.add_objective('f')
                p.setup()
                p.final_setup()
                lo, hi, _ = p.driver.autoscaler.get_bounds_scaling('design_var')
                return float(lo['x'][0]), float(hi['x'][0]), float(INF_BOUND)
        try:
            lo, hi, inf = in_tempdir(run)
        except Exception as e:
            raise TieBroken('cannot probe the bound-scaling variant: %s: %s' % (type(e).__name__, e))
        if (lo, hi) == (-inf, 0.0):
            return True
        if lo == 0.0 and hi == inf:
            return False
        raise TieBroken('bound-scaling probe (lower=0, scaler=-1) returned (%r, %r): neither modelled '
                        'variant' % (lo, hi))

    def setup(self, tier):
        import openmdao.api as om          # noqa: F401  (imported before forking workers)
        from openmdao.core.constants import INF_BOUND
        from openmdao.utils.units import unit_conversion
        self.INF = Fraction(INF_BOUND)
        if getattr(self, '_inf', self.INF) != self.INF:
            raise Infra('translator read INF_BOUND=%s but the live constant is %s'
                        % (self._inf, self.INF))
        for a, b, f, o in UNITS:
            ff, oo = unit_conversion(a, b)
            if abs(ff - float(f)) > 1e-13 * abs(float(f)) or abs(oo - float(o)) > 1e-13 * max(1, abs(float(o))):
                raise Infra('harness unit table disagrees with openmdao.utils.units for %s->%s: '
                            '(%r, %r) vs (%s, %s)' % (a, b, ff, oo, f, o))

    # -- generators ------------------------------------------------------------------------------
    def _scal(self, rng, n, allow_neg=True, allow_inexact=True, p_arr=0.45):
        """A random scaling declaration for a variable of size n."""
        kind = rng.choice(['none', 'scaler', 'scaler', 'adder', 'scaler_adder', 'scaler_adder', 'ref',
                           'ref0', 'ref_ref0', 'ref_ref0'])
        arr = rng.random() < p_arr
        r = rng.random()
        pool = POW
        if allow_inexact and r < 0.15:
            pool = INEXACT if allow_neg else [q for q in INEXACT if q > 0]
        elif allow_neg and r < 0.35:
            pool = POW + NEGPOW

        def sv(p):
            if arr:
                return [rng.choice(p) for _ in range(n)]
            return rng.choice(p)
        sc = {}
        if kind in ('scaler', 'scaler_adder'):
            sc['scaler'] = sv(pool)
        if kind in ('adder', 'scaler_adder'):
            sc['adder'] = sv(DY)
        if kind == 'ref':
            sc['ref'] = sv(pool)
        if kind == 'ref0':
            # ref defaults to 1: 1 - ref0 should be a power of two for exactness
            d = sv(pool)
            sc['ref0'] = [1 - q for q in d] if arr else 1 - d
        if kind == 'ref_ref0':
            r0 = sv(DY)
            d = sv(pool)
            sc['ref0'] = r0
            sc['ref'] = [a + b for a, b in zip(r0, d)] if arr else r0 + d
            if rng.random() < 0.2 and arr:
                # mixed: scalar ref0 with array ref
                sc['ref0'] = r0[0]
                sc['ref'] = [r0[0] + b for b in d]
        return {k: enc(v) for k, v in sc.items()}

    def _bound(self, rng, n, lower, p_none=0.3):
        r = rng.random()
        if r < p_none:
            return None
        base = [rng.choice(DY) - (6 if lower else -6) for _ in range(n)]
        if r < 0.5:
            return enc(base[0])
        if r < 0.55:
            return '-inf' if lower else 'inf'
        out = []
        for b in base:
            q = rng.random()
            if q < 0.2:
                out.append('-inf' if lower else 'inf')
            elif q < 0.35:
                out.append(rat(-self.INF if lower else self.INF))
            else:
                out.append(rat(b))
        return out

    def _units(self, rng, p=0.3):
        if rng.random() < p:
            a, b, _, _ = rng.choice(UNITS)
            return [a, b]
        return None

    def gen_maps(self, rng, malformed=False):
        ndv = rng.choice([1, 1, 2])
        dvs = []
        for k in range(ndv):
            n = rng.choice([1, 2, 3, 3])
            v = {'name': 'xz'[k], 'n': n, 'val': rats([rng.choice(DY) / 2 for _ in range(n)])}
            v['indices'] = None
            if n >= 2 and rng.random() < 0.25:
                v['indices'] = sorted(rng.sample(range(n), rng.choice([1, n - 1])))
            sz = vsize(v)
            u = self._units(rng)
            v['units'] = u
            v['src_units'] = u[0] if u else rng.choice([None, 'm', 's'])
            v['scaling'] = self._scal(rng, sz)
            v['lower'] = self._bound(rng, sz, True)
            v['upper'] = self._bound(rng, sz, False)
            v['setv'] = rats([rng.choice(DY) for _ in range(sz)])
            dvs.append(v)
        ncon = rng.choice([0, 1, 1, 2])
        cons = []
        for k in range(ncon):
            n = rng.choice([1, 2, 3])
            c = {'name': 'y%d' % k, 'n': n, 'c': rats([rng.choice(DY) for _ in range(n)]),
                 'A': {v['name']: [rats([F(rng.randint(-4, 4), rng.choice([1, 1, 2]))
                                         for _ in range(v['n'])]) for _ in range(n)] for v in dvs}}
            c['indices'] = None
            if n >= 2 and rng.random() < 0.25:
                c['indices'] = sorted(rng.sample(range(n), rng.choice([1, n - 1])))
            sz = vsize(c)
            u = self._units(rng)
            c['units'] = u
            c['src_units'] = u[0] if u else rng.choice([None, 'm'])
            c['scaling'] = self._scal(rng, sz)
            ck = rng.choice(['lower', 'upper', 'both', 'equals'])
            c['lower'] = c['upper'] = c['equals'] = None
            if ck in ('lower', 'both'):
                c['lower'] = self._bound(rng, sz, True, p_none=0.0)
            if ck in ('upper', 'both'):
                c['upper'] = self._bound(rng, sz, False, p_none=0.0)
            if ck == 'equals':
                c['equals'] = enc([rng.choice(DY) for _ in range(sz)]) if rng.random() < 0.5 \
                    else enc(rng.choice(DY))
            cons.append(c)
        u = self._units(rng, p=0.25)
        obj = {'units': u, 'src_units': u[0] if u else rng.choice([None, 'kg']),
               'scaling': self._scal(rng, 1, p_arr=0.15), 'c': rat(rng.choice(DY)),
               'q': {v['name']: rats([F(rng.randint(-4, 4)) for _ in range(v['n'])]) for v in dvs},
               'dq': {v['name']: rats([F(rng.randint(0, 3)) for _ in range(v['n'])]) for v in dvs}}
        mult = {}
        for v in dvs + cons:
            mult[v['name']] = rats([rng.choice(DY) for _ in range(vsize(v))])
        case = {'kind': 'maps', 'fmt': rng.choice(['flat_dict', 'dict', 'array']),
                'via_options': rng.random() < 0.15, 'dvs': dvs, 'cons': cons, 'obj': obj,
                'mult': mult, 'perm': True}
        if malformed:
            tgt = rng.choice(dvs + cons + [obj])
            sz = vsize(tgt) if 'n' in tgt else 1
            how = rng.choice(['mutex', 'zerodiv', 'shape'])
            case['malformed'] = how
            case['via_options'] = False
            if how == 'mutex':
                tgt['scaling'] = {'ref': rat(2), rng.choice(['scaler', 'adder']): rat(4)}
            elif how == 'zerodiv':
                q = rng.choice(DY)
                tgt['scaling'] = {'ref': rat(q), 'ref0': rat(q)} if q != 0 else {'ref': rat(0)}
            elif rng.random() < 0.6:
                tgt['scaling'] = {rng.choice(['scaler', 'adder']): rats([F(2)] * (sz + 1))}
            else:
                tgt['scaling'] = {rng.choice(['ref', 'ref0']): rats([F(2)] * (sz + 1))}
        return case

    def gen_das(self, rng):
        n = rng.choice([1, 2, 3])

        def sv(pool, p_arr=0.4):
            if rng.random() < p_arr:
                return enc([rng.choice(pool) for _ in range(rng.choice([n, n, n, 1, n + 1]))])
            return enc(rng.choice(pool))
        args = {'ref0': None, 'ref': None, 'adder': None, 'scaler': None}
        mode = rng.choice(['ref', 'ref', 'sa', 'sa', 'mix', 'none', 'refeq'])
        if mode in ('ref', 'mix'):
            for k in ('ref0', 'ref'):
                if rng.random() < 0.7:
                    args[k] = sv(DY)
        if mode in ('sa', 'mix'):
            if rng.random() < 0.7:
                args['scaler'] = sv(POW + NEGPOW + INEXACT)
            if rng.random() < 0.7:
                args['adder'] = sv(DY)
        if mode == 'refeq':
            q = rng.choice(DY)
            args['ref0'], args['ref'] = rat(q), rat(q)
        return {'kind': 'das', **args}

    def gen_qp(self, rng, array_scaler=False):
        n = rng.choice([2, 3, 3, 4])
        m = rng.choice([0, 1, 1, 2, 2])          # 0: bounds only (no constraint declared)
        d = [F(rng.choice([1, 2, 4])) for _ in range(n)]
        t = [F(rng.randint(-6, 6), 2) for _ in range(n)]
        A = [[F(rng.randint(-2, 2)) for _ in range(n)] for _ in range(max(m, 1))]
        for row in A:
            if all(a == 0 for a in row):
                row[rng.randrange(n)] = F(1)
        # upper bounds chosen so that the unconstrained optimum t usually violates them
        b = [sum(a * ti for a, ti in zip(row, t)) - F(rng.randint(-1, 4), 2) for row in A]
        lo = [ti + F(rng.choice([-6, -5, -4, -3, -2, -1, 1, 2]), 2) for ti in t]
        hi = [l + F(rng.randint(2, 12), 2) for l in lo]
        units = ['m', 'mm'] if rng.random() < 0.2 else None

        def scal(sz):
            k = rng.choice(['none', 'scaler', 'scaler_adder', 'ref_ref0'])
            pool = [F(1, 4), F(1, 2), F(2), F(4)]
            if k == 'none':
                return {}
            if k == 'scaler':
                return {'scaler': rat(rng.choice(pool))}
            if k == 'scaler_adder':
                return {'scaler': rat(rng.choice(pool)), 'adder': rat(rng.choice(DY))}
            r0 = rng.choice(DY)
            return {'ref0': rat(r0), 'ref': rat(r0 + rng.choice(pool))}
        scalings = []
        for _ in range(2):
            s = {'x': scal(n), 'g': scal(m) if m else {}, 'f': scal(1)}
            scalings.append(s)
        if array_scaler:
            scalings[1]['x'] = {'scaler': rats([rng.choice([F(2), F(4)]) for _ in range(n)])}
        return {'kind': 'qp', 'n': n, 'm': m, 'd': rats(d), 't': rats(t),
                'A': [rats(r) for r in A], 'b': rats(b), 'lo': rats(lo), 'hi': rats(hi),
                'units': units, 'scalings': scalings}

    def cases(self, rng, tier):
        if not hasattr(self, 'INF'):
            self.setup(tier)
        quick = tier != 'thorough'
        n_maps, n_bad, n_das, n_qp = (340, 50, 300, 10) if quick else (6000, 600, 4000, 240)
        for _ in range(n_das):
            yield self.gen_das(rng)
        for _ in range(n_maps):
            yield self.gen_maps(rng)
        for _ in range(n_bad):
            yield self.gen_maps(rng, malformed=True)
        for k in range(n_qp):
            yield self.gen_qp(rng, array_scaler=(k % 10 == 9))

    # -- real code -------------------------------------------------------------------------------
    def run_impl(self, case):
        with warnings.catch_warnings():
            warnings.simplefilter('ignore')
            old = np.seterr(all='ignore')
            try:
                if case['kind'] == 'das':
                    return self._impl_das(case)
                if case['kind'] == 'qp':
                    return self._impl_qp(case)
                return self._impl_maps(case)
            finally:
                np.seterr(**old)

    def _impl_das(self, case):
        from openmdao.utils.general_utils import determine_adder_scaler
        kw = {k: to_float(case[k]) for k in ('ref0', 'ref', 'adder', 'scaler')}
        try:
            a, s = determine_adder_scaler(kw['ref0'], kw['ref'], kw['adder'], kw['scaler'])
        except Exception as e:
            return {'error': err_enum(e), 'msg': str(e)[:160]}

        def out(v):
            if isinstance(v, np.ndarray):
                return fl(v)
            return fl([v])[0]
        return {'adder': out(a), 'scaler': out(s)}

    def _build(self, case, om, scalings=None):
        dvs, cons, obj = case['dvs'], case['cons'], case['obj']
        f64 = lambda rows: np.array([[float(unrat(a)) for a in r] for r in rows], dtype=float)
        vec = lambda xs: np.array([float(unrat(a)) for a in xs], dtype=float)
        A = {c['name']: {vn: f64(rows) for vn, rows in c['A'].items()} for c in cons}
        cc = {c['name']: vec(c['c']) for c in cons}
        q = {vn: vec(x) for vn, x in obj['q'].items()}
        dq = {vn: vec(x) for vn, x in obj['dq'].items()}
        c0 = float(unrat(obj['c']))

        class LQ(om.ExplicitComponent):
            def setup(self):
                for v in dvs:
                    self.add_input(v['name'], np.zeros(v['n']), units=v['src_units'])
                for c in cons:
                    self.add_output(c['name'], np.zeros(c['n']), units=c['src_units'])
                self.add_output('f', 0.0, units=obj['src_units'])
                self.declare_partials('*', '*')

            def compute(self, i, o):
                f = c0
                for v in dvs:
                    x = i[v['name']]
                    f = f + q[v['name']] @ x + 0.5 * np.sum(dq[v['name']] * x * x)
                o['f'] = f
                for c in cons:
                    y = cc[c['name']].copy()
                    for v in dvs:
                        y = y + A[c['name']][v['name']] @ i[v['name']]
                    o[c['name']] = y

            def compute_partials(self, i, J):
                for v in dvs:
                    x = i[v['name']]
                    J['f', v['name']] = (q[v['name']] + dq[v['name']] * x).reshape(1, -1)
                    for c in cons:
                        J[c['name'], v['name']] = A[c['name']][v['name']]

        p = om.Problem()
        ivc = p.model.add_subsystem('ivc', om.IndepVarComp(), promotes=['*'])
        for v in dvs:
            ivc.add_output(v['name'], vec(v['val']), units=v['src_units'])
        p.model.add_subsystem('c', LQ(), promotes=['*'])
        via = case.get('via_options')

        def kws(v, keys):
            kw = {k: to_float(v[k]) for k in keys if v.get(k) is not None}
            if v.get('units') is not None:
                kw['units'] = v['units'][1]
            if v.get('indices') is not None:
                kw['indices'] = list(v['indices'])
            return kw
        for v in dvs:
            kw = kws(v, ('lower', 'upper'))
            sc = {k: to_float(x) for k, x in v['scaling'].items()}
            if via and sc:
                p.model.add_design_var(v['name'], **kw)
                p.model.set_design_var_options(v['name'], **sc)
            else:
                p.model.add_design_var(v['name'], **kw, **sc)
        for c in cons:
            kw = kws(c, ('lower', 'upper', 'equals'))
            sc = {k: to_float(x) for k, x in c['scaling'].items()}
            if via and sc:
                p.model.add_constraint(c['name'], **kw)
                p.model.set_constraint_options(c['name'], **sc)
            else:
                p.model.add_constraint(c['name'], **kw, **sc)
        kw = {}
        if obj.get('units') is not None:
            kw['units'] = obj['units'][1]
        sc = {k: to_float(x) for k, x in obj['scaling'].items()}
        # set_objective_options(scaler=.) alone raises TypeError in this tree (adder stays
        # _UNDEFINED; system.py, outside C20's anchors), so it is only used with a complete pair
        if via and sc and len(sc) == 2:
            p.model.add_objective('f', **kw)
            p.model.set_objective_options('f', **sc)
        else:
            p.model.add_objective('f', **kw, **sc)
        return p

    def _impl_maps(self, case):
        import openmdao.api as om
        res = {}
        stage = 'declare'
        try:
            p = self._build(case, om)
            stage = 'setup'
            p.setup()
            p.final_setup()
            stage = 'run_model'
            p.run_model()
            d = p.driver
            names_dv = [v['name'] for v in case['dvs']]
            names_con = [c['name'] for c in case['cons']]
            stage = 'values'

            def dd(x):
                return {k: fl(v) for k, v in x.items()}
            res['dv_s'] = dd(d.get_design_var_values(driver_scaling=True))
            res['dv_s2'] = dd(d.get_design_var_values(driver_scaling=True))
            res['dv_u'] = dd(d.get_design_var_values(driver_scaling=False))
            res['con_s'] = dd(d.get_constraint_values(driver_scaling=True))
            res['con_u'] = dd(d.get_constraint_values(driver_scaling=False))
            res['con_s2'] = dd(d.get_constraint_values(driver_scaling=True))
            res['obj_s'] = dd(d.get_objective_values(driver_scaling=True))
            res['obj_u'] = dd(d.get_objective_values(driver_scaling=False))
            res['obj_s2'] = dd(d.get_objective_values(driver_scaling=True))
            stage = 'bounds'
            lo, hi, _ = d.autoscaler.get_bounds_scaling('design_var')
            res['dv_lower'] = {n: fl(lo[n]) for n in names_dv}
            res['dv_upper'] = {n: fl(hi[n]) for n in names_dv}
            lo, hi, eq = d.autoscaler.get_bounds_scaling('constraint')
            res['con_lower'] = {n: fl(lo[n]) for n in names_con}
            res['con_upper'] = {n: fl(hi[n]) for n in names_con}
            res['con_equals'] = {n: fl(eq[n]) for n in names_con}
            stage = 'totals'
            resp = ['f'] + names_con
            sizes_r = [1] + [vsize(c) for c in case['cons']]
            sizes_d = [vsize(v) for v in case['dvs']]

            def canon_tot(t, fmt):
                out = {}
                if fmt == 'array':
                    t = np.asarray(t)
                    r0 = 0
                    for rn, rs in zip(resp, sizes_r):
                        c0 = 0
                        for dn, ds in zip(names_dv, sizes_d):
                            out['%s|%s' % (rn, dn)] = [fl(row) for row in t[r0:r0 + rs, c0:c0 + ds]]
                            c0 += ds
                        r0 += rs
                    if t.shape != (sum(sizes_r), sum(sizes_d)):
                        out['shape'] = list(t.shape)
                elif fmt == 'dict':
                    for rn, inner in t.items():
                        for dn, blk in inner.items():
                            out['%s|%s' % (rn, dn)] = [fl(row) for row in np.atleast_2d(blk)]
                else:
                    for (rn, dn), blk in t.items():
                        out['%s|%s' % (rn, dn)] = [fl(row) for row in np.atleast_2d(blk)]
                return out
            fmt = case['fmt']
            res['tot_s'] = canon_tot(d._compute_totals(return_format=fmt, driver_scaling=True), fmt)
            res['tot_s2'] = canon_tot(d._compute_totals(return_format=fmt, driver_scaling=True), fmt)
            res['ptot_s'] = canon_tot(p.compute_totals(driver_scaling=True), 'flat_dict')
            res['ptot_u'] = canon_tot(p.compute_totals(driver_scaling=False), 'flat_dict')
            # the same blocks asked for in another order (not the driver's own list)
            perm = self._perm(case)
            if perm is not None:
                res['ptot_perm'] = canon_tot(p.compute_totals(of=perm[0], wrt=perm[1],
                                                              driver_scaling=True), 'flat_dict')
            # values are not disturbed by derivative queries
            res['dv_s3'] = dd(d.get_design_var_values(driver_scaling=True))
            stage = 'mult'
            try:
                dvm = {n: np.array([float(unrat(x)) for x in case['mult'][n]]) for n in names_dv
                       if n in case['mult']}
                cm = {n: np.array([float(unrat(x)) for x in case['mult'][n]]) for n in names_con
                      if n in case['mult']}
                d.autoscaler.apply_mult_unscaling(dvm, cm)
                res['mult'] = {n: fl(v) for n, v in list(dvm.items()) + list(cm.items())}
            except Exception as e:
                res['mult_error'] = err_enum(e)
                res['mult_msg'] = str(e)[:160]
            stage = 'roundtrip'
            # model -> optimizer vector -> model without the optimizer touching the vector
            d.get_design_var_values(driver_scaling=True)
            d._set_design_vars(driver_scaling=True)
            res['rt_model'] = {}
            for v in case['dvs']:
                full = np.asarray(p.get_val(v['name'])).ravel()
                res['rt_model'][v['name']] = fl(sel(v, full.tolist()))
            stage = 'set'
            vec = d._vectors['design_var']
            ys = np.concatenate([[float(unrat(x)) for x in v['setv']] for v in case['dvs']])
            vec.set_data(ys, driver_scaling=True)
            d._set_design_vars(driver_scaling=True)
            res['set_model'] = {}
            for v in case['dvs']:
                full = np.asarray(p.get_val(v['name'])).ravel()
                res['set_model'][v['name']] = fl(sel(v, full.tolist()))
            res['set_back'] = dd(d.get_design_var_values(driver_scaling=True))
            # Driver._set_design_var(name, value): value in the declared driver units, not scaled
            res['set1_model'] = {}
            for v in case['dvs']:
                d._set_design_var(v['name'], np.array([float(unrat(x)) for x in v['setv']]))
                full = np.asarray(p.get_val(v['name'])).ravel()
                res['set1_model'][v['name']] = fl(sel(v, full.tolist()))
        except Exception as e:
            res = {'error': err_enum(e), 'stage': stage, 'msg': str(e)[:200]}
        return res

    @staticmethod
    def _perm(case):
        """(of, wrt) naming the driver's responses / design vars in a different order, or None."""
        resp = ['f'] + [c['name'] for c in case['cons']]
        dvs = [v['name'] for v in case['dvs']]
        if not case.get('perm', True):
            return None
        if len(resp) >= 2:
            return resp[::-1], dvs
        if len(dvs) >= 2:
            return resp, dvs[::-1]
        return None

    def _impl_qp(self, case):
        import openmdao.api as om
        n, m = case['n'], case['m']
        d = np.array([float(unrat(x)) for x in case['d']])
        t = np.array([float(unrat(x)) for x in case['t']])
        A = np.array([[float(unrat(x)) for x in r] for r in case['A']])
        b = np.array([float(unrat(x)) for x in case['b']])
        lo = np.array([float(unrat(x)) for x in case['lo']])
        hi = np.array([float(unrat(x)) for x in case['hi']])
        src_u = case['units'][0] if case['units'] else None

        class QP(om.ExplicitComponent):
            def setup(self):
                self.add_input('x', np.zeros(n), units=src_u)
                self.add_output('f', 0.0)
                self.add_output('g', np.zeros(max(m, 1)))
                self.declare_partials('*', '*')

            def compute(self, i, o):
                o['f'] = 0.5 * np.sum(d * (i['x'] - t) ** 2)
                o['g'] = A @ i['x']

            def compute_partials(self, i, J):
                J['f', 'x'] = (d * (i['x'] - t)).reshape(1, -1)
                J['g', 'x'] = A
        runs = []
        for sc in case['scalings']:
            r = {}
            try:
                p = om.Problem()
                p.model.add_subsystem('ivc', om.IndepVarComp('x', 0.5 * (lo + hi), units=src_u),
                                      promotes=['*'])
                p.model.add_subsystem('c', QP(), promotes=['*'])
                uf = 1.0
                kw = {}
                if case['units']:
                    kw['units'] = case['units'][1]
                    uf = float(UNIT_TAB[tuple(case['units'])][0])
                # bounds are declared in driver units
                p.model.add_design_var('x', lower=lo * uf, upper=hi * uf, **kw,
                                       **{k: to_float(v) for k, v in sc['x'].items()})
                if m:
                    p.model.add_constraint('g', upper=b, **{k: to_float(v) for k, v in sc['g'].items()})
                p.model.add_objective('f', **{k: to_float(v) for k, v in sc['f'].items()})
                p.driver = om.ScipyOptimizeDriver(optimizer='SLSQP', tol=1e-12, maxiter=300,
                                                  disp=False)
                p.setup()
                import contextlib
                import io
                with contextlib.redirect_stdout(io.StringIO()):
                    fail = p.run_driver()
                r['success'] = bool(p.driver.result.success) if hasattr(p.driver, 'result') \
                    else (not fail)
                r['x'] = [float(v) for v in np.asarray(p.get_val('x')).ravel()]
                try:
                    # dense direct least squares: scipy's iterative lsqr (the default) stops at atol=btol=1e-6
                    # of the driver-scaled system, which is 1e-3 relative on small components
                    dvm, cm = p.driver.compute_lagrange_multipliers(driver_scaling=False,
                                                                    use_sparse_solve=False)
                    r['mu'] = [float(v) for v in np.asarray(
                        dvm['x']['multipliers'] if 'x' in dvm else np.zeros(n)).ravel()]
                    r['lam'] = [float(v) for v in np.asarray(
                        cm['g']['multipliers'] if 'g' in cm else np.zeros(max(m, 1))).ravel()]
                except Exception as e:
                    r['mult_error'] = err_enum(e)
                    r['mult_msg'] = str(e)[:160]
            except Exception as e:
                r['error'] = err_enum(e)
                r['msg'] = str(e)[:160]
            runs.append(r)
        return {'runs': runs}

    # -- direct oracle -----------------------------------------------------------------------------
    @guarded
    def oracle(self, case, impl):
        if case['kind'] == 'das':
            return self._oracle_das(case, impl)
        if case['kind'] == 'qp':
            return self._oracle_qp(case, impl)
        return self._oracle_maps(case, impl)

    def _oracle_das(self, case, impl):
        """ref0 scales to 0 and ref to 1 under the returned adder/scaler (C20 clause 1), and a given
        scaler/adder is returned unchanged."""
        if 'error' in impl:
            return None
        sizes = [len(case[k]) for k in ('ref0', 'ref', 'adder', 'scaler') if isinstance(case[k], list)]
        n = max(sizes) if sizes else 1
        if any(s not in (1, n) for s in sizes):
            return None

        def bc(v, default):
            if v is None:
                return [default] * n
            one = lambda x: None if x in ('inf', '-inf', 'nan') else dec1(x)
            if isinstance(v, list):
                v = [one(x) for x in v]
                return v * n if len(v) == 1 and n > 1 else v
            return [one(v)] * n
        a = bc(impl['adder'], None)
        s = bc(impl['scaler'], None)
        if case['ref'] is not None or case['ref0'] is not None:
            ref = bc(case['ref'], F(1))
            ref0 = bc(case['ref0'], F(0))
            for r, r0, ai, si in zip(ref, ref0, a, s):
                if r == r0:
                    continue      # ref == ref0 is not a scaling (NumPy yields inf for arrays)
                if ai is None or si is None:
                    return {'what': 'determine_adder_scaler returned a non-finite adder/scaler',
                            'adder': impl['adder'], 'scaler': impl['scaler']}
                ex = is_pow2(r - r0)
                z = (r0 + ai) * si
                o = (r + ai) * si
                if not close(z, Num(F(0), (abs(r0) + abs(ai)) * abs(si), ex)) or \
                        not close(o, Num(F(1), (abs(r) + abs(ai)) * abs(si), ex)):
                    return {'what': 'determine_adder_scaler: ref0 does not scale to 0 / ref to 1',
                            'scaled_ref0': rat(z), 'scaled_ref': rat(o)}
        else:
            if a != bc(case['adder'], F(0)) or s != bc(case['scaler'], F(1)):
                return {'what': 'determine_adder_scaler changed the declared scaler/adder',
                        'adder': impl['adder'], 'scaler': impl['scaler']}
        return None

    def _oracle_maps(self, case, impl):
        try:
            exp = expected(case, self.INF)
        except Malformed:
            return None          # the property does not speak about invalid declarations
        if 'error' in impl:
            return {'what': 'valid declaration raised %s at %s' % (impl['error'], impl.get('stage')),
                    'msg': impl.get('msg')}

        def chk(key, table, what):
            for name, nums in table.items():
                got = impl[key].get(name)
                if nums is None:
                    continue
                if got is None or not close_list(got, nums):
                    return {'what': what, 'variable': name, 'api': key, 'got': got,
                            'expected': [rat(q.v) for q in nums]}
            return None
        dvn = [v['name'] for v in case['dvs']]
        cn = [c['name'] for c in case['cons']]
        pick = lambda tab, names: {n: tab[n] for n in names}
        checks = [
            ('dv_s', pick(exp['scaled'], dvn), 'scaled design variable value is not the affine image'),
            ('dv_s2', pick(exp['scaled'], dvn), 'second get_design_var_values differs (scaling applied twice?)'),
            ('dv_s3', pick(exp['scaled'], dvn), 'design variable values changed by compute_totals'),
            ('dv_u', pick(exp['unscaled'], dvn), 'unscaled design variable value is not the model value in driver units'),
            ('con_s', pick(exp['scaled'], cn), 'scaled constraint value is not the affine image'),
            ('con_s2', pick(exp['scaled'], cn), 'second get_constraint_values differs'),
            ('con_u', pick(exp['unscaled'], cn), 'unscaled constraint value is not the model value in driver units'),
            ('obj_s', pick(exp['scaled'], ['f']), 'scaled objective value is not the affine image'),
            ('obj_s2', pick(exp['scaled'], ['f']), 'second get_objective_values differs'),
            ('obj_u', pick(exp['unscaled'], ['f']), 'unscaled objective value is not the model value in driver units'),
            ('dv_lower', pick(exp['lower'], dvn), 'scaled design variable lower bound is not the image / sentinel'),
            ('dv_upper', pick(exp['upper'], dvn), 'scaled design variable upper bound is not the image / sentinel'),
            ('con_lower', pick(exp['lower'], cn), 'scaled constraint lower bound is not the image / sentinel'),
            ('con_upper', pick(exp['upper'], cn), 'scaled constraint upper bound is not the image / sentinel'),
            ('con_equals', {n: exp['equals'].get(n) for n in cn}, 'scaled equality target is not the image'),
            ('rt_model', exp['rt_model'], 'get_design_var_values then _set_design_vars changed the model (unscale o scale != id)'),
            ('set_model', exp['set_model'], 'model value after _set_design_vars is not the unscaled optimizer value'),
            ('set1_model', exp['set1_model'], 'model value after _set_design_var is not the value converted from driver units'),
            ('set_back', exp['set_back'], 'set -> get round trip through the driver does not return the optimizer value'),
        ]
        for key, table, what in checks:
            r = chk(key, table, what)
            if r is not None:
                return r
        known_like = []     # regressions of defects fixed in /repo (52a86c0, e567ddf): reported last
        for n in cn:
            if exp['equals'].get(n) is None and any(x != 'nan' for x in impl['con_equals'][n]):
                return {'what': 'equality vector of an inequality constraint is not nan', 'variable': n}
        jchecks = [('tot_s', exp['jac_s'], 'scaled total derivative block != s_f J / s_x'),
                   ('tot_s2', exp['jac_s'], 'second _compute_totals differs (block scaled twice?)'),
                   ('ptot_s', exp['jac_s'], 'Problem.compute_totals(driver_scaling=True) block != s_f J / s_x'),
                   ('ptot_u', exp['jac_u'], 'unscaled total derivative block != model block in driver units')]
        if 'ptot_perm' in impl:
            got = impl['ptot_perm']
            tab = exp['jac_s']

            def same(t):
                return len(got) == len(t) and all(
                    got.get('%s|%s' % k) is not None and len(got['%s|%s' % k]) == len(rows) and
                    all(close_list(a, b) for a, b in zip(got['%s|%s' % k], rows)) for k, rows in t.items())
            if not same(tab):
                hasu = any(v.get('units') and unit_of(v)[0] != 1 for _, v in vois(case))
                if hasu and same(exp['jac_nounits']):
                    known_like.append({
                        'what': 'compute_totals(of/wrt in non-driver order, driver_scaling=True) applies '
                                'the scalers but drops the unit conversion', 'api': 'ptot_perm',
                        'units_dropped': True, 'of_wrt': list(self._perm(case))})
                else:
                    jchecks.append(('ptot_perm', tab, 'compute_totals(of/wrt in non-driver order) block '
                                                      '!= s_f J / s_x'))
        for key, tab, what in jchecks:
            got = impl[key]
            if 'shape' in got:
                return {'what': 'total jacobian array has the wrong shape', 'api': key, 'got': got['shape']}
            for (rn, dn), rows in tab.items():
                g = got.get('%s|%s' % (rn, dn))
                ok = g is not None and len(g) == len(rows) and all(close_list(a, b) for a, b in zip(g, rows))
                if not ok:
                    return {'what': what, 'api': key, 'of': rn, 'wrt': dn, 'fmt': case['fmt'], 'got': g,
                            'expected': [[rat(q.v) for q in r] for r in rows]}
            if len([k for k in got if k != 'shape']) != len(tab):
                return {'what': 'total jacobian has unexpected blocks', 'api': key, 'got': sorted(got)}
        # multipliers
        if 'mult_error' in impl:
            arr = [n for n in exp['aff'] if self._is_array_scaler(case, n)]
            f = {'what': 'apply_mult_unscaling raised %s' % impl['mult_error'],
                 'mult': 'raised', 'error': impl['mult_error'], 'array_scaler_vars': arr,
                 'msg': impl.get('mult_msg')}
            if arr and impl['mult_error'] == 'ambiguous':
                known_like.insert(0, f)
            else:
                return f
        else:
            r = chk('mult', exp['mult'], 'unscaled multiplier != lambda_s * s / s_f (with unit factors)')
            if r is not None:
                hasu = any(exp['aff'][n][2] != 1 for n in list(case['mult']) + ['f'])
                if hasu and chk('mult', exp['mult_nounits'], '') is None:
                    known_like.append({
                        'what': 'apply_mult_unscaling ignores the unit conversion factor of the '
                                'declared units', 'mult': 'unit_factor', 'variable': r['variable'],
                        'got': r['got'], 'expected': r['expected']})
                else:
                    r['mult'] = 'wrong'
                    return r
        return known_like[0] if known_like else None

    @staticmethod
    def _is_array_scaler(case, name):
        for k, v in vois(case):
            if v['name'] == name:
                sc = v['scaling']
                return vsize(v) > 1 and any(isinstance(sc.get(q), list) for q in ('scaler', 'ref', 'ref0'))
        return False

    def _qp_usable(self, case, impl):
        """Model-space data for the runs that converged to a non-degenerate KKT point."""
        n, m = case['n'], case['m']
        d = np.array([float(unrat(x)) for x in case['d']])
        t = np.array([float(unrat(x)) for x in case['t']])
        A = np.array([[float(unrat(x)) for x in r] for r in case['A']])
        b = np.array([float(unrat(x)) for x in case['b']])
        lo = np.array([float(unrat(x)) for x in case['lo']])
        hi = np.array([float(unrat(x)) for x in case['hi']])
        ux = float(UNIT_TAB[tuple(case['units'])][0]) if case['units'] else 1.0
        out = []
        for r, sc_decl in zip(impl['runs'], case['scalings']):
            if 'error' in r or not r.get('success') or 'lam' not in r:
                out.append(None)
                continue
            x = np.array(r['x'])
            # the driver decides activity on driver-scaled values with tolerance 1e-6: only runs whose
            # active set is unambiguous at that tolerance (10x margin either way) are judged
            sx = np.array([float(q) for q in affine(sc_decl['x'], n)[1]]) * ux
            sg = np.array([float(q) for q in affine(sc_decl['g'], max(m, 1))[1]])
            gaps = np.concatenate([np.abs(sx * (x - lo)), np.abs(sx * (x - hi))] +
                                  ([np.abs(sg * (A @ x - b))] if m else []))
            if np.any((gaps > 1e-7) & (gaps < 1e-4)):
                out.append(None)
                continue
            if np.any(x < lo - 1e-6) or np.any(x > hi + 1e-6) or (m and np.any(A @ x > b + 1e-6)):
                out.append(None)
                continue
            act_g = (np.abs(sg * (A @ x - b)) <= 1e-7) if m else np.zeros(len(A), dtype=bool)
            at_lo = np.abs(sx * (x - lo)) <= 1e-7
            at_hi = np.abs(sx * (x - hi)) <= 1e-7
            act_x = at_lo | at_hi
            rows = [A[i] for i in range(len(A)) if act_g[i]] + \
                   [np.eye(n)[j] for j in range(n) if act_x[j]]
            rhs = [b[i] for i in range(len(A)) if act_g[i]] + \
                  [lo[j] if at_lo[j] else hi[j] for j in range(n) if act_x[j]]
            nondeg = True
            xs, nu = t.copy(), np.zeros(0)
            if rows:
                G = np.array(rows)
                sv = np.linalg.svd(G, compute_uv=False)
                nondeg = (len(rows) <= n) and sv[-1] > 1e-2
                if nondeg:
                    # exact optimum and multipliers for this active set: D x + G^T nu = D t, G x = rhs
                    k = len(rows)
                    K = np.block([[np.diag(d), G.T], [G, np.zeros((k, k))]])
                    sol = np.linalg.solve(K, np.concatenate([d * t, np.array(rhs)]))
                    xs, nu = sol[:n], sol[n:]
            if not nondeg:
                out.append({'x': x, 'nondeg': False, 'act_g': act_g, 'act_x': act_x})
                continue
            if np.max(np.abs(x - xs)) > 1e-6 * (1 + np.max(np.abs(xs))):
                out.append(None)          # the optimizer stopped away from the optimum of its active set
                continue
            # strict complementarity, otherwise the active set itself is ambiguous
            if len(nu) and np.min(np.abs(nu)) < 1e-3:
                nondeg = False
            lam_x = np.zeros(len(A))
            mu_x = np.zeros(n)
            idx = 0
            for i in range(len(A)):
                if act_g[i]:
                    lam_x[i] = nu[idx]
                    idx += 1
            for j in range(n):
                if act_x[j]:
                    mu_x[j] = nu[idx]
                    idx += 1
            lam = np.array(r['lam']) if m else np.zeros(len(A))
            # model units are the source units; `ux` only to recognise the declared-units answer
            out.append({'x': x, 'gf': d * (x - t), 'G': A, 'ux': ux, 'act_g': act_g, 'act_x': act_x,
                        'nondeg': nondeg, 'lam': lam, 'mu': np.array(r['mu']), 'lam_exact': lam_x,
                        'mu_exact': mu_x})
        return out

    def _oracle_qp(self, case, impl):
        for k, r in enumerate(impl['runs']):
            if 'mult_error' in r:
                arr = any(isinstance(v, list) for sc in case['scalings'][k].values() for v in sc.values())
                return {'what': 'compute_lagrange_multipliers(driver_scaling=False) raised %s'
                        % r['mult_error'], 'mult': 'raised', 'error': r['mult_error'],
                        'array_scaler_vars': ['x'] if arr else [], 'msg': r.get('mult_msg')}
        us = self._qp_usable(case, impl)
        known_like = None
        conv = []
        for k, u in enumerate(us):
            conv.append(None)
            if u is None or not u['nondeg']:
                continue
            # reported multipliers against the exact multipliers of the QP in model (source) units
            sc = 1.0 + max(np.max(np.abs(u['lam_exact'])), np.max(np.abs(u['mu_exact'])))
            ok_l = np.max(np.abs(u['lam'] - u['lam_exact'])) <= QP_TOL * sc
            if ok_l and np.max(np.abs(u['mu'] - u['mu_exact'])) <= QP_TOL * sc:
                conv[-1] = 'model'
                continue
            # per declared driver unit of x: bound multipliers divided by the unit factor
            if case['units'] and ok_l and \
                    np.max(np.abs(u['mu'] - u['mu_exact'] / u['ux'])) <= QP_TOL * sc / u['ux']:
                conv[-1] = 'declared'
                known_like = {'what': 'compute_lagrange_multipliers(driver_scaling=False): multipliers are '
                                      'per declared driver unit, the unit conversion factor is not unscaled',
                              'mult': 'unit_factor', 'run': k, 'units': case['units'],
                              'mu': [float(v) for v in u['mu']],
                              'mu_model_units': [float(v) for v in u['mu_exact']]}
                continue
            return {'what': 'reported model-unit multipliers are not the multipliers of the problem',
                    'run': k, 'scaling': case['scalings'][k],
                    'lam': [float(v) for v in u['lam']], 'lam_exact': [float(v) for v in u['lam_exact']],
                    'mu': [float(v) for v in u['mu']], 'mu_exact': [float(v) for v in u['mu_exact']]}
        if all(u is not None and u['nondeg'] for u in us) and conv[0] == conv[1]:
            a, b = us
            sc = 1.0 + max(np.max(np.abs(a['lam'])), np.max(np.abs(a['mu'])))
            if np.max(np.abs(a['lam'] - b['lam'])) > 2 * QP_TOL * sc or \
                    np.max(np.abs(a['mu'] - b['mu'])) > 2 * QP_TOL * sc:
                return {'what': 'model-unit multipliers differ between two scalings of the same QP',
                        'lam': [list(map(float, a['lam'])), list(map(float, b['lam']))],
                        'mu': [list(map(float, a['mu'])), list(map(float, b['mu']))]}
        return known_like

    @guarded
    def signature(self, case, impl, failure):
        sig = {'kind': case['kind'], 'what': failure.get('what', '')}
        if failure.get('mult') == 'raised':
            sig = {'kind': case['kind'], 'mult': 'raised', 'error': failure.get('error'),
                   'array_scaler': bool(failure.get('array_scaler_vars'))}
        elif failure.get('units_dropped'):
            sig = {'kind': case['kind'], 'api': failure.get('api'), 'units_dropped': True}
        elif failure.get('mult') == 'unit_factor':
            sig = {'kind': case['kind'], 'mult': 'unit_factor', 'units_declared': True}
        return sig

    @guarded
    def nontrivial(self, case, impl):
        if case['kind'] == 'das':
            return case['ref'] is not None or case['ref0'] is not None
        if case['kind'] == 'qp':
            us = self._qp_usable(case, impl)
            return all(u is not None and u['nondeg'] for u in us) and \
                case['scalings'][0] != case['scalings'][1]
        return any(v['scaling'] or v.get('units') for _, v in vois(case)) and 'error' not in impl

    @guarded
    def bucket(self, case, impl):
        out = ['kind=' + case['kind']]
        if case['kind'] == 'das':
            out.append('das_' + ('error=' + impl['error'] if 'error' in impl else 'ok'))
            out.append('das_array' if any(isinstance(case[k], list) for k in ('ref', 'ref0', 'adder', 'scaler'))
                       else 'das_scalar')
            return out
        if case['kind'] == 'qp':
            us = self._qp_usable(case, impl)
            for r, u in zip(impl['runs'], us):
                if 'mult_error' in r:
                    out.append('qp_mult_error=' + r['mult_error'])
                elif u is None:
                    out.append('qp_run_not_converged')
                elif not u['nondeg']:
                    out.append('qp_run_degenerate_skipped')
                else:
                    out.append('qp_run_checked')
                    ok = np.max(np.abs(u['mu'] - u['mu_exact'])) <= QP_TOL * (1 + np.max(np.abs(u['mu_exact'])))
                    out.append('qp_multipliers_in_model_units' if ok else 'qp_multipliers_other_units')
                    out.append('qp_active=%d' % (int(u['act_g'].sum()) + int(u['act_x'].sum())))
            if all(u is not None and u['nondeg'] for u in us):
                out.append('qp_pair_compared')
            out.append('qp_m=%d' % case['m'])
            if case['units']:
                out.append('qp_units')
            return out
        out.append('fmt=' + case['fmt'])
        if case.get('malformed'):
            out.append('malformed=' + case['malformed'])
        out.append('impl_error=%s@%s' % (impl['error'], impl.get('stage')) if 'error' in impl else 'impl_ok')
        if case['via_options']:
            out.append('declared_via_set_options')
        for kind, v in vois(case):
            sc = v['scaling']
            out.append('%s:scaling=%s' % (kind, '+'.join(sorted(sc)) or 'none'))
            if any(isinstance(x, list) for x in sc.values()):
                out.append('%s:array_scaling' % kind)
            try:
                a, s, ex = affine(sc, vsize(v))
                if any(q < 0 for q in s):
                    out.append('%s:negative_scaler' % kind)
                out.append('%s:%s' % (kind, 'exact' if ex and not v.get('units') else 'tolerance'))
            except Malformed:
                pass
            if v.get('units'):
                out.append('%s:units=%s->%s' % (kind, v['units'][0], v['units'][1]))
            if v.get('indices') is not None:
                out.append('%s:indices' % kind)
            for key in ('lower', 'upper'):
                b = v.get(key)
                if isinstance(b, list):
                    inf = [x in ('inf', '-inf') or abs(unrat(x)) >= self.INF for x in b]
                    out.append('%s:bound_array_%s' % (kind, 'partly_inf' if any(inf) and not all(inf)
                                                      else ('all_inf' if all(inf) else 'finite')))
                elif b is not None:
                    out.append('%s:bound_scalar' % kind)
            if v.get('equals') is not None:
                out.append('constraint:equals')
        if 'mult_error' in impl:
            out.append('mult_error=' + impl['mult_error'])
        if 'ptot_perm' in impl:
            out.append('totals_in_non_driver_order_queried')
        return out

    # -- model -------------------------------------------------------------------------------------
    def _voi_request(self, kind, v, vals, drop):
        f, o, has_u = unit_of(v)
        INF2 = rat(self.INF * 2)

        def b(x):
            if x is None:
                return None
            m = {'inf': INF2, '-inf': '-' + INF2}
            if isinstance(x, list):
                return [m.get(q, q) for q in x]
            return m.get(x, x)
        req = {'op': 'voi', 'x': rats(sel(v, vals[v['name']])), 'drop_default': drop,
               'unit': [rat(f), rat(o)] if has_u else None,
               'back': [rat(1 / f), rat(-o * f)] if has_u else None,
               'y': v.get('setv') if kind == 'design_var' else None,
               'lower': b(v.get('lower')), 'upper': b(v.get('upper')), 'equals': b(v.get('equals')),
               'bounds': kind != 'objective', 'swap_neg': bool(getattr(self, 'SWAP_NEG', True))}
        for k in ('ref0', 'ref', 'adder', 'scaler'):
            req[k] = v['scaling'].get(k)
        return req

    @guarded
    def model_requests(self, case, impl):
        if case['kind'] == 'das':
            return [{'op': 'das', 'ref0': case['ref0'], 'ref': case['ref'], 'adder': case['adder'],
                     'scaler': case['scaler']}]
        if case['kind'] == 'qp':
            return []
        vals = model_values(case)
        reqs = []
        for kind, v in vois(case):
            # set_design_var_options stores a total scaler of 1 / adder of 0 as None
            drop = bool(case['via_options'] and kind == 'design_var' and v['scaling'])
            reqs.append(self._voi_request(kind, v, vals, drop))
        if case.get('malformed'):
            return reqs
        # jacobian: model blocks restricted to the declared indices
        Jm = model_jac(case, vals)
        resp = [(k, r) for k, r in vois(case) if k != 'design_var']
        resp = [resp[-1]] + resp[:-1]

        def decl(kind, v):
            # the declaration; the driver derives the stored total_scaler from it
            d = {k: v['scaling'].get(k) for k in ('ref0', 'ref', 'adder', 'scaler')}
            d['drop_default'] = bool(case['via_options'] and kind == 'design_var' and v['scaling'])
            return d
        blocks = []
        for k, r in resp:
            for v in case['dvs']:
                rows = Jm[r['name'], v['name']]
                if r['name'] != 'f':
                    rows = sel(r, rows)
                blocks.append([r['name'], v['name'], [rats(sel(v, row)) for row in rows]])
        meta = {'objective': [], 'constraint': [], 'design_var': []}
        uo, ui = [], []
        for k, v in vois(case):
            meta[k].append([v['name'], decl(k, v)])
            f, o, has_u = unit_of(v)
            if has_u and f != 1:
                (ui if k == 'design_var' else uo).append([v['name'], rat(f)])
        base = dict(meta, op='jac', units_out=uo, units_in=ui, blocks=blocks, custom=False)
        reqs.append(dict(base, layout='flat' if case['fmt'] == 'flat_dict' else 'nested',
                         driver_scaling=True))
        reqs.append(dict(base, layout='flat', driver_scaling=False))
        if self._perm(case) is not None:
            reqs.append(dict(base, layout='flat', driver_scaling=True, custom=True))
        byname = {v['name']: (k, v) for k, v in vois(case)}
        for name, lam in case['mult'].items():
            def uf(v):
                f, o, has_u = unit_of(v)
                return rat(f) if has_u else None
            reqs.append({'op': 'mult', 'obj': decl(*byname['f']), 's': decl(*byname[name]),
                         'obj_unit': uf(byname['f'][1]), 's_unit': uf(byname[name][1]), 'mult': lam})
        return reqs

    @guarded
    def compare(self, case, impl, answers):
        if case['kind'] == 'das':
            a = answers[0]
            if 'error' in impl:
                if a.get('ok'):
                    return 'implementation raised %s, model returned %s' % (impl['error'], a)
                if a['err'] != impl['error']:
                    return 'implementation raised %s, model %s' % (impl['error'], a['err'])
                return None
            if not a.get('ok'):
                return 'model raised %s, implementation returned %s' % (a['err'], impl)
            for k in ('adder', 'scaler'):
                g, mv = impl[k], a[k]
                if isinstance(g, list) != isinstance(mv, list):
                    return '%s: float/array kind differs: impl %s model %s' % (k, g, mv)
                gl = g if isinstance(g, list) else [g]
                ml = mv if isinstance(mv, list) else [mv]
                if len(gl) != len(ml):
                    return '%s: length differs' % k
                for x, y in zip(gl, ml):
                    if x in ('inf', '-inf', 'nan'):
                        return None       # division by a zero array element: outside the model
                    y = unrat(y)
                    if not close(unrat(x), Num(y, abs(y), is_pow2(y) or k == 'adder')):
                        return '%s: impl %s model %s' % (k, g, mv)
            return None
        if case['kind'] == 'qp':
            return None
        nv = len(vois(case))
        return self.compare_maps(case, impl, answers[:nv], answers[nv:])

    def compare_maps(self, case, impl, ans_voi, ans_rest):
        names = [v['name'] for _, v in vois(case)]
        kinds = [k for k, _ in vois(case)]
        bad = [a for a in ans_voi if not a.get('ok')]
        if 'error' in impl:
            if not bad:
                return 'implementation raised %s at %s, model accepted' % (impl['error'], impl.get('stage'))
            if impl['error'] not in [a['err'] for a in bad]:
                return 'implementation raised %s, model %s' % (impl['error'], [a['err'] for a in bad])
            return None
        if bad:
            return 'model raised %s (%s), implementation accepted' % (bad[0]['err'], bad[0]['stage'])
        try:
            exp = expected(case, self.INF)
        except Malformed:
            # accepted by both although outside the property (e.g. a length-1 array that NumPy
            # broadcasts): compare the values with the tolerance only
            exp = None

        class _Any(dict):
            def __missing__(self, k):
                return None
        if exp is None:
            exp = {k: _Any() for k in ('scaled', 'unscaled', 'lower', 'upper', 'equals', 'set_model',
                                       'rt_model', 'set1_model',
                                       'mult', 'mult_nounits', 'jac_s', 'jac_u', 'jac_nounits')}

        def cl(got, modelv, nums):
            # implementation vs model with the magnitudes / exactness of the declaration
            if len(got) != len(modelv):
                return False
            if nums is None:
                nums = [None] * len(got)
            for g, mv, q in zip(got, modelv, nums):
                if g in ('nan', 'inf', '-inf'):
                    return False
                mv = unrat(mv)
                q = Num(mv, abs(mv), False) if q is None else Num(mv, q.mag, q.exact)
                if not close(unrat(g), q):
                    return False
            return True
        for name, kind, a in zip(names, kinds, ans_voi):
            pre = {'design_var': 'dv', 'constraint': 'con', 'objective': 'obj'}[kind]
            if not cl(impl[pre + '_s'][name], a['scaled'], exp['scaled'][name]):
                return '%s scaled: impl %s model %s' % (name, impl[pre + '_s'][name], a['scaled'])
            if not cl(impl[pre + '_u'][name], a['unscaled'], exp['unscaled'][name]):
                return '%s unscaled: impl %s model %s' % (name, impl[pre + '_u'][name], a['unscaled'])
            if kind == 'objective':
                continue
            for key in ('lower', 'upper'):
                if not cl(impl['%s_%s' % (pre, key)][name], a[key], exp[key][name]):
                    return '%s %s bound: impl %s model %s' % (name, key, impl['%s_%s' % (pre, key)][name], a[key])
            if kind == 'constraint':
                ge = impl['con_equals'][name]
                if a['equals'] is None:
                    if any(x != 'nan' for x in ge):
                        return '%s equals: impl %s model nan' % (name, ge)
                elif not cl(ge, a['equals'], exp['equals'][name]):
                    return '%s equals: impl %s model %s' % (name, ge, a['equals'])
            if kind == 'design_var':
                if not cl(impl['set_model'][name], a['set'], exp['set_model'][name]):
                    return '%s set: impl %s model %s' % (name, impl['set_model'][name], a['set'])
                if not cl(impl['rt_model'][name], a['roundtrip'], exp['rt_model'][name]):
                    return '%s get->set: impl %s model %s' % (name, impl['rt_model'][name], a['roundtrip'])
                if not cl(impl['set1_model'][name], a['set_units'], exp['set1_model'][name]):
                    return '%s _set_design_var: impl %s model %s' % (name, impl['set1_model'][name], a['set_units'])
        if case.get('malformed'):
            return None
        jac_s, jac_u = ans_rest[0], ans_rest[1]
        jl = [('tot_s', jac_s, exp['jac_s']), ('ptot_u', jac_u, exp['jac_u'])]
        nj = 2
        if self._perm(case) is not None:
            jl.append(('ptot_perm', ans_rest[2], exp['jac_s']))
            nj = 3
        for key, a, tab in jl:
            if not a.get('ok'):
                return 'model jac raised %s' % a.get('err')
            for rn, dn, blk in a['blocks']:
                g = impl[key].get('%s|%s' % (rn, dn))
                nums = tab[rn, dn] or [None] * len(blk)
                if g is None or len(g) != len(blk) or not all(cl(x, y, z) for x, y, z in zip(g, blk, nums)):
                    return 'jac %s %s|%s: impl %s model %s' % (key, rn, dn, g, blk)
        mnames = list(case['mult'])
        for name, a in zip(mnames, ans_rest[nj:]):
            if 'mult_error' in impl:
                continue
            if not a.get('ok'):
                return 'model mult raised %s for %s, implementation returned %s' % (a['err'], name, impl['mult'][name])
            if not cl(impl['mult'][name], a['v'], exp['mult'][name]):
                return 'mult %s: impl %s model %s' % (name, impl['mult'][name], a['v'])
        if 'mult_error' in impl:
            errs = [a['err'] for a in ans_rest[nj:] if not a.get('ok')]
            if impl['mult_error'] not in errs:
                return 'implementation raised %s in apply_mult_unscaling, model %s' % (impl['mult_error'], errs)
        return None


PROP = C20()
