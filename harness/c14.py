"""C14 — ExecComp evaluates its expressions and their exact partials."""
import math
import os
import warnings
from fractions import Fraction

import numpy as np

from common import Property, TieBroken, rat, unrat, LEAN

TOL = 1e-9
VMAX = 1e4           # bound on every intermediate value / tangent of a generated expression

UNARY = ['abs', 'acos', 'acosh', 'arccos', 'arccosh', 'arcsin', 'arcsinh', 'arctan', 'asin', 'asinh',
         'atan', 'cos', 'cosh', 'erf', 'erfc', 'exp', 'expm1', 'log', 'log10', 'log1p', 'sin',
         'sinh', 'tan', 'tanh']
BINARY = ['arctan2', 'fmax', 'fmin', 'maximum', 'minimum', 'power']
ALIAS = {'asin': 'arcsin', 'acos': 'arccos', 'atan': 'arctan', 'asinh': 'arcsinh',
         'acosh': 'arccosh'}
SELECT = ('maximum', 'minimum', 'fmax', 'fmin')

UNIT_PAIRS = [(None, None, 1.0), ('m', 'm', 1.0), ('m', 'cm', 0.01), ('m', 'km', 1000.0),
              ('s', 'ms', 0.001), ('kg', 'g', 0.001)]
COMP_UNIT_SRC = {'m': [('m', 1.0), ('cm', 0.01), ('km', 1000.0)]}


class Reject(Exception):
    """Generated expression is not well-defined / well-conditioned at the sampled point."""


# ------------------------------------------------------------------------------------------------
# the harness's own forward-mode AD (independent of ExecComp and of the Lean model)

def _erf(v):
    return np.vectorize(math.erf)(v)


def _erfc(v):
    return np.vectorize(math.erfc)(v)


_SQPI = 2.0 / math.sqrt(math.pi)
_LN10 = math.log(10.0)

# name -> (f, f', guard)
U_TABLE = {
    'abs': (np.abs, np.sign, lambda v: np.abs(v) > 0.05),
    'sin': (np.sin, np.cos, None),
    'cos': (np.cos, lambda v: -np.sin(v), None),
    'tan': (np.tan, lambda v: 1.0 / np.cos(v) ** 2, lambda v: np.abs(np.cos(v)) > 0.2),
    'arcsin': (np.arcsin, lambda v: 1.0 / np.sqrt(1.0 - v * v), lambda v: np.abs(v) < 0.9),
    'arccos': (np.arccos, lambda v: -1.0 / np.sqrt(1.0 - v * v), lambda v: np.abs(v) < 0.9),
    'arctan': (np.arctan, lambda v: 1.0 / (1.0 + v * v), None),
    'sinh': (np.sinh, np.cosh, lambda v: np.abs(v) < 5.0),
    'cosh': (np.cosh, np.sinh, lambda v: np.abs(v) < 5.0),
    'tanh': (np.tanh, lambda v: 1.0 - np.tanh(v) ** 2, lambda v: np.abs(v) < 5.0),
    'arcsinh': (np.arcsinh, lambda v: 1.0 / np.sqrt(v * v + 1.0), None),
    'arccosh': (np.arccosh, lambda v: 1.0 / np.sqrt(v * v - 1.0), lambda v: v > 1.1),
    'exp': (np.exp, np.exp, lambda v: (v < 5.0) & (v > -20.0)),
    'expm1': (np.expm1, np.exp, lambda v: (v < 5.0) & (v > -20.0) & (np.abs(v) > 0.01)),
    'log': (np.log, lambda v: 1.0 / v, lambda v: v > 0.05),
    'log10': (np.log10, lambda v: 1.0 / (v * _LN10), lambda v: v > 0.05),
    'log1p': (np.log1p, lambda v: 1.0 / (1.0 + v), lambda v: (v > -0.9) & (np.abs(v) > 0.01)),
    'erf': (_erf, lambda v: _SQPI * np.exp(-v * v), lambda v: np.abs(v) < 2.5),
    'erfc': (_erfc, lambda v: -_SQPI * np.exp(-v * v), lambda v: np.abs(v) < 2.5),
}


def _sel_a(isMax):
    return (lambda a, b: (a > b).astype(float)) if isMax else (lambda a, b: (a < b).astype(float))


def _sel_b(isMax):
    return (lambda a, b: (b > a).astype(float)) if isMax else (lambda a, b: (b < a).astype(float))


_GAP = lambda a, b: np.abs(a - b) > 0.05
B_TABLE = {
    'maximum': (np.maximum, _sel_a(True), _sel_b(True), _GAP),
    'fmax': (np.fmax, _sel_a(True), _sel_b(True), _GAP),
    'minimum': (np.minimum, _sel_a(False), _sel_b(False), _GAP),
    'fmin': (np.fmin, _sel_a(False), _sel_b(False), _GAP),
    'arctan2': (np.arctan2, lambda y, x: x / (x * x + y * y), lambda y, x: -y / (x * x + y * y),
                lambda y, x: (x * x + y * y > 0.05) & ~((x < 0.05) & (np.abs(y) < 0.05))),
    'power': (np.power, lambda a, b: b * np.power(a, b - 1.0),
              lambda a, b: np.power(a, b) * np.log(a),
              lambda a, b: (a > 0.05) & (np.abs(b) <= 4.0)),
}


class DV(object):
    """value `v` (ndarray) with tangents `d` of shape (N,) + v.shape, one per input entry."""
    __slots__ = ('v', 'd')

    def __init__(self, v, d):
        self.v = np.asarray(v, dtype=float)
        self.d = np.asarray(d, dtype=float)
        if not (np.all(np.isfinite(self.v)) and np.all(np.isfinite(self.d))):
            raise Reject('non-finite')
        if self.v.size and (np.max(np.abs(self.v)) > VMAX or
                            (self.d.size and np.max(np.abs(self.d)) > VMAX)):
            raise Reject('magnitude')


def _pad(d, nd):
    sh = d.shape[1:]
    return d.reshape((d.shape[0],) + (1,) * (nd - len(sh)) + sh)


def _need(cond, what):
    if not np.all(cond):
        raise Reject(what)


class Evaluator(object):
    """Evaluates an expression tree at one point: values, full Jacobian, selector pattern."""

    def __init__(self, env, n_total):
        self.env = env          # name -> DV
        self.N = n_total
        self.sel = []           # which argument every max/min selects (to detect branch flips)

    def const(self, c):
        v = np.asarray(c, dtype=float)
        return DV(v, np.zeros((self.N,) + v.shape))

    def ew2(self, a, b, f, fa, fb):
        with np.errstate(all='ignore'):
            v = np.asarray(f(a.v, b.v), dtype=float)
            nd = v.ndim
            d = fa(a.v, b.v) * _pad(a.d, nd) + fb(a.v, b.v) * _pad(b.d, nd)
        return DV(v, np.broadcast_to(d, (self.N,) + v.shape))

    def ev(self, t):
        k = t[0]
        if k == 'lit':
            return self.const(t[1])
        if k == 'const':
            return self.const(math.pi if t[1] == 'pi' else math.e)
        if k == 'var':
            return self.env[t[1]]
        if k == 'neg':
            a = self.ev(t[1])
            return DV(-a.v, -a.d)
        if k == 'bin':
            op = t[1]
            a = self.ev(t[2])
            b = self.ev(t[3])
            one = lambda x, y: np.ones(np.broadcast(x, y).shape)
            if op == '+':
                return self.ew2(a, b, np.add, one, one)
            if op == '-':
                return self.ew2(a, b, np.subtract, one, lambda x, y: -one(x, y))
            if op == '*':
                return self.ew2(a, b, np.multiply, lambda x, y: y + 0 * x, lambda x, y: x + 0 * y)
            _need(np.abs(b.v) > 0.05, 'div')
            return self.ew2(a, b, np.divide, lambda x, y: 1.0 / y + 0 * x,
                            lambda x, y: -x / (y * y))
        if k == 'powi':
            a = self.ev(t[1])
            n = t[2]
            if n < 0:
                _need(np.abs(a.v) > 0.2, 'negpow')
            with np.errstate(all='ignore'):
                return DV(a.v ** n, n * a.v ** (n - 1) * a.d)
        if k in ('call1',):
            f, fp, g = U_TABLE[ALIAS.get(t[1], t[1])]
            a = self.ev(t[2])
            if g is not None:
                _need(g(a.v), t[1])
            with np.errstate(all='ignore'):
                return DV(f(a.v), fp(a.v) * a.d)
        if k in ('call2', 'pow'):
            name = 'power' if k == 'pow' else t[1]
            a = self.ev(t[2] if k == 'call2' else t[1])
            b = self.ev(t[3] if k == 'call2' else t[2])
            f, fa, fb, g = B_TABLE[name]
            _need(g(a.v, b.v), name)
            if name in SELECT:
                self.sel.append(np.broadcast_to(a.v > b.v, np.broadcast(a.v, b.v).shape)
                                .ravel().tolist())
            return self.ew2(a, b, f, fa, fb)
        if k == 'sum':
            a = self.ev(t[1])
            return DV(np.sum(a.v), a.d.reshape(self.N, -1).sum(axis=1))
        if k in ('dot', 'inner'):
            a = self.ev(t[1])
            b = self.ev(t[2])
            return DV(np.dot(a.v, b.v), a.d @ b.v + b.d @ a.v)
        if k == 'idx':
            a = self.ev(t[1])
            return DV(a.v[t[2]], a.d[:, t[2]])
        if k == 'rev':
            a = self.ev(t[1])
            return DV(a.v[::-1], a.d[:, ::-1])
        # ---- outside the Lean model (differential only) -------------------------------------------
        if k == 'mk':
            n = t[2]
            c = {'arange': np.arange(n), 'ones': np.ones(n), 'zeros': np.zeros(n),
                 'linspace': np.linspace(0.5, 1.5, n)}[t[1]]
            return self.const(c)
        if k == 'red':
            a = self.ev(t[2])
            flat = a.v.ravel()
            dfl = a.d.reshape(self.N, -1)
            if t[1] == 'prod':
                v = np.prod(flat)
                d = np.zeros(self.N)
                for i in range(flat.size):
                    d = d + np.prod(np.delete(flat, i)) * dfl[:, i]
                return DV(v, d)
            srt = np.sort(flat)
            if flat.size > 1:
                _need((srt[-1] - srt[-2] > 0.05) if t[1] == 'max' else (srt[1] - srt[0] > 0.05),
                      t[1])
            i = int(np.argmax(flat) if t[1] == 'max' else np.argmin(flat))
            self.sel.append([i])
            return DV(flat[i], dfl[:, i])
        if k == 'diff':
            a = self.ev(t[1])
            return DV(np.diff(a.v), np.diff(a.d, axis=1))
        if k == 'mat':
            M = self.ev(t[2])
            a = self.ev(t[3])
            f = {'matmul': np.matmul, 'dot': np.dot, 'tensordot': lambda m, x: np.tensordot(m, x, 1)}[t[1]]
            d = np.array([f(M.d[i], a.v) + f(M.v, a.d[i]) for i in range(self.N)])
            return DV(f(M.v, a.v), d.reshape((self.N,) + f(M.v, a.v).shape))
        if k in ('outer', 'kron'):
            a = self.ev(t[1])
            b = self.ev(t[2])
            f = np.outer if k == 'outer' else np.kron
            d = np.array([f(a.d[i], b.v) + f(a.v, b.d[i]) for i in range(self.N)])
            return DV(f(a.v, b.v), d.reshape((self.N,) + f(a.v, b.v).shape))
        if k == 'isx':
            a = self.ev(t[2])
            return self.const(np.zeros(a.v.shape))
        raise ValueError('unknown node %r' % (k,))


# ------------------------------------------------------------------------------------------------
# rendering

def _lit(x):
    s = repr(float(x))
    if 'e' in s or 'inf' in s or 'nan' in s:
        raise Reject('literal')
    return s if x >= 0 else '(%s)' % s


def render(t):
    k = t[0]
    if k == 'lit':
        return _lit(t[1])
    if k == 'const':
        return t[1]
    if k == 'var':
        return t[1]
    if k == 'neg':
        return '(-%s)' % render(t[1])
    if k == 'bin':
        return '(%s %s %s)' % (render(t[2]), t[1], render(t[3]))
    if k == 'powi':
        return '(%s)**%s' % (render(t[1]), t[2] if t[2] >= 0 else '(%d)' % t[2])
    if k == 'pow':
        return '(%s)**(%s)' % (render(t[1]), render(t[2]))
    if k == 'call1':
        return '%s(%s)' % (t[1], render(t[2]))
    if k == 'call2':
        return '%s(%s, %s)' % (t[1], render(t[2]), render(t[3]))
    if k == 'sum':
        return 'sum(%s)' % render(t[1])
    if k in ('dot', 'inner'):
        return '%s(%s, %s)' % (k, render(t[1]), render(t[2]))
    if k == 'idx':
        a = render(t[1])
        return '%s[%d]' % (a if t[1][0] == 'var' else '(%s)' % a, t[2])
    if k == 'rev':
        a = render(t[1])
        return '%s[::-1]' % (a if t[1][0] == 'var' else '(%s)' % a)
    if k == 'mk':
        return {'arange': 'arange(%d)', 'ones': 'ones(%d)', 'zeros': 'zeros(%d)',
                'linspace': 'linspace(0.5, 1.5, %d)'}[t[1]] % t[2]
    if k == 'red':
        return '%s(%s)' % (t[1], render(t[2]))
    if k == 'diff':
        return 'diff(%s)' % render(t[1])
    if k == 'mat':
        return ('tensordot(%s, %s, 1)' if t[1] == 'tensordot' else t[1] + '(%s, %s)') % (
            render(t[2]), render(t[3]))
    if k in ('outer', 'kron'):
        return '%s(%s, %s)' % (k, render(t[1]), render(t[2]))
    if k == 'isx':
        return '%s(%s)' % (t[1], render(t[2]))
    raise ValueError(k)


def children(t):
    k = t[0]
    if k in ('lit', 'const', 'var', 'mk'):
        return []
    if k in ('neg', 'sum', 'rev', 'diff'):
        return [t[1]]
    if k in ('powi', 'idx'):
        return [t[1]]
    if k == 'bin':
        return [t[2], t[3]]
    if k in ('call1', 'red', 'isx'):
        return [t[2]]
    if k in ('call2', 'mat'):
        return [t[2], t[3]]
    if k in ('pow', 'dot', 'inner', 'outer', 'kron'):
        return [t[1], t[2]]
    raise ValueError(k)


def walk(t):
    yield t
    for c in children(t):
        for x in walk(c):
            yield x


def used_vars(t):
    return sorted({n[1] for n in walk(t) if n[0] == 'var'})


def funcs_used(t):
    out = set()
    for n in walk(t):
        if n[0] in ('call1', 'call2', 'red', 'isx', 'mat', 'mk'):
            out.add(n[1])
        elif n[0] in ('sum', 'dot', 'inner', 'diff', 'outer', 'kron', 'pow', 'powi', 'idx', 'rev',
                      'const'):
            out.add(n[0] if n[0] != 'const' else n[1])
    return out


MODEL_NODES = {'lit', 'const', 'var', 'neg', 'bin', 'powi', 'pow', 'call1', 'call2', 'sum', 'dot',
               'inner', 'idx', 'rev'}
RAT_NODES = {'lit', 'var', 'neg', 'bin', 'powi', 'sum', 'dot', 'inner', 'idx', 'rev'}


def in_model(t):
    return all(n[0] in MODEL_NODES for n in walk(t))


def is_rational(t):
    for n in walk(t):
        if n[0] in RAT_NODES:
            continue
        if n[0] == 'call1' and n[1] == 'abs':
            continue
        if n[0] == 'call2' and n[1] in SELECT:
            continue
        return False
    return True


def is_elementwise(t):
    return all(n[0] in ('lit', 'const', 'var', 'neg', 'bin', 'powi', 'pow', 'call1', 'call2', 'isx')
               for n in walk(t))


def to_lean(t, vidx):
    k = t[0]
    L = lambda x: to_lean(x, vidx)
    if k == 'lit':
        return {'k': 'lit', 'q': rat(float(t[1]))}
    if k == 'const':
        return {'k': 'lit', 'q': rat(math.pi if t[1] == 'pi' else math.e)}
    if k == 'var':
        return {'k': 'var', 'v': vidx[t[1]]}
    if k == 'neg':
        return {'k': 'neg', 'a': L(t[1])}
    if k == 'bin':
        return {'k': {'+': 'add', '-': 'sub', '*': 'mul', '/': 'div'}[t[1]], 'a': L(t[2]),
                'b': L(t[3])}
    if k == 'powi':
        return {'k': 'powi', 'a': L(t[1]), 'n': t[2]}
    if k == 'pow':
        return {'k': 'prim2', 'f': 'power', 'a': L(t[1]), 'b': L(t[2])}
    if k == 'call1':
        return {'k': 'prim', 'f': t[1], 'a': L(t[2])}
    if k == 'call2':
        return {'k': 'prim2', 'f': t[1], 'a': L(t[2]), 'b': L(t[3])}
    if k == 'sum':
        return {'k': 'sum', 'a': L(t[1])}
    if k in ('dot', 'inner'):
        return {'k': 'dot', 'a': L(t[1]), 'b': L(t[2])}
    if k == 'idx':
        return {'k': 'idx', 'a': L(t[1]), 'i': t[2]}
    if k == 'rev':
        return {'k': 'rev', 'a': L(t[1])}
    raise ValueError(k)


def tup(t):
    """JSON lists -> tuples (cases come back from JSON files as lists)."""
    if isinstance(t, (list, tuple)):
        return tuple(tup(x) for x in t)
    return t


# ------------------------------------------------------------------------------------------------
# NumPy namespace for evaluating the source text (built from numpy, not from ExecComp's table)

def numpy_namespace():
    import scipy.special
    ns = {n: getattr(np, n) for n in
          ['sin', 'cos', 'tan', 'arcsin', 'arccos', 'arctan', 'sinh', 'cosh', 'tanh', 'arcsinh',
           'arccosh', 'exp', 'expm1', 'log', 'log10', 'log1p', 'arctan2', 'power', 'maximum',
           'minimum', 'fmax', 'fmin', 'sum', 'dot', 'inner', 'prod', 'max', 'min', 'diff', 'matmul',
           'tensordot', 'outer', 'kron', 'arange', 'ones', 'zeros', 'linspace', 'isnan', 'isinf',
           'abs', 'pi', 'e']}
    ns.update(asin=np.arcsin, acos=np.arccos, atan=np.arctan, asinh=np.arcsinh, acosh=np.arccosh,
              erf=scipy.special.erf, erfc=scipy.special.erfc)
    return ns


# ------------------------------------------------------------------------------------------------
# evaluation of a whole case by the harness

def size_of(shape):
    n = 1
    for s in shape:
        n *= s
    return n


def case_inputs(case, pt):
    """Component-side input arrays at point `pt` (IVC value times the unit factor)."""
    out = {}
    for v in case['ins']:
        arr = np.array([float(unrat(s)) for s in v['vals'][pt]]).reshape(v['shape'])
        out[v['name']] = arr * v['factor']
    return out


def exact_eval(case, pt):
    """(values per output, dense Jacobian per (out, in) wrt the *component* inputs, selectors)."""
    xs = case_inputs(case, pt)
    names = [v['name'] for v in case['ins']]
    N = sum(xs[n].size for n in names)
    env = {}
    off = 0
    for n in names:
        a = xs[n]
        d = np.zeros((N,) + a.shape)
        for i in range(a.size):
            d[(off + i,) + np.unravel_index(i, a.shape)] = 1.0
        env[n] = DV(a, d)
        off += a.size
    ev = Evaluator(env, N)
    vals = {}
    jac = {}
    for o in case['outs']:
        r = ev.ev(tup(o['expr']))
        shape = tuple(o['shape'])
        try:
            v = np.broadcast_to(r.v, shape)
            d = np.broadcast_to(_pad(r.d, len(shape)), (N,) + shape)
        except ValueError:
            raise Reject('shape')
        vals[o['name']] = v.ravel()
        full = d.reshape(N, -1).T
        off = 0
        for n in names:
            jac[(o['name'], n)] = full[:, off:off + xs[n].size]
            off += xs[n].size
    return vals, jac, ev.sel


def numpy_eval(case, pt):
    xs = case_inputs(case, pt)
    ns = numpy_namespace()
    out = {}
    for o in case['outs']:
        with np.errstate(all='ignore'):
            val = eval(render(tup(o['expr'])), {'__builtins__': {}}, dict(ns, **xs))   # noqa: S307
        out[o['name']] = np.broadcast_to(np.asarray(val, dtype=float), tuple(o['shape'])).ravel()
    return out


def well_conditioned(case):
    """Both points are inside every function's domain, away from kinks, and the values and
    derivatives move by less than 1e3 times a relative input perturbation."""
    for pt in (0, 1):
        v0, j0, _ = exact_eval(case, pt)
        pert = dict(case)
        pert['ins'] = [dict(v, factor=v['factor'] * (1.0 + 1e-12)) for v in case['ins']]
        v1, j1, _ = exact_eval(pert, pt)
        for k in v0:
            if np.any(np.abs(v0[k] - v1[k]) > 1e-9 * (1.0 + np.abs(v0[k]))):
                raise Reject('conditioning')
        for k in j0:
            if np.any(np.abs(j0[k] - j1[k]) > 1e-9 * (1.0 + np.abs(j0[k]))):
                raise Reject('conditioning')
    return True


def close(a, b, tol=TOL):
    a = np.asarray(a, dtype=float)
    b = np.asarray(b, dtype=float)
    if a.shape != b.shape:
        return False
    if not (np.all(np.isfinite(a)) and np.all(np.isfinite(b))):
        return False
    return bool(np.all(np.abs(a - b) <= tol * (1.0 + np.maximum(np.abs(a), np.abs(b)))))


# ------------------------------------------------------------------------------------------------
# generator

GRID = [Fraction(k, 16) for k in range(-31, 32, 2)]          # odd multiples of 1/16 in (-2, 2)
LITS = [0.5, 1.0, 1.5, 2.0, 2.5, 3.0, 0.25, 4.0, -1.0, -0.5, -2.0]


class Gen(object):
    def __init__(self, rng, S, arrs, scs, rational, allow_rev, allow_ext):
        self.rng = rng
        self.S = S
        self.arrs = arrs          # names of inputs of shape S
        self.scs = scs            # names of inputs of shape (1,)
        self.rational = rational
        self.oned = len(S) == 1
        self.allow_rev = allow_rev and self.oned and S[0] > 1
        self.allow_ext = allow_ext and not rational

    def lit(self):
        r = self.rng
        if not self.rational and r.random() < 0.1:
            return ('const', r.choice(['pi', 'e']))
        return ('lit', r.choice(LITS))

    def leaf(self, kind):
        r = self.rng
        if kind == 'S':
            if self.allow_ext and self.oned and r.random() < 0.06:
                return ('mk', r.choice(['arange', 'ones', 'zeros', 'linspace']), self.S[0])
            return ('var', r.choice(self.arrs))
        if self.scs and r.random() < 0.7:
            return ('var', r.choice(self.scs))
        return self.lit()

    def gen(self, kind, depth, reduce_ok=True):
        r = self.rng
        if depth <= 0 or r.random() < 0.12:
            return self.leaf(kind)
        x = r.random()
        sub = lambda k: self.gen(k, depth - 1, reduce_ok)
        other = lambda: sub(kind) if (kind == '1' or r.random() < 0.6) else sub('1')
        if kind == '1' and reduce_ok and self.arrs and x < 0.3:
            y = r.random()
            if y < 0.4:
                return ('sum', sub('S'))
            if y < 0.6 and self.oned:
                return (r.choice(['dot', 'dot', 'inner']), sub('S'), sub('S'))
            if y < 0.8 and self.oned:
                return ('idx', ('var', r.choice(self.arrs)), r.randrange(self.S[0]))
            if self.allow_ext:
                return ('red', r.choice(['prod', 'max', 'min']), sub('S'))
            return ('sum', sub('S'))
        if x < 0.55:
            a, b = sub(kind), other()
            if r.random() < 0.5:
                a, b = b, a
            return ('bin', r.choice(['+', '-', '*', '*', '/']), a, b)
        if x < 0.63:
            return ('powi', sub(kind), r.choice([2, 3, 2, -1, -2, 4, 1]))
        if x < 0.68:
            return ('neg', sub(kind))
        if x < 0.72 and kind == 'S' and self.allow_rev:
            return ('rev', sub('S'))
        if self.rational:
            y = r.random()
            if y < 0.4:
                return ('call1', 'abs', sub(kind))
            if y < 0.8:
                a, b = sub(kind), other()
                return ('call2', r.choice(SELECT), a, b)
            return ('bin', r.choice(['+', '*']), sub(kind), other())
        if x < 0.9:
            f = r.choice(UNARY)
            return ('call1', f, sub(kind))
        if x < 0.93 and self.allow_ext and kind == 'S':
            return ('bin', '+', sub('S'), ('isx', r.choice(['isnan', 'isinf']), sub('S')))
        f = r.choice(BINARY + ['**'])
        a, b = sub(kind), other()
        if f == '**' or f == 'power':
            b = ('lit', r.choice([0.5, 1.5, 2.0, -0.5, 2.5])) if r.random() < 0.7 else other()
            return ('pow', a, b) if f == '**' else ('call2', 'power', a, b)
        return ('call2', f, a, b)


def draw_values(rng, sizes):
    tot = sum(sizes)
    pool = rng.sample(GRID, min(tot, len(GRID)))
    while len(pool) < tot:
        pool.append(rng.choice(GRID) + Fraction(rng.randrange(1, 8), 64))
    out = []
    k = 0
    for s in sizes:
        out.append([rat(q) for q in pool[k:k + s]])
        k += s
    return out


def make_case(rng, flavour=None):
    """One random component. flavour in {None, 'hd_nonelem', 'flip'} ('zero0': make_zero_case)."""
    r = rng
    hd = r.random() < 0.35 or flavour == 'hd_nonelem'
    if flavour == 'flip':
        hd = False
    S = r.choice([(1,), (2,), (3,), (3,), (4,), (2, 2), (2, 3), (1, 3), (3, 1)])
    if flavour in ('hd_nonelem', 'flip'):
        S = r.choice([(2,), (3,), (4,)])
    rational = r.random() < 0.35
    n_arr = r.choice([1, 2, 2, 3])
    n_sc = r.choice([0, 1, 1, 2])
    arrs = ['x%d' % i for i in range(n_arr)]
    scs = ['x%d' % (n_arr + i) for i in range(n_sc)]
    shapes = {n: S for n in arrs}
    shapes.update({n: (1,) for n in scs})
    g = Gen(r, S, arrs, scs, rational, allow_rev=not hd, allow_ext=True)
    n_out = r.choice([1, 2, 2, 3])
    outs = []
    extra = {}
    for k in range(n_out):
        depth = r.choice([1, 2, 2, 3, 3, 4])
        kind = 'S' if (k == 0 or r.random() < 0.6) else '1'
        shape = S if kind == 'S' else (1,)
        if flavour == 'hd_nonelem' and k == 0:
            a = ('var', arrs[0])
            e = r.choice([('bin', '*', a, ('sum', a)), ('rev', a),
                          ('bin', '+', a, ('idx', a, 0))])
        elif flavour == 'flip' and k == 0:
            if len(arrs) < 2:
                arrs.append('x9')
                shapes['x9'] = S
                g.arrs = arrs
            e = ('call2', r.choice(SELECT), ('var', arrs[0]), ('var', arrs[1]))
        elif (not hd and not rational and len(S) == 1 and S[0] > 1 and r.random() < 0.12):
            # shape-changing functions of the table, top level only
            inner = g.gen('S', min(depth, 2), reduce_ok=False)
            n = S[0]
            c = r.choice(['diff', 'mat', 'outer', 'kron'])
            if c == 'diff':
                e, shape = ('diff', inner), (n - 1,)
            elif c == 'mat':
                extra['xM'] = (n, n)
                e = ('mat', r.choice(['matmul', 'dot', 'tensordot']), ('var', 'xM'), inner)
            elif c == 'outer':
                e, shape = ('outer', inner, g.gen('S', 1, False)), (n, n)
            else:
                e, shape = ('kron', inner, g.gen('S', 1, False)), (n * n,)
        else:
            # under has_diag_partials array expressions must be elementwise (documented
            # precondition); scalar outputs may still reduce an array
            e = g.gen(kind, depth, reduce_ok=(not hd) or (kind == '1' and r.random() < 0.3))
        outs.append({'name': 'y%d' % k, 'shape': list(shape), 'expr': e})
    shapes.update(extra)
    used = sorted(set(n for o in outs for n in used_vars(o['expr'])))
    if not used:
        raise Reject('no inputs')
    # units
    umode = r.choice(['none', 'none', 'var', 'var', 'comp'])
    comp_units = None
    ins = []
    sizes = [size_of(shapes[n]) for n in used]
    v0 = draw_values(r, sizes)
    v1 = draw_values(r, sizes)
    for n, a, b in zip(used, v0, v1):
        if umode == 'var':
            u, su, f = r.choice(UNIT_PAIRS)
        elif umode == 'comp':
            comp_units = 'm'
            su, f = r.choice(COMP_UNIT_SRC['m'])
            u = None
        else:
            u, su, f = None, None, 1.0
        ins.append({'name': n, 'shape': list(shapes[n]), 'vals': [a, b], 'units': u,
                    'src_units': su, 'factor': f})
    for o in outs:
        o['units'] = r.choice([None, 'm', 's']) if umode == 'var' else None
    if flavour == 'flip':
        # first point: first argument larger everywhere; second point: smaller everywhere
        a, b = ins[0], ins[1]
        n = size_of(S)
        hi = r.sample([q for q in GRID if q > 0], n)
        lo = r.sample([q for q in GRID if q < 0], n)
        a['vals'] = [[rat(q) for q in hi], [rat(q) for q in lo]]
        b['vals'] = [[rat(q) for q in lo], [rat(q) for q in hi]]
        for v in ins:
            v['factor'], v['units'], v['src_units'] = 1.0, None, None
        comp_units = None
    sbc = r.choice(['none', 'none', 'none', 'var', 'comp'])
    if sbc == 'comp' and umode == 'var':
        sbc = 'var'
    manual = r.choice([None] * 8 + ['both', 'partials'])
    if hd or flavour == 'flip':
        manual = None
    x = r.random()
    do_col = None if x < 0.5 else (x < 0.8)
    case = {'ins': ins, 'outs': outs, 'hd': hd, 'do_coloring': do_col, 'manual': manual,
            'sbc': sbc, 'comp_units': comp_units, 'fac': r.random() < 0.3,
            'flavour': flavour or 'random'}
    return case


def make_zero_case(rng):
    """First linearization with input entries that are exactly 0.0 (a legitimate starting point),
    second at a generic point: partials that vanish only *at* the first point (d(z**2)/dz,
    d(z*w)/dw, d(1-cos z)/dz ...) must still be right afterwards.  Default automatic coloring,
    smooth expressions whose partials vanish at most quadratically at 0."""
    r = rng
    n = r.choice([2, 3, 3, 4])
    S = (n,)
    Z, W, A = ('var', 'x0'), ('var', 'x1'), ('var', 'x2')
    templ = [
        ('powi', Z, 2),
        ('bin', '*', Z, W),
        ('bin', '*', ('lit', 3.0), ('bin', '*', Z, W)),
        ('bin', '+', ('bin', '*', ('bin', '*', Z, Z), W), W),
        ('bin', '*', ('call1', 'sin', Z), W),
        ('bin', '-', ('lit', 1.0), ('call1', 'cos', Z)),
        ('bin', '*', Z, ('call1', 'exp', W)),
        ('bin', '*', ('bin', '+', Z, W), Z),
        ('bin', '*', Z, A),
        ('bin', '*', ('call1', 'tanh', Z), W),
        ('bin', '+', ('powi', Z, 2), ('bin', '*', A, W)),
        ('bin', '*', ('call1', 'arctan', Z), ('powi', W, 2)),
    ]
    n_out = r.choice([1, 2, 2, 3])
    outs = [{'name': 'y0', 'shape': [n], 'expr': r.choice(templ), 'units': None}]
    g = Gen(r, S, ['x1'], ['x2'], r.random() < 0.5, allow_rev=True, allow_ext=False)
    for k in range(1, n_out):
        if r.random() < 0.5:
            e, shape = r.choice(templ), S
        else:
            kind = 'S' if r.random() < 0.7 else '1'
            e, shape = g.gen(kind, r.choice([1, 2, 3])), (S if kind == 'S' else (1,))
        outs.append({'name': 'y%d' % k, 'shape': list(shape), 'expr': e, 'units': None})
    used = sorted(set(v for o in outs for v in used_vars(o['expr'])))
    shapes = {'x0': S, 'x1': S, 'x2': (1,)}
    sizes = [size_of(shapes[v]) for v in used]
    v0, v1 = draw_values(r, sizes), draw_values(r, sizes)
    ins = []
    for name, a, b in zip(used, v0, v1):
        if name == 'x0':
            # all entries, or a random non-empty subset, start at exactly 0.0
            idx = list(range(n)) if r.random() < 0.6 else r.sample(range(n), r.randrange(1, n + 1))
            a = ['0/1' if i in idx else q for i, q in enumerate(a)]
        ins.append({'name': name, 'shape': list(shapes[name]), 'vals': [a, b], 'units': None,
                    'src_units': None, 'factor': 1.0})
    return {'ins': ins, 'outs': outs, 'hd': False, 'do_coloring': r.choice([None, None, True]),
            'manual': None, 'sbc': r.choice(['none', 'none', 'var']), 'comp_units': None,
            'fac': r.random() < 0.3, 'flavour': 'zero0'}


def make_cancel_case(rng):
    """Size-1 outputs of an array input whose gradient entries cancel exactly (the response to a
    perturbation of *all* entries at once is 0 although the entries are not): differences of
    entries, telescoping sums, zero-sum weights, symmetric combinations at chosen points.
    has_diag_partials True/False; one of the two points may be non-cancelling so that stale
    values from the other linearization would show."""
    r = rng
    n = r.choice([2, 3, 3, 4, 4])
    S = (n,)
    hd = r.random() < 0.65
    X, W, A = ('var', 'x0'), ('var', 'x1'), ('var', 'x2')
    ix = lambda k: ('idx', X, k)
    fix = {}          # input name -> (point, values) forced after the random draw

    def halves(k, lo=-6, hi=6, nonzero=True):
        out = []
        while len(out) < k:
            q = Fraction(r.randint(lo, hi), 2)
            if q != 0 or not nonzero:
                out.append(q)
        return out

    def t_diff():
        i, j = r.sample(range(n), 2)
        return ('bin', '-', ix(i), ix(j))

    def t_tele():
        return ('sum', ('diff', X))

    def t_range():
        return ('bin', '-', ('red', 'max', X), ('red', 'min', X))

    def t_mean():
        return ('bin', '-', ('sum', X), ('bin', '*', ('lit', float(n)), ix(r.randrange(n))))

    def t_dot():
        w = halves(n - 1)
        last = -sum(w)
        if last == 0:
            w[0] += 1
            last = -sum(w)
        fix['x1'] = (r.randrange(2), w + [last])
        return (r.choice(['dot', 'inner']), X, W)

    def t_sq():
        k = r.randrange(n)
        while True:
            xs = halves(n)
            xs[k] = Fraction(r.choice([1, 2, -1, -2, 4]))
            c = sum(xs) / xs[k]
            if c != 0 and c.denominator <= 8 and len(set(xs)) >= 1:
                break
        fix['x0'] = (r.randrange(2), xs)
        return ('bin', '-', ('sum', ('powi', X, 2)),
                ('bin', '*', ('lit', float(c)), ('powi', ix(k), 2)))

    def t_weights():
        return ('sum', ('bin', '*', X, ('bin', '-', ('mk', 'arange', n),
                                       ('lit', (n - 1) / 2.0))))

    def t_scaled():
        return ('bin', '*', A, t_diff())

    pool = [t_diff, t_diff, t_tele, t_range, t_mean, t_dot, t_sq, t_weights, t_scaled]
    first = r.choice(pool)
    outs = [{'name': 'y0', 'shape': [1], 'expr': first(), 'units': None}]
    n_out = r.choice([1, 2, 2, 3])
    for k in range(1, n_out):
        x = r.random()
        if x < 0.5:
            # an array/array pair next to it (diagonal under has_diag_partials)
            e = r.choice([('bin', '*', X, A), ('powi', X, 2), ('call1', 'sin', X),
                          ('bin', '+', ('bin', '*', X, X), A), ('bin', '*', X, W)])
            outs.append({'name': 'y%d' % k, 'shape': [n], 'expr': e, 'units': None})
        else:
            cand = [t for t in pool if t not in (t_dot, t_sq) or t is first]
            t = r.choice([t for t in cand if not (t in (t_dot, t_sq) and t is first)] or [t_diff])
            outs.append({'name': 'y%d' % k, 'shape': [1], 'expr': t(), 'units': None})
    used = sorted(set(v for o in outs for v in used_vars(o['expr'])))
    shapes = {'x0': S, 'x1': S, 'x2': (1,)}
    sizes = [size_of(shapes[v]) for v in used]
    v0, v1 = draw_values(r, sizes), draw_values(r, sizes)
    ins = []
    for name, a, b in zip(used, v0, v1):
        vals = [a, b]
        if name in fix:
            pt, q = fix[name]
            vals[pt] = [rat(z) for z in q]
        ins.append({'name': name, 'shape': list(shapes[name]), 'vals': vals, 'units': None,
                    'src_units': None, 'factor': 1.0})
    x = r.random()
    return {'ins': ins, 'outs': outs, 'hd': hd,
            'do_coloring': None if x < 0.5 else (x < 0.8), 'manual': None,
            'sbc': r.choice(['none', 'none', 'var']), 'comp_units': None,
            'fac': r.random() < 0.3, 'flavour': 'cancel'}


def hd_sizes_ok(case):
    """Documented precondition of has_diag_partials: all arrays of size > 1 have one size."""
    sz = {size_of(v['shape']) for v in case['ins']} | {size_of(o['shape']) for o in case['outs']}
    return len({s for s in sz if s > 1}) <= 1


def gen_valid(rng, flavour=None, tries=400):
    for _ in range(tries):
        try:
            if flavour == 'cshist':
                # non-colored complex-step partials after a user-driven complex step:
                # force_alloc_complex, do_coloring=False or has_diag_partials, array variables
                case = make_case(rng, None)
                case['manual'] = None
                case['fac'] = True
                case['cs_hist'] = True
                if not case['hd']:
                    case['do_coloring'] = False
                case['flavour'] = 'cshist'
            else:
                case = (make_zero_case(rng) if flavour == 'zero0' else
                        make_cancel_case(rng) if flavour == 'cancel' else make_case(rng, flavour))
                if case['fac'] and rng.random() < 0.5:
                    case['cs_hist'] = True      # same history on whatever path the case takes
            if case['hd'] and not hd_sizes_ok(case):
                continue
            for o in case['outs']:
                render(tup(o['expr']))
            well_conditioned(case)
            e0, e1 = exact_eval(case, 0), exact_eval(case, 1)
            if flavour != 'flip' and e0[2] != e1[2] and rng.random() < 0.85:
                continue      # keep most two-point cases on one branch of every max/min
            if case['manual'] == 'both' and any(
                    np.any((np.abs(e0[1][k]) <= 1e-7 * (1.0 + np.abs(e1[1][k]))) &
                           (np.abs(e1[1][k]) > 0)) for k in e0[1]):
                # a coloring declared by the user (declare_coloring) is the user's promise that
                # the sparsity found at the first point holds everywhere
                continue
            # the rendered text must evaluate under plain NumPy to the same values
            for pt in (0, 1):
                nv = numpy_eval(case, pt)
                ev, _, _ = exact_eval(case, pt)
                for k in nv:
                    if not close(nv[k], ev[k], 1e-11):
                        raise Reject('numpy/AD value mismatch')
            return case
        except (Reject, FloatingPointError, ZeroDivisionError, OverflowError, ValueError,
                IndexError):
            continue
    return None


# ------------------------------------------------------------------------------------------------

class C14(Property):
    pid = 'C14'
    workers = 1
    tolerance = TOL
    required_theorems = [
        'C14_ad_correct', 'C14_value_real', 'C14_jac_mulvec', 'C14_uncolored_exact',
        'C14_diag_sound', 'C14_diag_needs_elementwise', 'C14_hd_dense_exact_repaired',
        'C14_hd_dense_partial', 'C14_hd_dense_wrong', 'C14_colored_eq', 'C14_colored_eq_checked',
        'C14_colored_needs_coverage', 'C14_decl_covers', 'C14_funcs_covered',
        'C14_funcs_complex_safe', 'C14_model_names_live']
    rule = ("cases: a random ExecComp with 1-3 expressions (depth <= 4) sharing 1-5 inputs, built from "
            "the live function table (unary/binary elementwise functions, + - * / **, sum/dot/inner, "
            "indexing, [::-1], and — outside the Lean model — prod/max/min/diff/matmul/dot(2-D)/"
            "tensordot/outer/kron/arange/ones/zeros/linspace/isnan/isinf), array shapes (1,)-(4,), 2-D "
            "shapes, has_diag_partials, do_coloring default/True/False, manual declare_partials/"
            "declare_coloring, shape_by_conn per variable or for the component, units per variable or "
            "for the component with a converting connection, force_alloc_complex; inputs are distinct "
            "odd multiples of 1/16 kept inside every function's domain and away from kinks; every "
            "Problem is run and linearised at two points. Outputs are compared with NumPy evaluation of "
            "the source text, totals d(out)/d(ivc) with the harness's own forward-mode derivative, and "
            "both with the Lean model (Rat for rational expressions, Float otherwise). Non-trivial: at "
            "least one non-zero partial; distinct by canonical case encoding.")
    assumptions = [
        "complex-step with h=1e-40 is modelled by dual-number arithmetic (first order in h); "
        "comparison of floats uses |a-b| <= 1e-9*(1+max(|a|,|b|)) on cases whose value and derivative "
        "change by < 1e-9 relative under a 1e-12 relative input perturbation and whose intermediates "
        "stay below 1e4",
        "the derivative pairs (f, f') of the primitives are abstract in the theorems; the driver's "
        "Float table and the harness's table are two independent transcriptions, both compared with "
        "the complex-step result of the real code",
        "has_diag_partials with an array expression that is not elementwise is outside the property "
        "(documented precondition: 'happen to have diagonal partials'); such cases are only compared "
        "with the model",
    ]
    level_text = ("Forward-mode AD over dual numbers (what the complex step computes) is proved equal to "
                  "the derivative given by the differentiation rules for every expression of the modelled "
                  "language, the tangent is proved linear so that the Jacobian assembled from unit "
                  "perturbations represents it, and the three ways ExecComp fills its partials (per "
                  "entry, all-at-once under has_diag_partials, colored with scratch zeroing) plus the "
                  "declaration logic are modelled literally and proved exact under stated hypotheses, with "
                  "kernel-checked counterexamples where the current code needs them; the model is tied "
                  "to the real ExecComp by differential runs on random components at two points.")
    level_note = ("Trusted: Lean kernel + standard axioms; the harness; NumPy/SciPy elementwise functions "
                  "and their complex extensions; that each primitive's f' is its analytic derivative. "
                  "Modelled, not verified: rounding, the O(h^2) term of the complex step. Differential "
                  "only: 2-D linear algebra, array creation, prod/max/min/diff, units, shape_by_conn, "
                  "the framework's approximation path after manual declare_partials/declare_coloring, "
                  "and the coloring algorithm itself (property C03; its output is validated per case "
                  "against the hypotheses of C14_colored_eq).")
    technique = "Lean 4 proof (structural induction, field algebra, loop invariants) + differential correspondence"
    trusted_extra = [
        "NumPy/SciPy implementations of the table functions on real and complex arguments",
        "the analytic derivative of each primitive (abstract pair (f, f') in the theorems)",
        "OpenMDAO's coloring algorithm (C03): its column groups are inputs of the model, validated "
        "per case by `coloringOk`",
    ]

    fix_flag = None          # repaired compute_partials (dense partials of array inputs per entry)
    skip_pw = None           # automatic coloring skipped for piecewise functions

    # -- translator ---------------------------------------------------------------------------------
    def translate(self):
        try:
            from openmdao.components import exec_comp as ec
            table = ec._expr_dict
            ncs = ec._not_complex_safe
            rows = []
            for name in sorted(table):
                if not isinstance(name, str) or '"' in name or '\\' in name:
                    raise TieBroken('unexpected function-table key %r' % (name,))
                rows.append((name, callable(table[name]), name not in ncs))
            if len(rows) < 10:
                raise TieBroken('function table has only %d entries' % len(rows))
        except TieBroken:
            raise
        except Exception as e:
            raise TieBroken('cannot read ExecComp function table: %s: %s' % (type(e).__name__, e))
        b = lambda x: 'true' if x else 'false'
        lines = ['/-', 'GENERATED by harness/c14.py:translate from the live '
                 '`openmdao.components.exec_comp._expr_dict`', 'and `_not_complex_safe`. Do not edit.',
                 '-/', 'namespace OMV.C14.Generated', '',
                 '/-- (name, callable, complex_safe) for every entry of the function table. -/',
                 'def execFuncs : List (String × Bool × Bool) := [']
        lines.append(',\n'.join('  ("%s", %s, %s)' % (n, b(c), b(s)) for n, c, s in rows))
        lines += [']', '', 'end OMV.C14.Generated', '']
        path = os.path.join(LEAN, 'OMV', 'Generated', 'C14ExecFuncs.lean')
        text = '\n'.join(lines)
        os.makedirs(os.path.dirname(path), exist_ok=True)
        if not os.path.exists(path) or open(path).read() != text:
            with open(path, 'w') as fh:
                fh.write(text)
        return ['ExecComp function table: %d entries (%d callable, %d not complex-safe)' % (
            len(rows), sum(1 for r in rows if r[1]), sum(1 for r in rows if not r[2]))]

    # -- setup: which variant of compute_partials is in the tree -----------------------------------
    def setup(self, tier):
        import openmdao.api as om    # noqa: F401  (import before any forking)
        probe = {'ins': [{'name': 'x0', 'shape': [3], 'vals': [['1/1', '2/1', '3/1']] * 2,
                          'units': None, 'src_units': None, 'factor': 1.0}],
                 'outs': [{'name': 'y0', 'shape': [1], 'expr': ['sum', ['var', 'x0']],
                           'units': None}],
                 'hd': True, 'do_coloring': None, 'manual': None, 'sbc': 'none', 'comp_units': None,
                 'fac': False, 'flavour': 'probe'}
        res = self.run_impl(probe)
        try:
            J = res['J'][0]['y0']['x0']
            self.fix_flag = close(J, [[1.0, 1.0, 1.0]])
        except Exception:
            self.fix_flag = False
        probe2 = dict(probe, hd=False,
                      ins=[dict(probe['ins'][0]), dict(probe['ins'][0], name='x1',
                                                       vals=[['-1/1', '-2/1', '-3/1']] * 2)],
                      outs=[{'name': 'y0', 'shape': [3], 'units': None,
                             'expr': ['call2', 'maximum', ['var', 'x0'], ['var', 'x1']]}])
        res = self.run_impl(probe2)
        self.skip_pw = (res.get('do_coloring_opt') is False)

    # -- cases --------------------------------------------------------------------------------------
    def cases(self, rng, tier):
        n = 400 if tier == 'quick' else 15000
        nz = 40 if tier == 'quick' else 600
        for i in range(n):
            x = rng.random()
            flavour = 'hd_nonelem' if x < 0.04 else ('flip' if x < 0.08 else None)
            if i < nz:
                flavour = 'zero0'      # targeted family first: zero-valued inputs at the first point
            elif i < 2 * nz:
                flavour = 'cancel'     # size-1 outputs whose gradient row sums to exactly zero
            elif i < 2 * nz + (30 if tier == 'quick' else 450):
                flavour = 'cshist'     # partials after a user-driven complex step
            case = gen_valid(rng, flavour)
            if case is not None:
                yield case

    # -- real code ----------------------------------------------------------------------------------
    def run_impl(self, case):
        import openmdao.api as om
        res = {}
        try:
            with warnings.catch_warnings():
                warnings.simplefilter('ignore')
                p = om.Problem()
                ivc = om.IndepVarComp()
                for v in case['ins']:
                    val = np.array([float(unrat(s)) for s in v['vals'][0]]).reshape(v['shape'])
                    ivc.add_output(v['name'], val=val, units=v['src_units'])
                p.model.add_subsystem('ivc', ivc)
                sbc = case['sbc']
                kwargs = {}
                opts = {'has_diag_partials': case['hd']}
                if case['do_coloring'] is not None:
                    opts['do_coloring'] = case['do_coloring']
                if case['comp_units']:
                    opts['units'] = case['comp_units']
                if sbc == 'comp':
                    opts['shape_by_conn'] = True
                in_shapes = {tuple(v['shape']): v['name'] for v in case['ins']}
                for v in case['ins']:
                    if sbc == 'comp':
                        continue
                    d = {}
                    if sbc == 'var':
                        d['shape_by_conn'] = True
                    else:
                        d['val'] = np.ones(v['shape'])
                    if v['units']:
                        d['units'] = v['units']
                    kwargs[v['name']] = d
                for o in case['outs']:
                    if sbc == 'comp':
                        continue
                    d = {}
                    shp = tuple(o['shape'])
                    if sbc == 'var' and shp in in_shapes and shp != (1,):
                        d['copy_shape'] = in_shapes[shp]
                    elif shp != (1,) or sbc == 'var':
                        d['shape'] = shp
                    if o.get('units'):
                        d['units'] = o['units']
                    if d:
                        kwargs[o['name']] = d
                exprs = ['%s = %s' % (o['name'], render(tup(o['expr']))) for o in case['outs']]
                comp = om.ExecComp(exprs, **opts, **kwargs)
                p.model.add_subsystem('c', comp)
                for v in case['ins']:
                    p.model.connect('ivc.' + v['name'], 'c.' + v['name'])
                if sbc == 'comp':
                    for o in case['outs']:
                        s = om.ExecComp('s = 2.0*t', t=np.ones(o['shape']), s=np.ones(o['shape']),
                                        units=case['comp_units'])
                        p.model.add_subsystem('sink_' + o['name'], s)
                        p.model.connect('c.' + o['name'], 'sink_%s.t' % o['name'])
                if case['manual'] in ('both', 'partials'):
                    comp.declare_partials('*', '*', method='cs')
                if case['manual'] == 'both':
                    comp.declare_coloring(wrt='*', method='cs', show_summary=False)
                p.setup(force_alloc_complex=bool(case['fac']))
                of = ['c.' + o['name'] for o in case['outs']]
                wrt = ['ivc.' + v['name'] for v in case['ins']]
                res['outs'] = []
                res['J'] = []
                for pt in (0, 1):
                    for v in case['ins']:
                        val = np.array([float(unrat(s)) for s in v['vals'][pt]]).reshape(v['shape'])
                        p.set_val('ivc.' + v['name'], val)
                    p.run_model()
                    res['outs'].append({o['name']: np.asarray(p.get_val('c.' + o['name']),
                                                              dtype=float).ravel().tolist()
                                        for o in case['outs']})
                    if case.get('cs_hist') and case['fac']:
                        # user-driven complex step through the public API, then back to the same
                        # real point WITHOUT a real run_model: the partials asked for next must
                        # not depend on that history
                        h = 1e-40
                        p.set_complex_step_mode(True)
                        k = 0
                        for v in case['ins']:
                            val = np.array([float(unrat(s)) for s in v['vals'][pt]],
                                           dtype=complex)
                            val += 1j * h * (1.0 + np.arange(k, k + val.size))
                            k += val.size
                            p.set_val('ivc.' + v['name'], val.reshape(v['shape']))
                        p.run_model()
                        p.set_complex_step_mode(False)
                        for v in case['ins']:
                            val = np.array([float(unrat(s)) for s in v['vals'][pt]])
                            p.set_val('ivc.' + v['name'], val.reshape(v['shape']))
                        res.setdefault('outs_after_cs', []).append(
                            {o['name']: np.asarray(p.get_val('c.' + o['name']),
                                                   dtype=float).ravel().tolist()
                             for o in case['outs']})
                    tot = p.compute_totals(of=of, wrt=wrt)
                    res['J'].append({o['name']: {v['name']: np.asarray(
                        tot['c.' + o['name'], 'ivc.' + v['name']], dtype=float).tolist()
                        for v in case['ins']} for o in case['outs']})
                res['do_coloring_opt'] = bool(comp.options['do_coloring'])
                res['in_order'] = list(comp._var_rel_names['input'])
                res['out_order'] = list(comp._var_rel_names['output'])
                coloring = getattr(getattr(comp, '_coloring_info', None), 'coloring', None)
                res['colored'] = coloring is not None
                res['coloring'] = None
                if coloring is not None and case['manual'] is None:
                    try:
                        res['coloring'] = [[[int(c), sorted(int(r) for r in rows)]
                                            for c, rows in zip(icols, nz)]
                                           for icols, nz in coloring.color_nonzero_iter('fwd')]
                    except Exception:
                        res['coloring'] = None
        except Exception as e:
            res['error'] = type(e).__name__
            res['msg'] = str(e)[:300]
        return res

    # -- direct oracle -------------------------------------------------------------------------------
    def _exact(self, case):
        key = id(case)
        c = getattr(self, '_cache', None)
        if c is None or c[0] != key:
            data = []
            for pt in (0, 1):
                vals, jac, sel = exact_eval(case, pt)
                data.append((numpy_eval(case, pt), vals, jac, sel))
            self._cache = (key, data, case)
        return self._cache[1]

    def path(self, case, impl):
        if case['manual']:
            return 'approx'
        if case['hd']:
            return 'diag'
        if impl.get('colored'):
            return 'colored'
        return 'uncolored'

    def oracle(self, case, impl):
        if 'error' in impl:
            return {'what': 'ExecComp raised %s on a well-defined expression' % impl['error'],
                    'msg': impl.get('msg'), 'kind': 'error'}
        data = self._exact(case)
        fac = {v['name']: v['factor'] for v in case['ins']}
        bad = []
        for pt in (0, 1):
            npv, _, jac, _ = data[pt]
            for o in case['outs']:
                got = impl['outs'][pt][o['name']]
                if not close(got, npv[o['name']]):
                    return {'what': 'output differs from NumPy evaluation of the expression',
                            'kind': 'value', 'pt': pt, 'out': o['name'], 'got': got,
                            'expected': npv[o['name']].tolist()}
            if impl.get('outs_after_cs'):
                for o in case['outs']:
                    got = impl['outs_after_cs'][pt][o['name']]
                    if not close(got, npv[o['name']]):
                        return {'what': 'output changed by a complex-step evaluation that was '
                                'switched off again', 'kind': 'value-after-cs', 'pt': pt,
                                'out': o['name'], 'got': got, 'expected': npv[o['name']].tolist()}
            for o in case['outs']:
                for v in case['ins']:
                    if (case['flavour'] == 'hd_nonelem' and size_of(o['shape']) > 1 and
                            size_of(v['shape']) > 1 and not is_elementwise(tup(o['expr']))):
                        continue      # outside the property: documented precondition not met
                    exp = jac[(o['name'], v['name'])] * fac[v['name']]
                    got = np.asarray(impl['J'][pt][o['name']][v['name']], dtype=float)
                    if got.shape != exp.shape or not close(got, exp):
                        bad.append((pt, o['name'], v['name'], got, exp))
        if not bad:
            return None
        pt, on, vn, got, exp = bad[0]
        return {'what': 'partial derivative differs from the exact derivative', 'kind': 'partial',
                'pt': pt, 'of': on, 'wrt': vn, 'got': np.asarray(got).tolist(),
                'expected': exp.tolist(), 'n_bad_pairs': len(bad),
                'bad': [(b[0], b[1], b[2]) for b in bad]}

    def signature(self, case, impl, failure):
        sig = {'kind': failure.get('kind'), 'path': self.path(case, impl) if 'error' not in impl else
               'error', 'error': impl.get('error')}
        if failure.get('kind') != 'partial':
            return sig
        data = self._exact(case)
        fac = {v['name']: v['factor'] for v in case['ins']}
        osz = {o['name']: size_of(o['shape']) for o in case['outs']}
        isz = {v['name']: size_of(v['shape']) for v in case['ins']}
        # (1) has_diag_partials: every wrong pair is a size-1 output of an array input
        sig['hd_scalar_of_array_only'] = bool(case['hd']) and all(
            osz[on] == 1 and isz[vn] > 1 for _, on, vn in failure['bad'])
        # (2) a coloring is in use, only the second point is wrong, and every wrong entry lies in a
        # Jacobian row whose sparsity at the second point is not contained in its sparsity at the
        # first point (where the coloring was computed)
        stale = bool(impl.get('colored'))
        if stale:
            names = [v['name'] for v in case['ins']]
            for pt, on, vn in failure['bad']:
                if pt != 1:
                    stale = False
                    break
            for on in sorted({b[1] for b in failure['bad']}) if stale else []:
                j0 = np.hstack([data[0][2][(on, n)] * fac[n] for n in names])
                j1 = np.hstack([data[1][2][(on, n)] * fac[n] for n in names])
                got = np.hstack([np.asarray(impl['J'][1][on][n], dtype=float) for n in names])
                wrong = np.abs(got - j1) > TOL * (1.0 + np.maximum(np.abs(got), np.abs(j1)))
                new_nz = (np.abs(j0) <= 1e-7 * (1.0 + np.abs(j1))) & (np.abs(j1) > 0)
                if np.any(wrong & ~np.any(new_nz, axis=1)[:, None]):
                    stale = False
                    break
        sig['colored_sparsity_changed'] = bool(stale)
        # The known finding is about sparsity that really differs around the two points (piecewise
        # functions).  An entry that is zero only *exactly at* the first point (isolated zero of a
        # smooth partial, e.g. d(x**2)/dx at x = 0) must be found by the perturbed sparsity
        # sampling of _compute_coloring; missing it is a different failure.
        sig['isolated_zero'] = bool(stale) and self._isolated_zero(case, impl, failure, data, fac)
        return sig

    def _isolated_zero(self, case, impl, failure, data, fac):
        names = [v['name'] for v in case['ins']]
        try:
            for sign in (1.0, -1.0):
                pert = dict(case)
                pert['ins'] = []
                for vi, v in enumerate(case['ins']):
                    vals0 = []
                    for i, q in enumerate(v['vals'][0]):
                        x = unrat(q)
                        base = abs(x) if x != 0 else Fraction(1)
                        vals0.append(rat(x + base * Fraction(int(sign) * (3 + (i + vi) % 4), 10 ** 5)))
                    pert['ins'].append(dict(v, vals=[vals0, v['vals'][1]]))
                _, jp, _ = exact_eval(pert, 0)
                for on in sorted({b[1] for b in failure['bad']}):
                    j0 = np.hstack([data[0][2][(on, n)] * fac[n] for n in names])
                    j1 = np.hstack([data[1][2][(on, n)] * fac[n] for n in names])
                    jq = np.hstack([jp[(on, n)] * fac[n] for n in names])
                    new_nz = (np.abs(j0) <= 1e-7 * (1.0 + np.abs(j1))) & (np.abs(j1) > 0)
                    # rounding noise of a cancelling derivative (x/(2x)) is ~1e-16 x terms; an isolated zero of a
                    # smooth partial is >= ~1e-9 after a 3e-5 relative move
                    if np.any(new_nz & (np.abs(j0) == 0) & (np.abs(jq) > 1e-12 * (1.0 + np.abs(j1)))):
                        return True
        except Exception:
            return False
        return False

    def nontrivial(self, case, impl):
        try:
            return any(np.any(np.abs(j) > 0) for j in self._exact(case)[0][2].values())
        except Exception:
            return False

    def bucket(self, case, impl):
        b = ['path=' + (self.path(case, impl) if 'error' not in impl else 'error'),
             'hd=%s' % case['hd'], 'do_coloring=%s' % case['do_coloring'],
             'manual=%s' % case['manual'], 'sbc=' + case['sbc'],
             'units=' + ('comp' if case['comp_units'] else
                         ('var' if any(v['units'] for v in case['ins']) else 'none')),
             'convert=%s' % any(v['factor'] != 1.0 for v in case['ins']),
             'fac=%s' % case['fac'], 'flavour=' + case['flavour'],
             'cs_hist=%s' % bool(case.get('cs_hist')),
             'n_out=%d' % len(case['outs']), 'n_in=%d' % len(case['ins']),
             'shape=' + 'x'.join(str(s) for s in max((v['shape'] for v in case['ins']),
                                                     key=lambda s: (size_of(s), len(s)))),
             'impl_error' if 'error' in impl else 'impl_ok']
        exprs = [tup(o['expr']) for o in case['outs']]
        b.append('model=' + ('rat' if all(is_rational(e) for e in exprs) else
                             ('float' if all(in_model(e) for e in exprs) else 'skip')))
        for f in sorted(set().union(*[funcs_used(e) for e in exprs])):
            b.append('fn=' + f)
        try:
            d = self._exact(case)
            if d[0][3] != d[1][3]:
                b.append('branch_flip')
        except Exception:
            pass
        if impl.get('colored') and impl.get('coloring') is not None:
            b.append('coloring_groups=%d' % min(len(impl['coloring']), 6))
        return b

    # -- model ---------------------------------------------------------------------------------------
    def model_requests(self, case, impl):
        exprs = [tup(o['expr']) for o in case['outs']]
        if 'error' in impl or not all(in_model(e) for e in exprs):
            return []
        ins = sorted(case['ins'], key=lambda v: v['name'])
        outs = sorted(case['outs'], key=lambda o: o['name'])
        if impl.get('in_order') != [v['name'] for v in ins] or \
                impl.get('out_order') != [o['name'] for o in outs]:
            return []
        vidx = {v['name']: i for i, v in enumerate(ins)}
        mode = 'rat' if all(is_rational(e) for e in exprs) else 'float'
        reqs = []
        for pt in (0, 1):
            xs = case_inputs(case, pt)
            reqs.append({
                'op': 'comp', 'mode': mode,
                'ins': [size_of(v['shape']) for v in ins],
                'x': [[rat(float(a)) for a in xs[v['name']].ravel()] for v in ins],
                'outs': [{'shape': size_of(o['shape']), 'expr': to_lean(tup(o['expr']), vidx)}
                         for o in outs],
                'hd': bool(case['hd']), 'fix': bool(self.fix_flag),
                'skipPiecewise': bool(self.skip_pw),
                'doColoring': True if case['do_coloring'] is None else bool(case['do_coloring']),
                'coloring': impl.get('coloring') if self.path(case, impl) == 'colored' else None})
        return reqs

    def compare(self, case, impl, answers):
        ins = sorted(case['ins'], key=lambda v: v['name'])
        outs = sorted(case['outs'], key=lambda o: o['name'])
        path = self.path(case, impl)
        for pt, a in enumerate(answers):
            if not a.get('ok') or not a.get('wf'):
                return 'model rejected the component: %s' % a
            if case['manual'] is None and a['doColoringAfter'] != impl['do_coloring_opt']:
                return "options['do_coloring'] after setup is %s, model says %s" % (
                    impl['do_coloring_opt'], a['doColoringAfter'])
            if impl.get('colored') and case['manual'] is None and not a['wantColoring']:
                return 'implementation uses a coloring, model says none is declared'
            for ui, o in enumerate(outs):
                mv = [float(unrat(s)) if s != 'nan' else float('nan') for s in a['vals'][ui]]
                if not close(mv, impl['outs'][pt][o['name']]):
                    return 'pt %d output %s: model %s, implementation %s' % (
                        pt, o['name'], mv, impl['outs'][pt][o['name']])
            if path == 'colored' and impl.get('coloring') is None:
                key = 'Jspec'
            else:
                key = {'colored': 'Jcol', 'approx': 'Jspec'}.get(path, 'J')
            for ui, o in enumerate(outs):
                for vi, v in enumerate(ins):
                    got = np.asarray(impl['J'][pt][o['name']][v['name']], dtype=float)
                    m = a[key][ui][vi]
                    if m is None:
                        if a['decl'][ui][vi] == 'error':
                            return 'model: has_diag_partials size error for (%s,%s)' % (
                                o['name'], v['name'])
                        mm = np.zeros(got.shape)
                    else:
                        mm = np.array([[float(unrat(s)) if s != 'nan' else float('nan')
                                        for s in row] for row in m]) * v['factor']
                    if mm.shape != got.shape or not close(mm, got):
                        return 'pt %d d%s/d%s (%s path): model %s, implementation %s' % (
                            pt, o['name'], v['name'], path, mm.tolist(), got.tolist())
        return None


PROP = C14()
