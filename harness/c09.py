"""C09 — iterative solvers honour their termination contract.

The real solver classes (NewtonSolver, BroydenSolver, NonlinearBlockGS, NonlinearBlockJac,
LinearBlockGS, LinearBlockJac) are attached to a real, set-up two-component cyclic model and run
through their public ``solve`` with the residual norm *scripted*: ``_iter_get_norm`` replays a norm
history, ``_single_iteration`` and ``report_failure`` are wrapped (counted / recorded, then the real
method runs).  Everything else (``_solve``, ``_iter_initialize``, ``_run_apply``, linesearch, Aitken,
recording contexts) is the unmodified code.  The Lean model (`OMV.C09.solve`) is run on the same
history with every double sent as its exact rational value.
"""
import itertools
import math
import os
import warnings
from fractions import Fraction

from common import Property, TieBroken, rat, unrat, LEAN

NAN = float('nan')
INF = float('inf')

CLASS_KEYS = {
    'NewtonSolver': 'newton', 'BroydenSolver': 'broyden', 'NonlinearBlockGS': 'nlbgs',
    'NonlinearBlockJac': 'nlbj', 'LinearBlockGS': 'lnbgs', 'LinearBlockJac': 'lnbj',
}
NL_CLASSES = ['NewtonSolver', 'BroydenSolver', 'NonlinearBlockGS', 'NonlinearBlockJac']
LN_CLASSES = ['LinearBlockGS', 'LinearBlockJac']

TOL_GRID = [(1e-10, 1e-10), (1e-3, 1e-30), (1e-30, 1e-3)]
STALL_TOLS = [1e-12, 2.0 ** -20]
H = 16.0
FIRST = ['1', '0', 'NaN', 'Inf', 'H']
ALPHA_NOSTALL = ['Z', 'A', 'A=', 'R', 'R=', 'H', 'E', "E'", 'NaN', 'Inf']
ALPHA = ['Z', 'A', 'A=', 'R', 'R=', 'H', "H'", 'E', "E'", 'P', 'P+', 'P-', 'P=', 'NaN', 'Inf']


# ------------------------------------------------------------------------------------------------
# numbers on the wire

def enc(x):
    if isinstance(x, str):
        return x
    if math.isnan(x):
        return 'nan'
    if math.isinf(x):
        return 'inf'
    return rat(float(x))


def dec(s):
    if s == 'nan':
        return NAN
    if s == 'inf':
        return INF
    return float(unrat(s))


# ------------------------------------------------------------------------------------------------
# history alphabet (DESIGN.md appendix E.4)

def concretize(symbols, atol, rtol, stall_tol, first_is_initial):
    """Turn a symbolic history into doubles. Relative symbols (P, P+, P-) refer to the previous
    value, R to norm0 (the first value when it is the initial norm, else 1.0)."""
    out = []
    norm0 = 1.0
    prev = 1.0
    for k, sym in enumerate(symbols):
        if sym == '1':
            v = 1.0
        elif sym in ('0', 'Z'):
            v = 0.0
        elif sym == 'NaN':
            v = NAN
        elif sym == 'Inf':
            v = INF
        elif sym == 'H':
            v = H
        elif sym == "H'":
            v = H + stall_tol / 4
        elif sym == 'A':
            v = atol / 2
        elif sym == 'A=':
            v = atol
        elif sym == 'R':
            v = norm0 * (rtol / 2) if math.isfinite(norm0) else rtol / 2
        elif sym == 'R=':
            v = norm0 * rtol if math.isfinite(norm0) else rtol
        elif sym == 'E':
            v = atol * (1 + 2.0 ** -20)
        elif sym == "E'":
            v = atol * (1 - 2.0 ** -20)
        elif sym == 'P':
            v = prev
        elif sym == 'P+':
            v = prev + stall_tol / 2
        elif sym == 'P-':
            v = abs(prev - stall_tol / 2)
        elif sym == 'P=':
            v = prev + stall_tol
        else:
            raise ValueError(sym)
        if k == 0 and first_is_initial:
            norm0 = v if v != 0.0 else 1.0
        out.append(v)
        prev = v
    return out


def exact_case(hist, stall_tol, first_is_initial):
    """True when every float operation the loop can perform on this history gives the same
    comparison outcome as exact arithmetic: norm/norm0 exact, and |a-b| <= stall_tol decided alike
    for every pair of values the stall check can see (stall_norm is norm0 or an earlier value)."""
    n0 = hist[0] if (first_is_initial and hist[0] != 0.0) else 1.0
    vals = [v for v in hist if math.isfinite(v)]
    rels = []
    if math.isfinite(n0):
        if Fraction(n0).numerator & (Fraction(n0).numerator - 1):     # not a power of two
            return False
        for v in vals:
            r = v / n0
            if Fraction(r) != Fraction(v) / Fraction(n0):
                return False
            rels.append(r)
    tol = Fraction(stall_tol)
    extra = [n0] if math.isfinite(n0) else []
    for pool in (vals + extra, rels + extra):
        for a in pool:
            for b in pool:
                d = abs(a - b)
                # one rounding (relative error <= 2^-53) can only flip the test close to stall_tol
                if stall_tol / 2 <= d <= 2 * stall_tol:
                    if (d <= stall_tol) != (abs(Fraction(a) - Fraction(b)) <= tol):
                        return False
    return True


def evaluates_initially(cls, maxiter):
    """Test-design knowledge only (which history entry becomes norm0); not used by the oracle."""
    if cls in ('NewtonSolver', 'BroydenSolver'):
        return True
    if cls in LN_CLASSES:
        return maxiter > 1
    return maxiter > 0


# ------------------------------------------------------------------------------------------------
# the real model the solvers are attached to

_OM = {}


def _om():
    if not _OM:
        import openmdao.api as om
        from openmdao.solvers.solver import NonlinearSolver
        from openmdao.core.analysis_error import AnalysisError

        class Lin(om.ExplicitComponent):
            """y = a*x + b with a declared constant partial (usable under complex step)."""

            def initialize(self):
                self.options.declare('a')
                self.options.declare('b')
                self.options.declare('xin')
                self.options.declare('yout')

            def setup(self):
                self.add_input(self.options['xin'], 1.0)
                self.add_output(self.options['yout'], 1.0)
                self.declare_partials(self.options['yout'], self.options['xin'],
                                      val=self.options['a'])

            def compute(self, inputs, outputs):
                outputs[self.options['yout']] = (self.options['a'] * inputs[self.options['xin']]
                                                 + self.options['b'])

        _OM.update(om=om, NonlinearSolver=NonlinearSolver, AnalysisError=AnalysisError, Lin=Lin)
    return _OM


class HistoryExhausted(Exception):
    pass


def build(cls_name, opts, extra, cs):
    m = _om()
    om = m['om']
    cls = getattr(om, cls_name)
    p = om.Problem()
    g = p.model.add_subsystem('g', om.Group(), promotes=['*'])
    g.add_subsystem('c1', m['Lin'](a=0.5, b=1.0, xin='y2', yout='y1'), promotes=['*'])
    g.add_subsystem('c2', m['Lin'](a=0.25, b=2.0, xin='y1', yout='y2'), promotes=['*'])
    kw = dict(opts)
    kw.update(extra)
    kw['iprint'] = -1
    s = cls(**kw)
    if issubclass(cls, m['NonlinearSolver']):
        g.nonlinear_solver = s
        if cls_name in ('NewtonSolver', 'BroydenSolver'):
            g.linear_solver = om.DirectSolver()
    else:
        g.linear_solver = s
    p.setup(force_alloc_complex=bool(cs))
    p.final_setup()
    if cs:
        p.model._set_complex_step_mode(True)
    return p, s, issubclass(cls, m['NonlinearSolver'])


def failure_kind(msg):
    low = msg.lower()
    if 'stall' in low:
        return 'stalled'
    if 'nan' in low or "'inf'" in low:
        return 'nan_inf'
    return 'not_converged'


# ------------------------------------------------------------------------------------------------

class C09(Property):
    pid = 'C09'
    workers = 8
    required_theorems = [
        'C09_result_is_history', 'C09_iter_bound', 'C09_stop_reason', 'C09_first_hit',
        'C09_stops_at_first_met', 'C09_nan_stops', 'C09_success_sound', 'C09_success_explicit',
        'C09_fail_of_not_met', 'C09_nan_inf_fails', 'C09_fail_iff', 'C09_stalled_outcome',
        'C09_prefix_order_breaks_fail_iff', 'C09_stall_sound', 'C09_raise_iff',
        'C09_ln_iter_bound', 'C09_ln_first_hit', 'C09_ln_stop_reason', 'C09_ln_success_sound',
        'C09_ln_fail_iff', 'C09_ln_raise_iff', 'C09_shipped_defaults_hyps',
        'C09_shipped_defaults_fail_iff',
    ]
    rule = ("cases: solver class in {Newton, Broyden, NLBGS (use_apply_nonlinear T/F, Aitken T/F), "
            "NLBJ, LinearBlockGS (Aitken T/F), LinearBlockJac} x maxiter in {-1,0..6} x (atol, rtol) "
            "in {(1e-10,1e-10),(1e-3,1e-30),(1e-30,1e-3)} x stall_limit in {0..5} x stall_tol in "
            "{1e-12, 2^-20} x stall_tol_type x err_on_non_converge x complex-step flag x scripted norm "
            "history over the alphabet {0, atol/2, atol, norm0*rtol/2, norm0*rtol, 16, 16+stall_tol/4, "
            "atol(1+-2^-20), previous, previous+-stall_tol/2, previous+stall_tol, NaN, Inf}, first norm in {1, 0, NaN, Inf, 16}; thorough "
            "tier enumerates every history for maxiter <= 2 (<= 1 under complex step) in every "
            "configuration and samples longer ones. Run through the public solve() of the real class "
            "on a real set-up model with only _iter_get_norm scripted. Non-trivial: at least one norm "
            "was evaluated by the real loop; distinct by canonical case encoding.")
    assumptions = [
        "histories are built so that every float operation of the loop (norm/norm0 with norm0 a power "
        "of two, |stall_norm - norm| <= stall_tol) decides exactly like rational arithmetic "
        "(checked per case by exact_case); comparison model vs implementation is exact",
        "residual norms are non-negative floats, tolerances are finite",
    ]
    level_text = ("NonlinearSolver._solve, LinearSolver._solve, the _iter_initialize variants of the six "
                  "classes (including NLBGS counting its initial sweep, block-linear (1.0,1.0) for "
                  "maxiter<=1, maxiter=0 synthetic norm), stall bookkeeping, the forced iteration under "
                  "complex step, the failure classification order and report_failure are modelled "
                  "literally in Lean over Python-float norms (nan | inf | rational). Proved for all "
                  "histories, options and classes by induction on the loop: iteration bound, loop = "
                  "first state where the while-condition fails (fuel always sufficient), first-hit, "
                  "success soundness, failure reported iff no tolerance is met (full strength, all classes, "
                  "stall detection included; re-stated on the regenerated defaults table), stall soundness, "
                  "raise iff failure and err_on_non_converge; a kernel-checked witness shows that the "
                  "pre-fix classification order (stall flag before tolerances) broke the iff. The model is "
                  "tied to the real classes by exact differential runs of the unmodified loops on scripted histories.")
    level_note = ("Trusted: Lean kernel + standard axioms; the Python harness and the scripting of "
                  "_iter_get_norm. Modelled, not verified: IEEE rounding (cases are exact by "
                  "construction); that _iter_get_norm returns the residual norm of the system; "
                  "ScipyKrylov/PETSc (their own loops) and ArmijoGoldsteinLS's backtracking loop are not "
                  "covered; MPI (print_flag, multi_proc_fail_check) not exercised.")
    technique = "Lean 4 proof by induction on the loop + exact differential correspondence"
    trusted_extra = ["scripted _iter_get_norm stands for the residual norm of the real system"]

    # -- translator ------------------------------------------------------------------------------
    def translate(self):
        try:
            m = _om()
            om = m['om']
            rows = []
            facts = []
            for name in NL_CLASSES + LN_CLASSES:
                s = getattr(om, name)()
                o = s.options
                d = {'maxiter': o['maxiter'], 'atol': o['atol'], 'rtol': o['rtol'],
                     'err': o['err_on_non_converge']}
                if name in NL_CLASSES:
                    d.update(stall_limit=o['stall_limit'], stall_tol=o['stall_tol'],
                             stall_rel=(o['stall_tol_type'] == 'rel'))
                else:
                    if 'stall_limit' in o:
                        raise TieBroken('%s now declares stall_limit; model of LinearSolver._solve '
                                        'is out of date' % name)
                    d.update(stall_limit=0, stall_tol=0.0, stall_rel=True)
                ua = bool(o['use_apply_nonlinear']) if name == 'NonlinearBlockGS' else False
                if not (isinstance(d['maxiter'], int) and d['maxiter'] >= 0
                        and isinstance(d['stall_limit'], int) and d['stall_limit'] >= 0):
                    raise TieBroken('unexpected default types for %s: %r' % (name, d))
                rows.append((name, ua, d))
                facts.append('%s defaults: %s' % (name, {k: d[k] for k in sorted(d)}))
        except TieBroken:
            raise
        except Exception as e:       # options renamed / class gone
            raise TieBroken('cannot extract solver option defaults: %s: %s' % (type(e).__name__, e))

        def q(x):
            f = Fraction(x)
            return '((%d : Rat) / %d)' % (f.numerator, f.denominator)

        def ctor(name, ua):
            k = CLASS_KEYS[name]
            return '.nlbgs %s' % ('true' if ua else 'false') if k == 'nlbgs' else '.' + k

        lines = ['/-', 'GENERATED by harness/c09.py:translate from the declared option defaults of the '
                 'solver classes', 'in /repo (instantiated, not parsed). Do not edit.', '-/',
                 'import OMV.Model.C09', '', 'namespace OMV.C09.Generated', 'open OMV.C09', '',
                 '/-- (class name, model class, declared defaults) -/',
                 'def shippedDefaults : List (String × SolverClass × Opts) := [']
        body = []
        for name, ua, d in rows:
            body.append('  ("%s", %s, { maxiter := %d, atol := %s, rtol := %s, stallLimit := %d, '
                        'stallTol := %s, stallRel := %s, errOnNonConverge := %s })'
                        % (name, ctor(name, ua), d['maxiter'], q(d['atol']), q(d['rtol']),
                           d['stall_limit'], q(d['stall_tol']), 'true' if d['stall_rel'] else 'false',
                           'true' if d['err'] else 'false'))
        lines.append(',\n'.join(body))
        lines += [']', '', 'end OMV.C09.Generated', '']
        text = '\n'.join(lines)
        path = os.path.join(LEAN, 'OMV', 'Generated', 'C09SolverOpts.lean')
        old = open(path).read() if os.path.exists(path) else None
        if old != text:
            with open(path, 'w') as fh:
                fh.write(text)
            facts.append('Generated/C09SolverOpts.lean rewritten')
        return facts

    # -- cases -----------------------------------------------------------------------------------
    def _mk(self, rng, cls, maxiter, tol, stall, cs, symbols, pad=2):
        atol, rtol = tol
        stall_limit, stall_tol, stall_type = stall
        first_init = evaluates_initially(cls, maxiter)
        alpha = ALPHA if stall_limit > 0 else ALPHA_NOSTALL
        syms = list(symbols) + [rng.choice(alpha) for _ in range(pad)]
        hist = concretize(syms, atol, rtol, stall_tol, first_init)
        if not exact_case(hist, stall_tol, first_init):
            return None
        opts = {'maxiter': maxiter, 'atol': enc(atol), 'rtol': enc(rtol),
                'err_on_non_converge': rng.random() < 0.5}
        extra = {}
        if cls in NL_CLASSES:
            opts.update(stall_limit=stall_limit, stall_tol=enc(stall_tol), stall_tol_type=stall_type)
            if rng.random() < 0.3:
                # diagnostics on: what is printed on a failure must not change what is reported
                opts['debug_print'] = True
        if cls == 'NewtonSolver':
            extra['solve_subsystems'] = rng.random() < 0.3
        if cls == 'NonlinearBlockGS':
            extra['use_apply_nonlinear'] = rng.random() < 0.4
            extra['use_aitken'] = rng.random() < 0.3
        if cls == 'LinearBlockGS':
            extra['use_aitken'] = rng.random() < 0.3
        return {'cls': cls, 'opts': opts, 'extra': extra, 'cs': bool(cs), 'sym': ' '.join(syms),
                'hist': [enc(v) for v in hist]}

    def _random_case(self, rng, maxiters):
        cls = rng.choice(NL_CLASSES + NL_CLASSES + LN_CLASSES)
        maxiter = rng.choice(maxiters)
        tol = rng.choice(TOL_GRID)
        if cls in NL_CLASSES:
            stall_limit = rng.choice([0, 0, 1, 1, 2, 2, 3, 4, 5, -1])
            stall = (stall_limit, rng.choice(STALL_TOLS), rng.choice(['rel', 'abs']))
            cs = rng.random() < 0.3
        else:
            stall = (0, 1e-12, 'rel')
            cs = rng.random() < 0.1
        first_init = evaluates_initially(cls, maxiter)
        alpha = ALPHA if stall[0] > 0 else ALPHA_NOSTALL
        n = max(maxiter, 0) + 1 + (1 if cs else 0)
        # bias towards long runs: mostly non-terminating symbols, a terminating one near the end
        syms = []
        for k in range(n):
            if k == 0 and first_init:
                syms.append(rng.choice(FIRST + (['0', '0', '1', 'H'] if cs else
                                                ['1'] * 5 + ['H'] * 3)))
            else:
                if rng.random() < 0.6:
                    syms.append(rng.choice([s for s in alpha if s in
                                            ('H', "H'", 'E', 'P', 'P+', 'P-', 'P=', 'Inf')]))
                else:
                    syms.append(rng.choice(alpha))
        return self._mk(rng, cls, maxiter, tol, stall, cs, syms)

    def cases(self, rng, tier):
        if tier != 'thorough':
            n = 0
            while n < 3500:
                c = self._random_case(rng, [-1, 0, 1, 1, 2, 2, 3, 3, 4, 4, 5, 6])
                if c is not None:
                    n += 1
                    yield c
            return
        # thorough: exhaustive part
        for cls in NL_CLASSES + LN_CLASSES:
            nl = cls in NL_CLASSES
            stalls = [(0, 1e-12, 'rel')]
            if nl:
                stalls += [(1, st, ty) for ty in ('rel', 'abs') for st in STALL_TOLS]
                stalls += [(2, STALL_TOLS[1], 'rel'), (2, STALL_TOLS[1], 'abs'),
                           (3, STALL_TOLS[0], 'rel')]
            for tol in TOL_GRID:
                for stall in stalls:
                    alpha = ALPHA if stall[0] > 0 else ALPHA_NOSTALL
                    for cs in ((False, True) if nl else (False,)):
                        for maxiter in ((0, 1) if cs else (0, 1, 2)):
                            first_init = evaluates_initially(cls, maxiter)
                            n = maxiter + 1 + (1 if cs else 0)
                            pools = [(FIRST if (k == 0 and first_init) else alpha) for k in range(n)]
                            for syms in itertools.product(*pools):
                                c = self._mk(rng, cls, maxiter, tol, stall, cs, syms)
                                if c is not None:
                                    yield c
        # sampled part: longer histories, larger stall limits, negative maxiter
        n = 0
        while n < 60000:
            c = self._random_case(rng, [-1, 3, 3, 4, 4, 5, 6])
            if c is not None:
                n += 1
                yield c

    def search(self, rng, budget_s):
        while True:
            c = self._random_case(rng, [0, 1, 2, 3, 4, 5, 6])
            if c is not None:
                yield c

    # -- real code -------------------------------------------------------------------------------
    def run_impl(self, case):
        m = _om()
        opts = dict(case['opts'])
        for k in ('atol', 'rtol', 'stall_tol'):
            if k in opts:
                opts[k] = dec(opts[k])
        hist = [dec(x) for x in case['hist']]
        res = {}
        with warnings.catch_warnings():
            warnings.simplefilter('ignore')
            try:
                p, s, is_nl = build(case['cls'], opts, case['extra'], case['cs'])
            except Exception as e:
                return {'error': 'setup:%s' % type(e).__name__, 'msg': str(e)[:300]}
            count = {'single': 0, 'norm': 0}
            fails = []
            real_single = s._single_iteration
            real_report = s.report_failure

            def single():
                count['single'] += 1
                real_single()

            def get_norm():
                k = count['norm']
                count['norm'] += 1
                if k >= len(hist):
                    raise HistoryExhausted()
                return hist[k]

            def report(msg):
                fails.append(str(msg))
                return real_report(msg)

            s._single_iteration = single
            s._iter_get_norm = get_norm
            s.report_failure = report
            raised = None
            import contextlib
            import io
            try:
              with contextlib.redirect_stdout(io.StringIO()):
                if is_nl:
                    s.solve()
                else:
                    s.solve('fwd')
            except HistoryExhausted:
                res['exhausted'] = True
            except m['AnalysisError'] as e:
                raised = 'AnalysisError'
                res['msg'] = str(e)[:200]
            except Exception as e:
                raised = type(e).__name__
                res['msg'] = str(e)[:300]
        res.update(iters=int(s._iter_count), singles=count['single'], evals=count['norm'],
                   raised=raised, n_failures=len(fails),
                   failure=(failure_kind(fails[-1]) if fails else None))
        return res

    # -- the contract, evaluated directly on (history, observed outcome) ---------------------------
    def _observed(self, case, impl):
        o = case['opts']
        atol, rtol = dec(o['atol']), dec(o['rtol'])
        hist = [dec(x) for x in case['hist']]
        singles, evals = impl['singles'], impl['evals']
        init_eval = evals - singles
        if init_eval not in (0, 1) or evals > len(hist):
            return None
        seen = [hist[0] if init_eval else None] + [hist[init_eval + j - 1]
                                                   for j in range(1, singles + 1)]
        norm0 = 1.0 if (seen[0] is None or seen[0] == 0.0) else seen[0]

        def meets(n):
            if n is None or not math.isfinite(n):
                return False
            return not (n > atol and n / norm0 > rtol)
        return seen, norm0, meets

    def oracle(self, case, impl):
        if 'error' in impl:
            return {'what': 'setup_failed', 'msg': impl.get('msg')}
        o = case['opts']
        maxiter = max(o['maxiter'], 0)
        cs = case['cs']
        if impl.get('exhausted'):
            return {'what': 'iteration_bound_exceeded', 'detail': 'scripted history of %d norms '
                    'exhausted (maxiter=%d)' % (len(case['hist']), o['maxiter'])}
        limit = max(maxiter, 1) if cs else maxiter
        if impl['iters'] > limit or impl['singles'] > limit:
            return {'what': 'iteration_bound_exceeded', 'iters': impl['iters'],
                    'singles': impl['singles'], 'limit': limit}
        if impl['raised'] not in (None, 'AnalysisError'):
            return {'what': 'unexpected_exception', 'exception': impl['raised'],
                    'msg': impl.get('msg')}
        obs = self._observed(case, impl)
        if obs is None:
            return {'what': 'norm_evaluations_not_one_per_iteration', 'evals': impl['evals'],
                    'singles': impl['singles']}
        seen, norm0, meets = obs
        for j in range(impl['singles']):
            if cs and j == 0:
                continue
            if meets(seen[j]):
                return {'what': 'iterated_past_a_converged_iterate', 'iterate': j,
                        'norm': enc(seen[j]), 'norm0': enc(norm0)}
        final = seen[impl['singles']]
        failed = impl['failure'] is not None
        if not failed and not meets(final):
            return {'what': 'success_reported_but_no_tolerance_met',
                    'final': None if final is None else enc(final), 'norm0': enc(norm0)}
        if failed and meets(final):
            return {'what': 'failure_reported_but_tolerance_met', 'kind': impl['failure'],
                    'final': enc(final), 'norm0': enc(norm0)}
        if impl['n_failures'] > 1:
            return {'what': 'failure_reported_more_than_once', 'n': impl['n_failures']}
        want_raise = failed and bool(o['err_on_non_converge'])
        if (impl['raised'] == 'AnalysisError') != want_raise:
            return {'what': 'analysis_error_iff_failure_and_err_on_non_converge',
                    'raised': impl['raised'], 'failed': failed,
                    'err_on_non_converge': o['err_on_non_converge']}
        return None

    def signature(self, case, impl, failure):
        return {'what': failure.get('what'), 'kind': impl.get('failure'),
                'stall_enabled': case['opts'].get('stall_limit', 0) > 0,
                'linear': case['cls'] in LN_CLASSES}

    def nontrivial(self, case, impl):
        return impl.get('evals', 0) >= 1

    def bucket(self, case, impl):
        o = case['opts']
        b = ['cls=' + case['cls'], 'maxiter=%d' % o['maxiter'], 'cs=%s' % case['cs'],
             'stall_limit=%s' % o.get('stall_limit', 'n/a')]
        if 'error' in impl:
            return b + ['impl_error']
        b.append('outcome=' + (impl['failure'] or 'converged'))
        b.append('raised=%s' % impl['raised'])
        b.append('iters=%d' % impl['iters'])
        if impl['iters'] != impl['singles']:
            b.append('iters!=singles (NLBGS initial sweep)')
        if impl['evals'] == impl['singles']:
            b.append('no_initial_norm (synthetic 1.0)')
        if impl['iters'] > max(o['maxiter'], 0):
            b.append('forced_iteration_beyond_maxiter')
        obs = None if impl.get('exhausted') else self._observed(case, impl)
        if obs is not None:
            seen, norm0, meets = obs
            final = seen[impl['singles']]
            if impl['failure'] == 'stalled':
                b.append('stalled_and_met' if meets(final) else 'stalled_not_met')
            if final is not None and math.isnan(final):
                b.append('final=nan')
            if final is not None and math.isinf(final):
                b.append('final=inf')
            if not math.isfinite(norm0):
                b.append('norm0_nonfinite')
        return b

    # -- model -----------------------------------------------------------------------------------
    def model_requests(self, case, impl):
        if 'error' in impl or impl.get('exhausted'):
            return []
        o = case['opts']
        return [{'op': 'solve', 'cls': CLASS_KEYS[case['cls']],
                 'use_apply_nonlinear': bool(case['extra'].get('use_apply_nonlinear', False)),
                 'maxiter': max(o['maxiter'], 0), 'atol': o['atol'], 'rtol': o['rtol'],
                 'stall_limit': max(o.get('stall_limit', 0), 0),
                 'stall_tol': o.get('stall_tol', '0/1'),
                 'stall_rel': o.get('stall_tol_type', 'rel') == 'rel',
                 'err': bool(o['err_on_non_converge']), 'cs': bool(case['cs']),
                 'hist': case['hist']}]

    def compare(self, case, impl, answers):
        a = answers[0]
        if a['evals'] > len(case['hist']):
            return 'model consumed %d norms, history has %d' % (a['evals'], len(case['hist']))
        got = {'iters': impl['iters'], 'singles': impl['singles'], 'evals': impl['evals'],
               'outcome': impl['failure'] or 'converged',
               'raised': impl['raised'] == 'AnalysisError'}
        exp = {k: a[k] for k in got}
        if got != exp:
            return 'implementation %s != model %s' % (got, exp)
        return None


PROP = C09()
