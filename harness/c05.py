"""C05 — Index objects follow NumPy indexing semantics.

Three-way comparison on every case: the real `openmdao.utils.indexer.indexer` / the Lean `omIndexer`
(model of the code) / the Lean `npIndex` (reference semantics), with real NumPy
(`np.arange(prod(shape)).reshape(shape)[idx]`) as the direct oracle and as the validator of `npIndex`
(an npIndex-vs-NumPy disagreement is an infrastructure error, never a violation).

A case is `{'k': 'idx', 'shape': [...], 'flat': bool, 'idx': '<subscript text>', 'arr': 'list'|'nd',
'ts': bool}`; the text is what one writes inside `om.slicer[...]` (it is evaluated exactly like
that, so `om.slicer` is exercised on every case), e.g. `"1"`, `"-1, ::2"`, `"[0,2], ..."`,
`"[[0,1],[1,0]]"`, `"1,"` (1-tuple), `"()"`.  `arr='nd'` passes integer arrays as `np.ndarray`,
`'list'` as Python lists.  `{'k': 'a2s', ...}` cases are batches of arrays for `array2slice`.
"""
import functools
import itertools
import warnings

import numpy as np

import common
from common import Property

ERRMAP = {'IndexError': 'index', 'ValueError': 'value', 'RuntimeError': 'runtime'}


# ------------------------------------------------------------------------------------------------
# building index objects

def _conv(o, mode):
    """Lists -> int ndarrays when mode == 'nd' (empty lists always: `[]` alone has float dtype)."""
    if isinstance(o, list):
        a = np.array(o, dtype=int)
        if mode == 'nd' or a.size == 0:
            return a
        return o
    return o


@functools.lru_cache(maxsize=400000)
def _parse(text):
    from openmdao.utils.indexer import slicer      # this is om.slicer
    return eval('S[' + text + ']', {'__builtins__': {}}, {'S': slicer})


def build(case, mode=None):
    mode = mode or case.get('arr', 'list')
    o = _parse(case['idx'])      # never mutated (lists are copied into arrays or passed read-only)
    if isinstance(o, list):
        o = [list(r) if isinstance(r, list) else r for r in o]
    if isinstance(o, tuple):
        return tuple(_conv(e, mode) for e in o)
    return _conv(o, mode)


def entries(o):
    return list(o) if isinstance(o, tuple) else [o]


def ix_json(e):
    if e is Ellipsis:
        return 'e'
    if isinstance(e, slice):
        return {'s': [e.start, e.stop, e.step]}
    if isinstance(e, (list, np.ndarray)):
        a = np.asarray(e, dtype=int)
        return {'a': list(a.shape), 'd': a.ravel().tolist()}
    return {'i': int(e)}


def spec_json(o):
    if isinstance(o, tuple):
        return {'tup': [ix_json(e) for e in o]}
    return {'one': ix_json(o)}


@functools.lru_cache(maxsize=400000)
def _ref(text, shape, flat):
    return np_ref(build({'idx': text}, 'nd'), shape, flat)


def case_ref(case):
    return _ref(case['idx'], tuple(case['shape']), case['flat'])


def np_ref(o, shape, flat):
    """Real NumPy: ('ok', positions, shape) or ('err', name)."""
    size = int(np.prod(shape))
    src = np.arange(size)
    if not flat:
        src = src.reshape(shape)
    if isinstance(o, tuple):
        o = tuple(np.asarray(e, dtype=int) if isinstance(e, list) else e for e in o)
    elif isinstance(o, list):
        o = np.asarray(o, dtype=int)
    try:
        r = src[o]
    except Exception as e:   # noqa
        return ('err', type(e).__name__)
    return ('ok', np.ravel(r).tolist(), [int(x) for x in np.shape(r)])


def has_step0(o):
    return any(isinstance(e, slice) and e.step == 0 for e in entries(o))


def oob_entry(o, shape, flat):
    """OpenMDAO's bounds checks are stricter than NumPy, as documented in `_check_bounds`: a slice
    whose start or stop lies outside the source raises IndexError (NumPy clamps), and an index array
    is checked even when the broadcast block is empty (NumPy then never looks at its entries).  Used
    only to excuse an IndexError of indexer(): some int / array element / slice start / slice stop
    lies outside [-n, n) (stop: [-n, n]) for the extent n of the axis it applies to."""
    shp = [int(np.prod(shape))] if flat else list(shape)
    es = entries(o)
    k = len([e for e in es if e is not Ellipsis])
    axis = 0
    for e in es:
        if e is Ellipsis:
            axis += max(0, len(shp) - k)
            continue
        if axis < len(shp):
            n = shp[axis]
            if isinstance(e, slice):
                for v, hi in ((e.start, n - 1), (e.stop, n)):
                    if v is not None and (v > hi or v < -n):
                        return True
            else:
                a = np.asarray(e, dtype=int)
                if a.size and (a.max() >= n or a.min() < -n):
                    return True
        axis += 1
    return False


def family(o, shape, flat):
    """Input class as OpenMDAO dispatches it (used for coverage buckets and known-finding
    signatures)."""
    rank = 1 if flat else len(shape)
    n0 = int(np.prod(shape)) if flat else shape[0]
    eff = o
    if o is Ellipsis:
        eff = slice(None) if rank == 1 else ()
    elif isinstance(o, tuple) and any(e is Ellipsis for e in o):
        rest = [e for e in o if e is not Ellipsis]
        if rank == 1 and len(rest) <= 1:
            eff = rest[0] if rest else slice(None)
        else:
            pos = [k for k, e in enumerate(o) if e is Ellipsis][0]
            adv = [not isinstance(e, slice) for e in rest]
            if (len(rest) == rank and any(adv[:pos]) and any(adv[pos:])
                    and any(isinstance(e, (list, np.ndarray)) for e in rest)):
                # the ellipsis expands to no axis but separates two advanced indices
                return 'tuple-ellipsis-zero-width-between-advanced'
            return 'tuple-ellipsis'
    if isinstance(eff, tuple):
        return 'tuple'
    where = 'rank1' if rank == 1 else 'nonflat-multidim'
    if isinstance(eff, slice):
        st = 1 if eff.step is None else eff.step
        if st < 0 and eff.start is None and eff.stop is not None and rank == 1:
            return 'bare-slice-negstep-openstart/rank1'
        if st < 0 and rank > 1 and any(v is not None and v < -n0 for v in (eff.start, eff.stop)):
            return 'bare-slice-negstep-below-axis/nonflat-multidim'
        return 'bare-slice/' + where
    if isinstance(eff, (list, np.ndarray)):
        if np.ndim(eff) >= 2:
            return 'bare-arrayNd'
        return 'bare-array1d/' + where
    return 'bare-int/' + where


def ename(e):
    return type(e).__name__


def q(f):
    try:
        return f()
    except Exception as e:   # the real code's exceptions are results
        return {'err': ename(e)}


def is_err(x):
    return isinstance(x, dict)


def outcome(r):
    """What a user ends up with: an error (from the call or from every query) or results."""
    if r['create'] != 'ok' or (is_err(r['pos']) and is_err(r['shape'])):
        return 'error'
    return (str(r['pos']), str(r['shape']))


# ------------------------------------------------------------------------------------------------
# grammar

def fmt_slice(a, b, c):
    s = '%s:%s' % ('' if a is None else a, '' if b is None else b)
    if c is not None:
        s += ':%d' % c
    return s


def fmt_arr(a):
    return str(a).replace(' ', '')


STEPS = [None, 1, -1, 2, -2, 3, -3]


def full_alphabet(n, sz=None, small=False):
    """Per-axis entries for an axis of extent n (sz: total size when a bare slice/array is checked
    against the whole source)."""
    ints = list(range(-n - 1, n + 1))
    vals = [None] + list(range(-n - 1, n + 2))
    if sz is not None and sz != n:
        ints += [-sz - 1, -sz, sz - 1, sz]
        vals += [-sz - 1, -sz, -sz + 1, sz - 1, sz, sz + 1]
    ints = sorted(set(ints))
    vals = [None] + sorted(set(v for v in vals if v is not None))
    out = [str(i) for i in ints]
    steps = STEPS if not small else [None, -1, 2, -2, -3]
    for a in vals:
        for b in vals:
            for c in steps:
                out.append(fmt_slice(a, b, c))
    av = list(range(-n - 1, n + 1)) if n <= 3 else [-n - 1, -n, -1, 0, 1, n - 1, n]
    if sz is not None and sz != n:
        av += [-sz, sz - 1]
    out.append('[]')
    for L in (1, 2, 3):
        if L == 3 and (n > 3 or small):
            continue
        for t in itertools.product(av, repeat=L):
            out.append(fmt_arr(list(t)))
    if n > 3:
        out += [fmt_arr([0, 2, 4][:min(3, n)]), fmt_arr([n - 1, n - 2, n - 3]), '[1,1,1]', '[0,-1,1]']
    tv = [0, -1, n - 1]
    for t in itertools.product(tv, repeat=4):
        out.append(fmt_arr([list(t[:2]), list(t[2:])]))
    out += ['[[0,%d]]' % (n - 1), '[[0],[-1]]', '[[0,0,0]]']
    return out


def reduced_alphabet(n, level):
    """Entries used inside tuples for an axis of extent n (level 2: richer, level 3: smaller)."""
    out = ['0', '-1', str(n - 1), str(-n), str(n), str(-n - 1),
           ':', '::-1', '1:', ':-1', '::2', '-1::-2', '%d:' % (-n - 1), ':%d' % (n + 1),
           '[0]', '[%d,0]' % (n - 1), '[-1,0]', '[[0,%d],[-1,0]]' % (n - 1), '[%d]' % n, '[]']
    if level <= 2:
        out += ['%d::-1' % (n - 1), ':0:-1', ':%d:-1' % (-n), '0:%d' % n, '-%d:' % n, '1:1', '::3',
                '%d:%d' % (n, n), ':1:-1', '-1:-%d:-1' % (n + 1), '::-3',
                '[0,0]', '[%d]' % (-n - 1), '[%d,-1,0]' % (n - 1), '[[0],[-1]]', '[[0,-1]]',
                '[0,%d]' % (-n), '[1]' if n > 1 else '[-1]']
    return list(dict.fromkeys(out))


def text_kind(text):
    """'ell' (contains an ellipsis), 'tup' (a tuple: top-level comma or `()`), 'bare' (non-tuple)."""
    if '...' in text:
        return 'ell'
    if text == '()':
        return 'tup'
    depth = 0
    for ch in text:
        if ch == '[':
            depth += 1
        elif ch == ']':
            depth -= 1
        elif ch == ',' and depth == 0:
            return 'tup'
    return 'bare'


def rank1_shapes():
    return [(n,) for n in range(1, 7)]


def multi_shapes():
    out = []
    for r in (2, 3):
        out += list(itertools.product((1, 2, 3), repeat=r))
    return out


def grammar():
    """The bounded grammar, exhaustively: tuples (shape, flat, text, ts)."""
    # rank-1 sources: full alphabet, bare / 1-tuple / with ellipsis before or after
    for shape in rank1_shapes():
        n = shape[0]
        alpha = full_alphabet(n)
        for flat in (False, True):
            for x in alpha:
                yield (shape, flat, x, False)
                yield (shape, flat, x + ',', False)
                yield (shape, flat, '..., ' + x, False)
                yield (shape, flat, x + ', ...', False)
                if x.startswith('[') and not x.startswith('[['):
                    yield (shape, flat, x, True)
            for t in ('...', '()', '...,', '0, 0', '0, ..., 0', ':, :', '[0], [0]', '..., 0, 0'):
                yield (shape, flat, t, False)
    for shape in multi_shapes():
        n0 = shape[0]
        sz = int(np.prod(shape))
        rank = len(shape)
        # non-tuple index into a multi-dimensional source (not flat: applies to axis 0, bounds
        # checked against the total size; flat: applies to the flattened source)
        for x in full_alphabet(n0, sz, small=True):
            yield (shape, False, x, False)
            if x.startswith('[') and not x.startswith('[['):
                yield (shape, False, x, True)
        for x in full_alphabet(sz, small=True) if sz <= 4 else flat_alphabet(sz):
            yield (shape, True, x, False)
            yield (shape, True, x + ',', False)
            yield (shape, True, '..., ' + x, False)
        for t in ('...', '()', '...,', '0, 0', '0, ..., 0', ':, :', '..., 0, 0', '[[0,1]], ...'):
            yield (shape, True, t, False)
        # tuples, not flat
        level = 2 if rank == 2 else 3
        alphas = [reduced_alphabet(n, level) for n in shape]
        for t in itertools.product(*alphas):
            yield (shape, False, ', '.join(t), False)
        small = [reduced_alphabet(n, 3)[:14] for n in shape]
        # shorter tuples and ellipsis anywhere
        for k in range(1, rank):
            for t in itertools.product(*alphas[:k]):
                yield (shape, False, ', '.join(t) + ',', False)
                yield (shape, False, ', '.join(t) + ', ...', False)
            for t in itertools.product(*alphas[rank - k:]):
                yield (shape, False, '..., ' + ', '.join(t), False)
        if rank == 3:
            for a in small[0]:
                for c in small[2]:
                    yield (shape, False, '%s, ..., %s' % (a, c), False)
        for t in itertools.product(*small):
            for pos in range(rank + 1):
                tt = list(t)
                tt.insert(pos, '...')
                yield (shape, False, ', '.join(tt), False)
        # too many entries
        for t in itertools.product(*[a[:4] for a in alphas]):
            yield (shape, False, ', '.join(t) + ', 0', False)
            yield (shape, False, ', '.join(t) + ', ..., 0', False)
        for t in ('...', '()', '...,'):
            yield (shape, False, t, False)


def flat_alphabet(sz):
    ints = sorted({-sz - 1, -sz, -sz + 1, -2, -1, 0, 1, 2, sz - 2, sz - 1, sz})
    vals = [None] + sorted({-sz - 1, -sz, -sz + 1, -2, -1, 0, 1, 2, sz - 1, sz, sz + 1})
    out = [str(i) for i in ints]
    for a in vals:
        for b in vals:
            for c in [None, -1, 2, -2, -3]:
                out.append(fmt_slice(a, b, c))
    av = [-sz - 1, -sz, -1, 0, 1, sz - 1, sz]
    out.append('[]')
    for L in (1, 2):
        for t in itertools.product(av, repeat=L):
            out.append(fmt_arr(list(t)))
    out += ['[0,2,4]', '[%d,%d,%d]' % (sz - 1, sz - 2, sz - 3), '[[0,%d],[-1,0]]' % (sz - 1),
            '[[0,1]]', '[[0],[1]]']
    return out


def rand_entry(rng, n, arrlen):
    r = rng.random()
    if r < 0.28:
        if rng.random() < 0.08 or n == 0:
            return str(rng.choice([n, n + 1, -n - 1, -n - 2]))
        return str(rng.randrange(-n, n))
    if r < 0.66:
        def v():
            t = rng.random()
            if t < 0.3:
                return None
            if t < 0.93:
                return rng.randrange(-n, n + 1)
            return rng.choice([n + 1, n + 2, -n - 1, -n - 2])
        c = rng.choice([None, None, 1, -1, -1, 2, -2, 3, -3, 5, -4])
        if rng.random() < 0.01:
            c = 0
        return fmt_slice(v(), v(), c)
    if r < 0.92:
        L = arrlen if rng.random() < 0.85 else rng.choice([0, 1, 2, 3, 5])
        if n == 0:
            return '[]'
        a = [rng.randrange(-n, n) for _ in range(L)]
        if a and rng.random() < 0.06:
            a[rng.randrange(len(a))] = rng.choice([n, -n - 1])
        return fmt_arr(a)
    if n == 0:
        return ':'
    shp = rng.choice([(2, 2), (1, 3), (3, 1), (2, 1), (1, arrlen), (arrlen, 1), (2, arrlen)])
    a = [[rng.randrange(-n, n) for _ in range(shp[1])] for _ in range(shp[0])]
    return fmt_arr(a)


def rand_case(rng):
    rank = rng.choice([1, 1, 2, 2, 2, 3, 3, 4])
    hi = 9 if rank <= 2 else (6 if rank == 3 else 4)
    shape = tuple(rng.randint(1, hi) for _ in range(rank))
    flat = rng.random() < 0.3
    er = 1 if flat else rank
    ext = [int(np.prod(shape))] if flat else list(shape)
    arrlen = rng.choice([1, 2, 3, 3, 4, 6])
    m = rng.random()
    if m < 0.3:
        text = rand_entry(rng, ext[0], arrlen)
        ts = text.startswith('[') and not text.startswith('[[') and rng.random() < 0.5
        return (shape, flat, text, ts)
    k = rng.randint(1, er) if rng.random() < 0.92 else er + 1
    if m < 0.8:
        es = [rand_entry(rng, ext[min(j, er - 1)], arrlen) for j in range(k)]
        return (shape, flat, ', '.join(es) + (',' if k == 1 else ''), False)
    k = rng.randint(0, er)
    pos = rng.randint(0, k)
    # axes after the ellipsis are right-aligned
    es = []
    for j in range(k):
        ax = j if j < pos else er - (k - j)
        es.append(rand_entry(rng, ext[ax], arrlen))
    es.insert(pos, '...')
    return (shape, flat, ', '.join(es) + (',' if len(es) == 1 else ''), False)


class C05(Property):
    pid = 'C05'
    workers = 8
    required_theorems = [
        'C05_slice_progression', 'C05_slice_indices_in_bounds', 'C05_shaped_int_preserves',
        'C05_shaped_slice_preserves', 'C05_fixed_slice_witnesses',
        'C05_tuple_refines_numpy', 'C05_ellipsis_refines_partial',
        'C05_ellipsis_zero_width_counterexample', 'C05_rank1_int_refines',
        'C05_rank1_array_refines', 'C05_rank1_slice_refines',
        'C05_bare_slice_multidim_refines', 'C05_bare_int_shape_refines',
        'C05_bare_int_multidim_counterexample', 'C05_bare_array_multidim_counterexample',
        'C05_array2d_reinterpreted_counterexample', 'C05_bounds_error_iff',
        'C05_array2slice_sound', 'C05_array2slice_none_iff', 'C05_try_slice_preserves',
        'C05_flat_position_formula', 'C05_result_shape_size',
    ]
    rule = ("cases: the bounded grammar of DESIGN C05 (all source shapes of rank <= 3 with extents 1..3 "
            "and rank 1 up to 6; per axis: ints in [-n-1, n], slices with start/stop in {None, -n-1..n+1} "
            "and step in {None, +-1, +-2, +-3}, integer arrays of length <= 3, 2x2 arrays, tuples up to "
            "the rank, one ellipsis anywhere, shorter and too long tuples; flat_src in {T, F}; arrays as "
            "lists or ndarrays; try_slice) enumerated exhaustively in the thorough tier and sampled in "
            "quick, plus random shapes of rank <= 4 with extents <= 9, plus array2slice on all integer "
            "arrays of length <= 6 over [-2, 7] (thorough; length <= 4 and random longer ones in quick). "
            "Every index text is evaluated through om.slicer. Non-trivial: the index is not the "
            "identity selection (NumPy result differs from arange(size) or NumPy raises); array2slice "
            "batches always. Distinct by canonical case encoding.")
    assumptions = ["NumPy's own indexing (np.arange(prod(shape)).reshape(shape)[idx]) is the reference",
                   "source rank >= 1, extents >= 1, at most one ellipsis, integer-dtype arrays, no "
                   "None/bool entries, python ints (not np.integer scalars)"]
    level_text = ("npIndex (reference NumPy semantics incl. negative wrap, slice.indices, ellipsis, "
                  "broadcasting, advanced-index placement) and omIndexer (the classes of indexer.py with "
                  "their fast paths, bounds checks and shaped instances) are executable Lean models. Proved "
                  "for all shapes and indices (no size bound): slice progression/length/in-bounds, "
                  "resolution of negatives and open slices preserves the selection (ints/arrays under "
                  "the bounds-check hypothesis, slices unconditionally), bounds checks accept exactly "
                  "NumPy's ints/arrays, "
                  "array2slice soundness and completeness on progressions, try_slice preserves the "
                  "selection, flat position = sum idx*stride in C order (injective, in range), result "
                  "size, and omIndexer = npIndex for tuples (any rank, flat or not), for tuples with an "
                  "ellipsis, for non-tuple indices into rank-1/flat sources and for non-tuple slices "
                  "at any rank; the fast paths taken outside their hypothesis keep a _partial theorem "
                  "and a kernel-checked counterexample (defect families F1 int/array fast paths, F2 "
                  "N-D array reinterpretation, F5 zero-width ellipsis; the two slice defects F3/F4 are "
                  "fixed in /repo and kept as regression witnesses). Tied to the real indexer by exhaustive bounded and random "
                  "differential runs with real NumPy as direct oracle.")
    level_note = ("Trusted: Lean kernel + standard axioms; the Python harness; NumPy as the reference. "
                  "Differential only: indexed_val, flat(), as_array(), set_src_shape-later, copy=True; "
                  "np.arange with a 2^63-scale length (platform dependent) is not modelled.")
    technique = "Lean 4 proof (integer/list reasoning, refinement to a NumPy spec) + exhaustive bounded differential correspondence"
    trusted_extra = ["NumPy indexing itself (reference; npIndex is validated against it on every case)"]

    def setup(self, tier):
        import openmdao.utils.indexer   # noqa: imported before the worker pool forks

    # -- cases -------------------------------------------------------------------------------------
    def cases(self, rng, tier):
        allg = list(grammar())
        if tier == 'thorough':
            picked = allg
            nrand = 60000
        else:
            # stratified sample: equal quota per (rank, flat, non-tuple / tuple / ellipsis) group
            groups = {}
            for g in allg:
                kind = text_kind(g[2])
                groups.setdefault((len(g[0]), g[1], kind), []).append(g)
            quota = 12000 // len(groups)
            picked = []
            for key in sorted(groups, key=str):
                grp = groups[key]
                picked += rng.sample(grp, min(quota, len(grp)))
            nrand = 3000
        k = 0
        for (shape, flat, text, ts) in picked:
            k += 1
            yield {'k': 'idx', 'shape': list(shape), 'flat': flat, 'idx': text,
                   'arr': 'nd' if k % 3 == 0 else 'list', 'ts': ts}
        for _ in range(nrand):
            shape, flat, text, ts = rand_case(rng)
            yield {'k': 'idx', 'shape': list(shape), 'flat': flat, 'idx': text,
                   'arr': rng.choice(['list', 'nd']), 'ts': ts}
        # array2slice
        lo, hi = -2, 7
        if tier == 'thorough':
            for n in range(0, 5):
                yield {'k': 'a2s', 'prefix': [], 'n': n, 'lo': lo, 'hi': hi}
            for a in range(lo, hi + 1):
                yield {'k': 'a2s', 'prefix': [a], 'n': 5, 'lo': lo, 'hi': hi}
                for b in range(lo, hi + 1):
                    yield {'k': 'a2s', 'prefix': [a, b], 'n': 6, 'lo': lo, 'hi': hi}
        else:
            for n in range(0, 5):
                yield {'k': 'a2s', 'prefix': [], 'n': n, 'lo': lo, 'hi': hi}
        for _ in range(40 if tier == 'thorough' else 8):
            arrs = []
            for _ in range(250):
                L = rng.randint(2, 12)
                r = rng.random()
                if r < 0.6:     # arithmetic progressions, sometimes perturbed
                    a0 = rng.randint(-3, 40)
                    st = rng.choice([1, 1, 2, 3, 5, -1, -1, -2, -3, 0])
                    a = [a0 + j * st for j in range(L)]
                    if rng.random() < 0.3:
                        a[rng.randrange(L)] += rng.choice([-1, 1])
                else:
                    a = [rng.randint(-3, 30) for _ in range(L)]
                arrs.append(a)
            yield {'k': 'a2s', 'arrays': arrs}

    @staticmethod
    def a2s_arrays(case):
        if 'arrays' in case:
            return case['arrays']
        vals = range(case['lo'], case['hi'] + 1)
        pre = case['prefix']
        return [pre + list(t) for t in itertools.product(vals, repeat=case['n'] - len(pre))]

    # -- real code ---------------------------------------------------------------------------------
    def run_impl(self, case):
        from openmdao.utils.indexer import indexer, array2slice
        if case['k'] == 'a2s':
            out = []
            for k, a in enumerate(self.a2s_arrays(case)):
                s = array2slice(np.array(a, dtype=int))
                if s is not None:
                    out.append([k, [s.start, s.stop, s.step]])
            return {'r': out}
        shape = tuple(case['shape'])
        flat = case['flat']
        ts = case.get('ts', False)
        size = int(np.prod(shape))
        src = np.arange(size).reshape(shape)
        res = {}
        with warnings.catch_warnings():
            warnings.simplefilter('ignore')
            try:
                ix = indexer(build(case), src_shape=shape, flat_src=flat, try_slice=ts)
            except Exception as e:
                res['create'] = ename(e)
                ix = None
            if ix is not None:
                res['create'] = 'ok'
                res['pos'] = q(lambda: [int(x) for x in np.ravel(ix.shaped_array())])
                res['shape'] = q(lambda: [int(x) for x in ix.indexed_src_shape])
                val = q(lambda: np.ravel(ix.indexed_val(src)).tolist())
                if val != res['pos']:
                    res['val'] = val
                alt = {}
                flatsrc = np.arange(size)

                def wrapped(a):
                    a = np.ravel(a)
                    return flatsrc[a].tolist() if a.size else []
                alts = [('shaped_array(copy=True)',
                         lambda: [int(x) for x in np.ravel(ix.shaped_array(copy=True))]),
                        ('indexed_src_size', lambda: ix.indexed_src_size)]
                if flat or len(shape) == 1:
                    # "index array or slice into a flat array": only meaningful for a flat source
                    alts += [('flat()', lambda: np.ravel(flatsrc[ix.flat()]).tolist()),
                             ('as_array()', lambda: wrapped(ix.as_array()))]
                for name, f in alts:
                    v = q(f)
                    ref = res['pos']
                    if name == 'indexed_src_size':
                        ref = int(np.prod(res['shape'])) if not is_err(res['shape']) else res['shape']
                    if v != ref:
                        alt[name] = v
                if alt:
                    res['alt'] = alt
            # source shape supplied later
            try:
                ix2 = indexer(build(case), flat_src=flat, try_slice=ts)
                ix2.set_src_shape(shape)
            except Exception as e:
                later = {'create': ename(e)}
            else:
                later = {'create': 'ok',
                         'pos': q(lambda: [int(x) for x in np.ravel(ix2.shaped_array())]),
                         'shape': q(lambda: [int(x) for x in ix2.indexed_src_shape])}
            if later != {k: res.get(k) for k in later}:
                res['later'] = later
            # source shape changed after a first use (stale caches), and a rejected shape offered twice
            ix3 = None
            try:
                ix3 = indexer(build(case), flat_src=flat, try_slice=ts)
                try:
                    ix3.set_src_shape(tuple(n + 1 for n in shape))
                    ix3.shaped_array()
                    ix3.indexed_src_shape
                except Exception:
                    pass
                ix3.set_src_shape(shape)
            except Exception as e:
                again = {'create': ename(e)}
                if ix is None and ix3 is not None:
                    try:
                        ix3.set_src_shape(shape)
                        again = {'create': 'ok (second set_src_shape with the same rejected shape)'}
                    except Exception as e2:
                        again = {'create': ename(e2)}
            else:
                again = {'create': 'ok',
                         'pos': q(lambda: [int(x) for x in np.ravel(ix3.shaped_array())]),
                         'shape': q(lambda: [int(x) for x in ix3.indexed_src_shape])}
            if again != {k: res.get(k) for k in again}:
                res['again'] = again
        return res

    # -- direct oracle: real NumPy --------------------------------------------------------------------
    def ref(self, case):
        return case_ref(case)

    def oracle(self, case, impl):
        if case['k'] == 'a2s':
            arrs = self.a2s_arrays(case)
            for k, (a, b, c) in impl['r']:
                arr = arrs[k]
                slc = slice(a, b, c)
                m = max(arr) if arr else 0
                for n in (m + 1, m + 2, m + 7):
                    got = np.arange(n)[slc].tolist()
                    if got != arr:
                        return {'what': 'array2slice changes the selected positions', 'kind': 'a2s',
                                'array': arr, 'slice': [a, b, c], 'size': n, 'selected': got}
            return None
        o = build(case, 'nd')
        shape = tuple(case['shape'])
        flat = case['flat']
        ref = case_ref(case)
        fam = family(o, shape, flat)
        # other ways of supplying the source shape must lead to the same outcome (an index that is
        # rejected may be rejected by the call or by every query)
        restate = [n for n, k in (('set_src_shape later', 'later'), ('set_src_shape again', 'again'))
                   if k in impl and outcome(impl[k]) != outcome(impl)]
        if impl['create'] != 'ok':
            if restate:
                return {'what': '%s: indexer() raises but %s does not behave the same' % (
                    fam, '+'.join(restate)), 'kind': 'alt_inconsistent', 'fails': restate}
            if ref[0] == 'err':
                return None
            if impl['create'] == 'IndexError' and oob_entry(o, shape, flat):
                return None     # documented: entries reaching outside the source raise
            return {'what': '%s: indexer() raises %s for an index NumPy accepts' % (fam, impl['create']),
                    'kind': 'rejects_valid', 'numpy': {'pos': ref[1], 'shape': ref[2]}}
        if ref[0] == 'err':
            qs = [impl['pos'], impl['shape'], impl.get('val', impl['pos'])]
            if all(is_err(x) for x in qs):
                return None
            return {'what': '%s: accepted although NumPy raises %s' % (fam, ref[1]),
                    'kind': 'accepts_invalid', 'numpy': ref[1]}
        raised, wrong = [], []
        for name, exp in (('pos', ref[1]), ('shape', ref[2]), ('val', ref[1])):
            got = impl.get(name, impl['pos']) if name == 'val' else impl[name]
            if is_err(got):
                raised.append(name)
            elif got != exp:
                wrong.append(name)
        numpy = {'pos': ref[1], 'shape': ref[2]}
        if raised:
            return {'what': '%s: query raises (%s)' % (fam, '+'.join(raised)), 'kind': 'query_error',
                    'fails': raised + wrong, 'numpy': numpy}
        if wrong:
            return {'what': '%s: differs from NumPy (%s)' % (fam, '+'.join(wrong)), 'kind': 'wrong',
                    'fails': wrong, 'numpy': numpy}
        if impl.get('alt') or restate:
            names = sorted(impl.get('alt', {})) + restate
            return {'what': '%s: inconsistent with shaped_array (%s)' % (fam, '+'.join(names)),
                    'kind': 'alt_inconsistent', 'fails': names, 'numpy': numpy}
        return None

    def signature(self, case, impl, failure):
        if case['k'] == 'a2s':
            return {'family': 'array2slice', 'kind': failure.get('kind')}
        o = build(case, 'nd')
        return {'family': family(o, tuple(case['shape']), case['flat']), 'kind': failure.get('kind'),
                'flat_src': case['flat'], 'create': impl.get('create')}

    def nontrivial(self, case, impl):
        if case['k'] == 'a2s':
            return True
        ref = self.ref(case)
        return ref[0] == 'err' or ref[1] != list(range(int(np.prod(case['shape']))))

    def bucket(self, case, impl):
        if case['k'] == 'a2s':
            return ['a2s_batch', 'a2s_arrays=%d' % len(self.a2s_arrays(case)),
                    'a2s_converted=%d' % len(impl['r'])]
        o = build(case, 'nd')
        shape = tuple(case['shape'])
        ref = case_ref(case)
        out = ['family=' + family(o, shape, case['flat']), 'flat_src=%s' % case['flat'],
               'rank=%d' % len(shape), 'arr=' + case.get('arr', 'list'),
               'numpy=' + ('ok' if ref[0] == 'ok' else ref[1]),
               'om_create=' + impl['create']]
        if case.get('ts'):
            out.append('try_slice')
        if ref[0] == 'ok' and not ref[1]:
            out.append('empty_selection')
        if impl['create'] == 'ok':
            for k in ('pos', 'shape'):
                if is_err(impl[k]):
                    out.append('om_%s_raises=%s' % (k, impl[k]['err']))
        return out

    # -- model -----------------------------------------------------------------------------------
    def model_requests(self, case, impl):
        if case['k'] == 'a2s':
            if 'arrays' in case:
                return [{'op': 'a2s_list', 'arrays': case['arrays']}]
            return [{'op': 'a2s_batch', 'prefix': case['prefix'], 'n': case['n'], 'lo': case['lo'],
                     'hi': case['hi']}]
        return [{'op': 'idx', 'shape': case['shape'], 'flat': case['flat'],
                 'ts': bool(case.get('ts', False)), 'spec': spec_json(build(case, 'nd'))}]

    def compare(self, case, impl, answers):
        a = answers[0]
        if case['k'] == 'a2s':
            if a['r'] != impl['r']:
                mine = {k: v for k, v in a['r']}
                theirs = {k: v for k, v in impl['r']}
                arrs = self.a2s_arrays(case)
                for k in sorted(set(mine) | set(theirs)):
                    if mine.get(k) != theirs.get(k):
                        return 'array2slice(%s): model %s, implementation %s' % (
                            arrs[k], mine.get(k), theirs.get(k))
            return None
        o = build(case, 'nd')
        step0 = has_step0(o)
        # 1. the reference model against real NumPy (a disagreement is my machinery's problem)
        ref = case_ref(case)
        m = a['np']
        if ref[0] == 'ok':
            if 'err' in m or m['pos'] != ref[1] or m['shape'] != ref[2]:
                raise common.Infra('npIndex disagrees with NumPy on %s: model %s, numpy %s' % (
                    common.canon(case), m, ref))
        else:
            if 'err' not in m or (not step0 and ERRMAP.get(ref[1]) != m['err']):
                raise common.Infra('npIndex disagrees with NumPy on %s: model %s, numpy %s' % (
                    common.canon(case), m, ref))
        # 2. the model of the code against the code
        om = a['om']

        def cls(e):
            e = ERRMAP.get(e, e)
            return 'error' if step0 else e
        if step0:
            # a zero step surfaces as different exception types at different moments
            # (ValueError / RuntimeError / AttributeError); only "some error" is compared
            ie = impl['create'] != 'ok' or is_err(impl['pos'])
            me = om['create'] != 'ok' or 'err' in om['pos']
            return None if ie == me else 'zero step: implementation %s, model %s' % (impl, om)
        if impl['create'] != 'ok' or om['create'] != 'ok':
            ic = 'ok' if impl['create'] == 'ok' else cls(impl['create'])
            mc = 'ok' if om['create'] == 'ok' else cls(om['create'])
            if ic != mc:
                return 'indexer(): implementation %s, model %s' % (impl['create'], om['create'])
            return None
        for k in ('pos', 'shape'):
            iv, mv = impl[k], om[k]
            if 'err' in mv:
                if mv['err'] == 'huge':
                    continue    # np.arange of ~2^63 entries: outcome platform dependent, not modelled
                if not is_err(iv) or cls(iv['err']) != cls(mv['err']):
                    return '%s: implementation %s, model raises %s' % (k, iv, mv['err'])
            elif is_err(iv) or iv != mv['ok']:
                return '%s: implementation %s, model %s' % (k, iv, mv['ok'])
        return None


PROP = C05()
