"""
Shared machinery of the /verif checks (see DESIGN.md section 2).

A property module `harness/cXX.py` defines a subclass of `Property`; `run_property` then does, in
order: translator step, `lake build` of the property's theorems and native driver, axiom audit,
forbidden-token grep, corpus + generated cases through (real implementation | Lean driver | direct
oracle), classification into KNOWN-FINDING / VIOLATION, evidence file.

Exit codes: 0 property held on everything explored; 1 violation (a `VIOLATION property=.. replay=..`
line was printed); 2 infrastructure error or timeout (never reported as a violation).
"""
import fcntl
import hashlib
import json
import os
import random
import re
import shutil
import subprocess
import sys
import tempfile
import time
import traceback
from fractions import Fraction

VERIF = os.path.dirname(os.path.dirname(os.path.abspath(__file__)))
LEAN = os.path.join(VERIF, 'lean')
REPO = os.environ.get('VERIF_REPO', '/repo')
ALLOWED_AXIOMS = {'propext', 'Classical.choice', 'Quot.sound'}
FORBIDDEN = re.compile(r'\bsorry\b|\badmit\b|^\s*axiom\s|native_decide|bv_decide|implemented_by|'
                       r'\bunsafe\s|maxHeartbeats\s+0\b')
STD_TRUSTED = [
    "Lean 4.33.0 kernel (lake build; thorough tier also leanchecker)",
    "axioms per theorem audited to be a subset of {propext, Classical.choice, Quot.sound}; "
    "no native_decide, no bv_decide, no sorry/admit, no axioms of our own",
    "Mathlib v4.33.0 lemmas imported by the proof files",
    "the Python harness (generators, canonicalisation, comparison) and the Lean driver's "
    "JSON parsing/printing",
    "IEEE-754 rounding is modelled, not verified (exact rationals in the model)",
]


class Infra(Exception):
    """Infrastructure problem: exit 2, never a violation."""


# ------------------------------------------------------------------------------------------------
# exact numbers on the wire

def rat(x):
    """Exact "n/d" encoding of an int / float / Fraction (floats by their exact binary value)."""
    if isinstance(x, bool):
        x = int(x)
    f = Fraction(x)
    return "%d/%d" % (f.numerator, f.denominator)


def unrat(s):
    if isinstance(s, (int, float)):
        return Fraction(s)
    n, _, d = s.partition('/')
    return Fraction(int(n), int(d) if d else 1)


def rats(xs):
    return [rat(x) for x in xs]


def canon(obj):
    """Stable JSON text used for hashing / distinct counting."""
    return json.dumps(obj, sort_keys=True, separators=(',', ':'), default=str)


# ------------------------------------------------------------------------------------------------
# Lean side

def _lake(args, timeout):
    """Run lake under an exclusive lock (several checks may run concurrently)."""
    os.makedirs(os.path.join(LEAN, '.lake'), exist_ok=True)
    lockf = open(os.path.join(LEAN, '.lake', 'verif.lock'), 'w')
    fcntl.flock(lockf, fcntl.LOCK_EX)
    try:
        p = subprocess.run(['lake'] + args, cwd=LEAN, stdout=subprocess.PIPE,
                           stderr=subprocess.STDOUT, text=True, timeout=timeout)
        return p.returncode, p.stdout
    finally:
        fcntl.flock(lockf, fcntl.LOCK_UN)
        lockf.close()


def lean_build(pid, timeout=3000):
    """Build the property theorems and the native driver. Returns (ok, log)."""
    t0 = time.time()
    rc, out = _lake(['build', 'OMV.AuditTool', 'OMV.Props.%s' % pid, 'drv_%s' % pid.lower()], timeout)
    return rc == 0, out, time.time() - t0


def lean_audit(pid, timeout=1200):
    """Return {theorem name: [axioms]} for every Cxx_* theorem of OMV.Props.Cxx."""
    d = os.path.join(LEAN, '.lake', 'audit')
    os.makedirs(d, exist_ok=True)
    f = os.path.join(d, '%s.lean' % pid)
    with open(f, 'w') as fh:
        fh.write('import OMV.AuditTool\nimport OMV.Props.%s\n#audit_module OMV.Props.%s "%s_"\n'
                 % (pid, pid, pid))
    rc, out = _lake(['env', 'lean', f], timeout)
    res = {}
    count = None
    for line in out.splitlines():
        m = re.search(r'AUDIT (\S+) ::(.*)$', line)
        if m:
            res[m.group(1)] = m.group(2).split()
        m = re.search(r'AUDIT-COUNT (\d+)', line)
        if m:
            count = int(m.group(1))
    if rc != 0 or count is None or count != len(res):
        return None, out
    return res, out


def strip_lean_comments(src):
    # remove nested block comments and line comments
    out = []
    i = 0
    depth = 0
    n = len(src)
    while i < n:
        if src.startswith('/-', i):
            depth += 1
            i += 2
        elif depth and src.startswith('-/', i):
            depth -= 1
            i += 2
        elif depth:
            if src[i] == '\n':
                out.append('\n')
            i += 1
        elif src.startswith('--', i):
            while i < n and src[i] != '\n':
                i += 1
        else:
            out.append(src[i])
            i += 1
    return ''.join(out)


def lean_imports_closure(pid):
    """All OMV/Driver source files the property's theorems and driver depend on."""
    seen = {}
    todo = ['OMV.Props.%s' % pid, 'Driver.%s' % pid]
    while todo:
        m = todo.pop()
        if m in seen:
            continue
        path = os.path.join(LEAN, *m.split('.')) + '.lean'
        if not os.path.exists(path):
            continue
        src = open(path).read()
        seen[m] = path
        for mm in re.findall(r'^\s*import\s+((?:OMV|Driver)\.[\w.]+)', src, re.M):
            todo.append(mm)
    return seen


def lean_forbidden(pid):
    hits = []
    for m, path in sorted(lean_imports_closure(pid).items()):
        src = strip_lean_comments(open(path).read())
        for k, line in enumerate(src.splitlines(), 1):
            if FORBIDDEN.search(line):
                hits.append('%s:%d: %s' % (os.path.relpath(path, VERIF), k, line.strip()))
    return hits


def leanchecker(pid, timeout=3000):
    rc, out = _lake(['env', 'leanchecker', 'OMV.Props.%s' % pid], timeout)
    return rc == 0, out


class Driver:
    """Batch access to the native Lean driver of one property."""

    def __init__(self, pid):
        self.pid = pid
        self.exe = os.path.join(LEAN, '.lake', 'build', 'bin', 'drv_%s' % pid.lower())

    def available(self):
        return os.path.exists(self.exe)

    def ask(self, requests, timeout=1800):
        """Send all requests (list of dict), return list of dict answers (same order)."""
        if not requests:
            return []
        data = '\n'.join(json.dumps(r, separators=(',', ':')) for r in requests) + '\n'
        p = subprocess.run([self.exe], input=data, stdout=subprocess.PIPE, stderr=subprocess.PIPE,
                           text=True, timeout=timeout)
        lines = [l for l in p.stdout.split('\n') if l.strip()]
        if p.returncode != 0 or len(lines) != len(requests):
            raise Infra('driver %s: rc=%s, %d answers for %d requests; stderr=%s' % (
                self.exe, p.returncode, len(lines), len(requests), p.stderr[-2000:]))
        out = [json.loads(l) for l in lines]
        for k, (r, a) in enumerate(zip(requests, out)):
            if isinstance(a, dict) and a.get('err') == 'bad-op':
                raise Infra('driver answered bad-op for request %d: %s' % (k, canon(r)[:500]))
        return out


# ------------------------------------------------------------------------------------------------
# known findings

def load_known():
    """known_findings.json (maintained by hand) plus per-property files known_findings.d/Cxx.json."""
    out = []
    p = os.path.join(VERIF, 'known_findings.json')
    if os.path.exists(p):
        out.extend(json.load(open(p)))
    d = os.path.join(VERIF, 'known_findings.d')
    if os.path.isdir(d):
        for f in sorted(os.listdir(d)):
            if f.endswith('.json'):
                out.extend(json.load(open(os.path.join(d, f))))
    return out


def match_known(pid, sig):
    """Return the first `known` (not `fixed`) finding whose match dict is a sub-dict of `sig`."""
    for f in load_known():
        if f.get('property') != pid or f.get('status') != 'known':
            continue
        m = f.get('match', {})
        if m and all(sig.get(k) == v for k, v in m.items()):
            return f
    return None


# ------------------------------------------------------------------------------------------------
# the generic property runner

class Property:
    pid = None
    level = 'proof'
    required_theorems = []      # names (last component) that must be present in the audit
    trusted_extra = []
    assumptions = []
    rule = ''
    tolerance = None

    # -- hooks -----------------------------------------------------------------------------------
    def translate(self):
        """Regenerate OMV/Generated/* from /repo. Return a list of facts for the evidence, or raise
        TieBroken(msg) when the source can no longer be extracted."""
        return []

    def setup(self, tier):
        pass

    def cases(self, rng, tier):
        """Yield case dicts (JSON-serialisable)."""
        return []

    def run_impl(self, case):
        """Run the real code. Return a JSON-serialisable canonical result."""
        raise NotImplementedError

    def model_requests(self, case, impl):
        return []

    def compare(self, case, impl, answers):
        """Return None when model and implementation agree, else a short description."""
        return None

    def oracle(self, case, impl):
        """Property evaluated directly on the implementation's result, not through the Lean model.
        Return None (holds) or a dict describing the failure (must contain 'what')."""
        return None

    def signature(self, case, impl, failure):
        """Signature used to match known findings."""
        return {}

    def nontrivial(self, case, impl):
        return True

    def bucket(self, case, impl):
        """Labels counted into coverage.distribution."""
        return []

    def search(self, rng, budget_s):
        """Extra failing-input search when an obligation or the correspondence is broken.
        Default: more generated cases through the oracle only. Yield case dicts."""
        return self.cases(rng, 'thorough')


class TieBroken(Exception):
    pass


_POOL_PROP = None


def _pool_run(case):
    return _POOL_PROP.run_impl(case)


def run_impls(prop, cases):
    """Run the real implementation on every case; in `prop.workers` forked processes when > 1."""
    global _POOL_PROP
    w = int(getattr(prop, 'workers', 1) or 1)
    if w <= 1 or len(cases) < 4 * w:
        return [prop.run_impl(c) for c in cases]
    import multiprocessing as mp
    _POOL_PROP = prop
    ctx = mp.get_context('fork')
    with ctx.Pool(min(w, os.cpu_count() or 1)) as pool:
        return pool.map(_pool_run, cases, chunksize=max(1, len(cases) // (8 * w)))


def corpus_cases(pid):
    d = os.path.join(VERIF, 'corpus', pid)
    out = []
    if os.path.isdir(d):
        for f in sorted(os.listdir(d)):
            if f.endswith('.json'):
                c = json.load(open(os.path.join(d, f)))
                if isinstance(c, list):
                    out.extend(c)
                else:
                    out.append(c)
    return out


def write_replay(pid, seed, k, payload):
    d = os.path.join(os.environ.get('VERIF_REPLAY_DIR') or os.path.join(VERIF, 'replay'), pid)
    os.makedirs(d, exist_ok=True)
    p = os.path.join(d, '%s-%s.json' % (seed, k))
    with open(p, 'w') as fh:
        json.dump(payload, fh, indent=1, default=str, sort_keys=True)
    return os.path.relpath(p, VERIF)


def in_tempdir(fn):
    """Run fn() in a fresh temp cwd (OpenMDAO writes *_out dirs), removed afterwards."""
    old = os.getcwd()
    d = tempfile.mkdtemp(prefix='omv_')
    os.chdir(d)
    try:
        return fn()
    finally:
        os.chdir(old)
        shutil.rmtree(d, ignore_errors=True)


def run_property(prop, argv=None):
    import argparse
    ap = argparse.ArgumentParser()
    ap.add_argument('--tier', default=os.environ.get('VERIF_TIER', 'quick'))
    ap.add_argument('--replay', default=None)
    ap.add_argument('--seed', type=int, default=int(os.environ.get('VERIF_SEED', '0')))
    ap.add_argument('--no-build', action='store_true')
    args = ap.parse_args(argv)
    if args.replay:
        args.replay = os.path.abspath(args.replay if os.path.exists(args.replay)
                                      else os.path.join(VERIF, args.replay))
    os.environ.setdefault('OPENMDAO_REPORTS', '0')
    try:
        rc = in_tempdir(lambda: _run(prop, args))
    except Infra as e:
        print('INFRASTRUCTURE-ERROR property=%s %s' % (prop.pid, e))
        traceback.print_exc()
        rc = 2
    except subprocess.TimeoutExpired as e:
        print('INFRASTRUCTURE-ERROR property=%s timeout %s' % (prop.pid, e))
        rc = 2
    except Exception as e:      # a crash of the machinery is never a verdict
        print('INFRASTRUCTURE-ERROR property=%s harness crashed: %s: %s' % (prop.pid, type(e).__name__, e))
        traceback.print_exc()
        rc = 2
    sys.stdout.flush()
    return rc


def _run(prop, args):
    t0 = time.time()
    pid = prop.pid
    tier = args.tier
    seed = args.seed
    rng = random.Random(seed * 1000003 + int(pid[1:]))
    broken = []          # list of (kind, name, detail) : broken obligations / tie / correspondence
    facts = []

    # 1. translator -----------------------------------------------------------------------------
    try:
        facts = prop.translate() or []
    except TieBroken as e:
        broken.append(('tie', 'translator', str(e)))

    # 2. build + audit + grep ---------------------------------------------------------------------
    audit = {}
    build_log = ''
    if not args.no_build:
        ok, build_log, bt = lean_build(pid)
        if not ok:
            broken.append(('obligation', 'lake build OMV.Props.%s drv_%s' % (pid, pid.lower()),
                           build_log[-3000:]))
        else:
            audit, alog = lean_audit(pid)
            if audit is None:
                broken.append(('obligation', 'axiom audit', alog[-2000:]))
                audit = {}
    else:
        audit, alog = lean_audit(pid)
        audit = audit or {}
    short = {n.split('.')[-1]: ax for n, ax in audit.items()}
    obligations = sorted(set(prop.required_theorems) | set(short))
    discharged = []
    for n in obligations:
        if n not in short:
            if not any(b[0] == 'obligation' for b in broken):
                broken.append(('obligation', n, 'theorem missing from OMV.Props.%s' % pid))
            continue
        bad = [a for a in short[n] if a not in ALLOWED_AXIOMS]
        if bad:
            broken.append(('obligation', n, 'depends on non-standard axioms %s' % bad))
            continue
        discharged.append(n)
    hits = lean_forbidden(pid)
    if hits:
        broken.append(('obligation', 'forbidden-token grep', '\n'.join(hits)))
    if tier == 'thorough' and not any(b[0] == 'obligation' for b in broken):
        ok, out = leanchecker(pid)
        if not ok:
            broken.append(('obligation', 'leanchecker OMV.Props.%s' % pid, out[-2000:]))
        facts.append('leanchecker OMV.Props.%s: %s' % (pid, 'ok' if ok else 'FAILED'))

    # 3. cases ------------------------------------------------------------------------------------
    prop.setup(tier)
    driver = Driver(pid)
    use_model = driver.available() and not any(b[0] == 'obligation' and 'lake build' in b[1]
                                               for b in broken)
    if args.replay:
        rp = json.load(open(args.replay))
        cases = [rp['case']] if 'case' in rp else []
    else:
        cases = corpus_cases(pid) + list(prop.cases(rng, tier))

    evaluations = 0
    distinct = set()
    dist = {}
    samples = []
    violations = []       # (case, impl, failure)
    known_hits = {}
    corr_diffs = []
    impls = []
    impl_list = run_impls(prop, cases)
    oracle_failed = set()
    for cidx, (case, impl) in enumerate(zip(cases, impl_list)):
        impls.append(impl)
        evaluations += 1
        for b in prop.bucket(case, impl):
            dist[b] = dist.get(b, 0) + 1
        if prop.nontrivial(case, impl):
            distinct.add(hashlib.sha1(canon(case).encode()).hexdigest())
        if len(samples) < 3 or (len(samples) < 6 and rng.random() < 0.01):
            samples.append({'case': case, 'impl': impl})
        fail = prop.oracle(case, impl)
        if fail is not None:
            oracle_failed.add(cidx)
            sig = prop.signature(case, impl, fail)
            kf = match_known(pid, sig)
            if kf is not None:
                known_hits.setdefault(kf['title'], []).append(case)
            else:
                violations.append((case, impl, fail))

    # model side, batched
    if use_model:
      try:
          reqs = []
          spans = []
          for case, impl in zip(cases, impls):
              r = prop.model_requests(case, impl)
              spans.append((len(reqs), len(reqs) + len(r)))
              reqs.extend(r)
          answers = driver.ask(reqs)
          for cidx, ((a, b), case, impl) in enumerate(zip(spans, cases, impls)):
              if b == a or cidx in oracle_failed:
                  # a case on which the property itself fails is reported through the oracle (as a
                  # violation or a known finding); the model describes the intended behaviour there
                  continue
              d = prop.compare(case, impl, answers[a:b])
              if d is not None:
                  corr_diffs.append((case, impl, answers[a:b], d))
      except Exception as e:   # the model side cannot be evaluated: the tie is broken
        broken.append(('correspondence', 'model side failed',
                       '%s: %s\n%s' % (type(e).__name__, e, traceback.format_exc()[-1500:])))
    if corr_diffs:
        c0 = corr_diffs[0]
        broken.append(('correspondence', 'model vs implementation', '%d of %d cases differ; first: %s'
                       % (len(corr_diffs), len(cases), c0[3])))

    # 4. failing-input search when something is broken and no oracle failure yet -----------------
    searched = 0
    if broken and not violations and not args.replay:
        budget = 60 if tier == 'quick' else 600
        ts = time.time()
        for case in prop.search(random.Random(seed + 7919), budget):
            if time.time() - ts > budget:
                break
            impl = prop.run_impl(case)
            searched += 1
            fail = prop.oracle(case, impl)
            if fail is not None:
                sig = prop.signature(case, impl, fail)
                if match_known(pid, sig) is None:
                    violations.append((case, impl, fail))
                    break

    # 5. verdict ----------------------------------------------------------------------------------
    rc = 0
    for title, cs in sorted(known_hits.items()):
        print('KNOWN-FINDING: property=%s %s (%d cases this run)' % (pid, title, len(cs)))
    nviol = 0
    if violations:
        # report the smallest few
        violations.sort(key=lambda v: len(canon(v[0])))
        seen_what = set()
        for k, (case, impl, fail) in enumerate(violations):
            w = fail.get('what', '')
            if w in seen_what and k > 0:
                continue
            seen_what.add(w)
            if nviol >= 5:
                break
            path = write_replay(pid, seed, nviol, {
                'property': pid, 'seed': seed, 'kind': 'oracle', 'case': case, 'observed': impl,
                'failure': fail, 'broken': [list(b) for b in broken]})
            print('VIOLATION property=%s replay=%s' % (pid, path))
            nviol += 1
        rc = 1
    elif broken:
        case = corr_diffs[0][0] if corr_diffs else None
        payload = {'property': pid, 'seed': seed, 'kind': broken[0][0],
                   'no_longer_checks': [{'kind': b[0], 'name': b[1], 'detail': b[2]} for b in broken],
                   'searched_cases': searched + evaluations}
        if corr_diffs:
            payload['case'] = case
            payload['observed'] = corr_diffs[0][1]
            payload['model'] = corr_diffs[0][2]
            payload['difference'] = corr_diffs[0][3]
        path = write_replay(pid, seed, 'broken', payload)
        print('VIOLATION property=%s replay=%s no-failing-input-found' % (pid, path))
        nviol = 1
        rc = 1

    # 6. evidence ---------------------------------------------------------------------------------
    ev = {
        'property_id': pid, 'tier': tier if tier in ('quick', 'thorough') else 'quick',
        'seed': seed, 'level': 'proof',
        'coverage': {
            'obligations': len(obligations), 'discharged': len(discharged),
            'theorems': discharged,
            'checker_cmd': 'cd lean && lake build OMV.Props.%s drv_%s && lake env lean '
                           '.lake/audit/%s.lean  (run by ./check %s)' % (pid, pid.lower(), pid, pid),
            'trusted_base': STD_TRUSTED + list(prop.trusted_extra),
            'evaluations': evaluations, 'distinct_nontrivial': len(distinct),
            'rule': prop.rule, 'samples': samples[:6], 'distribution': dist,
            'model_compared': bool(use_model), 'correspondence_differences': len(corr_diffs),
            'known_findings_hit': {k: len(v) for k, v in known_hits.items()},
            'broken': [{'kind': b[0], 'name': b[1]} for b in broken],
            'translator_facts': facts, 'search_cases': searched,
        },
        'assumptions': list(prop.assumptions),
        'wall_s': round(time.time() - t0, 2), 'violations': nviol,
    }
    if prop.tolerance is not None:
        ev['coverage']['tolerance'] = prop.tolerance
    evdir = os.environ.get('VERIF_EVIDENCE_DIR') or os.path.join(VERIF, 'evidence')
    os.makedirs(evdir, exist_ok=True)
    with open(os.path.join(evdir, '%s.json' % pid), 'w') as fh:
        json.dump(ev, fh, indent=1, default=str)
    print('%s tier=%s seed=%d obligations=%d/%d cases=%d nontrivial=%d corr_diffs=%d known=%d '
          'violations=%d wall=%.1fs' % (pid, tier, seed, len(discharged), len(obligations),
                                        evaluations, len(distinct), len(corr_diffs),
                                        sum(len(v) for v in known_hits.values()), nviol,
                                        time.time() - t0))
    return rc
