"""C27 — option declarations are enforced and temporary values always restored.

A case is a small program over one real `OptionsDictionary`: public calls (`declare`, `undeclare`,
`opts[n] = v`, `opts[n]`, `update`/`set`, `n in opts`), `with opts.temporary(**kw):` blocks (nested,
with invalid temporaries), exceptions injected into the bodies, and `try/except` blocks.  After
every operation the whole observable state is recorded: `opts[n]` (value or exception class) for
every declared name, the recordable names, and the number of values pending in `_context_cache`
(the one private observation).

* correspondence: the Lean driver runs `OMV.C27.exec` on the same program; the two event logs must
  be identical.
* direct oracle (no Lean): a declarative validity predicate written with Python's own `==`,
  `isinstance`, `<=`; before/after snapshots for rejected assignments and for every `with` block.
"""
import warnings
from fractions import Fraction

from common import Property, rat, unrat, canon

# ------------------------------------------------------------------------------------------------
# wire format of values: None -> null, bool, int, float -> {"f": "n/d"}, str, list of scalars


def enc(v):
    if v is None or isinstance(v, (bool, str)):
        return v
    if isinstance(v, int):
        return v
    if isinstance(v, float):
        return {'f': rat(v)}
    if isinstance(v, (list, tuple)):
        return [enc(x) for x in v]
    return {'other': type(v).__name__}


def dec(j):
    if isinstance(j, dict):
        return float(unrat(j['f']))
    if isinstance(j, list):
        return [dec(x) for x in j]
    return j


PYTYPES = {'bool': bool, 'int': int, 'float': float, 'str': str, 'list': list}

# check_valid callbacks: predicate table shared (by number) with lean/Driver/C27.lean `cvTable`
CV_PRED = {
    0: lambda v: True,
    1: lambda v: False,
    2: lambda v: v is not None,
    3: lambda v: not (isinstance(v, (bool, int, float)) and v == 0),
    4: lambda v: not (isinstance(v, str) and len(v) > 2),
}


def make_cv(k):
    def check_valid(name, value):
        if not CV_PRED[k](value):
            raise ValueError("Option '%s' with value %r is not valid (cv %d)." % (name, value, k))
    return check_valid


def is_number(v):
    return isinstance(v, (bool, int, float))


def py_in(v, vals):
    return any(v == x for x in vals)


def allow_none_of(d):
    return bool(d['allow_none']) or ('default' in d and d['default'] is not None
                                     and d['default']['v'] is None)


def satisfies(d, v):
    """The declaration `d` (wire-format declare arguments) read declaratively."""
    cv_ok = d['cv'] is None or CV_PRED[d['cv']](v)
    if v is None and allow_none_of(d):
        return cv_ok
    types = d['types']
    values = None if d['values'] is None else [dec(x) for x in d['values']]
    if types == 'bool':
        values = [True, False]          # documented as Python equality with True / False
    if values is not None:
        if types == 'list':
            if isinstance(v, list):
                elems = v
            elif isinstance(v, str):
                elems = list(v)
            else:
                return False
            member = all(py_in(e, values) for e in elems)
        else:
            member = (not isinstance(v, list)) and py_in(v, values)
    elif types is not None:
        tt = PYTYPES[types] if isinstance(types, str) else tuple(PYTYPES[t] for t in types)
        member = isinstance(v, tt)
    else:
        member = True
    ok = member
    if d['upper'] is not None:
        ok = ok and is_number(v) and Fraction(v) <= unrat(d['upper'])
    if d['lower'] is not None:
        ok = ok and is_number(v) and Fraction(v) >= unrat(d['lower'])
    return ok and cv_ok


class Propagate(Exception):
    """An exception travelling up through the program (injected or from a strict statement)."""


def has_decl(prog):
    for st in prog:
        if st['s'] == 'op' and st['o']['k'] in ('declare', 'undeclare'):
            return True
        if st['s'] in ('temp', 'catch') and has_decl(st['body']):
            return True
    return False


# ------------------------------------------------------------------------------------------------
# interpreter on the real OptionsDictionary

class Runner:
    def __init__(self, read_only):
        from openmdao.utils.options_dictionary import OptionsDictionary
        self.opts = OptionsDictionary(read_only=read_only)
        self.read_only = read_only
        self.shadow = {}            # name -> declare arguments as passed (harness bookkeeping)
        self.log = []
        self.fail = []              # oracle failures
        self.stats = []             # labels for the evidence distribution
        self.abnormal = 0           # contexts left by exception or failed while entering
        self.tainted = 0            # contexts run that the oracle does not cover

    # -- observation through the public API ---------------------------------------------------
    def pending(self):
        c = getattr(self.opts, '_context_cache', None)
        if not isinstance(c, dict):
            return 0
        return sum(len(v) if isinstance(v, list) else 1 for v in c.values())

    def obs(self):
        o = []
        for n in sorted(self.opts):
            try:
                o.append([n, {'v': enc(self.opts[n])}])
            except Exception as e:
                o.append([n, {'e': type(e).__name__}])
        rec = sorted(k for k, _ in self.opts.items(recordable_only=True))
        return {'opts': o, 'rec': rec, 'pending': self.pending()}

    def event(self, kind, out):
        ob = self.obs()
        self.log.append({'k': kind, 'out': out, 'obs': ob})
        self.check_alias(ob)
        return ob

    # -- declared target of a name (from the calls made, not from private state) ---------------
    def target(self, n):
        d = self.shadow.get(n)
        if d is None:
            return None
        a = d['alias']
        if a is not None and a['to']:
            return a['to'] if a['to'] in self.shadow else None
        return n

    def check_alias(self, ob):
        m = dict((n, canon(o)) for n, o in ob['opts'])
        for n, d in self.shadow.items():
            a = d['alias']
            if a is not None and a['to'] and n in m:
                t = a['to']
                if t in self.shadow and t in m:
                    ta = self.shadow[t]['alias']
                    if ta is not None and ta['to']:
                        continue            # one level of forwarding only: not comparable
                    if m[n] != m[t]:
                        self.fail.append({'kind': 'alias_not_forwarded', 'cause': 'none',
                                          'what': "deprecated option '%s' does not read its "
                                                  "target '%s'" % (n, t)})

    # -- expected effect of one assignment, from the snapshot before and the declarations ------
    def expect_assign(self, before, n, v):
        """Return (accepted?, expected opts observation) or None when not decidable here."""
        t = self.target(n)
        if n in self.shadow and t is not None:
            ta = self.shadow[t]['alias']
            if t != n and ta is not None and ta['to']:
                return None                 # target is itself forwarding: differential only
        ok = (n in self.shadow and not self.read_only and t is not None
              and satisfies(self.shadow[t], v))
        if not ok:
            return False, before['opts']
        exp = []
        for m, o in before['opts']:
            if self.target(m) == t:
                exp.append([m, {'v': enc(v)}])
            else:
                exp.append([m, o])
        return True, exp

    def do_assign_oracle(self, before, items, raised, after):
        """items: [(name, value)] assigned in order by one call; raised: exception class or None."""
        cur = before['opts']
        expect_raise = False
        for n, v in items:
            r = self.expect_assign({'opts': cur}, n, v)
            if r is None:
                self.stats.append('assign_oracle_skipped_two_level_alias')
                return
            ok, cur = r
            self.stats.append('assign_expected_accept' if ok else 'assign_expected_reject')
            if not ok:
                expect_raise = True
                break
        if expect_raise != (raised is not None):
            self.fail.append({'kind': 'accept_mismatch', 'cause': 'none',
                              'what': 'assignment %s although the value %s its declaration'
                                      % (('rejected', 'satisfies') if raised else
                                         ('accepted', 'does not satisfy')),
                              'items': [[n, enc(v)] for n, v in items], 'raised': raised})
            return
        if canon(cur) != canon(after['opts']) or before['rec'] != after['rec'] \
                or before['pending'] != after['pending']:
            self.fail.append({'kind': 'reject_changed_state' if raised else 'assign_wrong_effect',
                              'cause': 'none',
                              'what': ('a rejected assignment changed the observable state' if raised
                                       else 'an accepted assignment did not have exactly its effect'),
                              'items': [[n, enc(v)] for n, v in items],
                              'expected': cur, 'got': after['opts']})

    # -- operations ------------------------------------------------------------------------------
    def do_op(self, o):
        k = o['k']
        opts = self.opts
        if k == 'declare':
            kw = {}
            if o.get('default') is not None:
                kw['default'] = dec(o['default']['v'])
            if o['values'] is not None:
                vs = [dec(x) for x in o['values']]
                kw['values'] = tuple(vs) if o.get('values_tuple') else vs
            if o['types'] is not None:
                kw['types'] = (PYTYPES[o['types']] if isinstance(o['types'], str)
                               else tuple(PYTYPES[t] for t in o['types']))
            for b in ('lower', 'upper'):
                if o[b] is not None:
                    q = unrat(o[b])
                    kw[b] = int(q) if (q.denominator == 1 and not o.get('float_bounds')) else float(q)
            kw['allow_none'] = o['allow_none']
            if o['cv'] is not None:
                kw['check_valid'] = make_cv(o['cv'])
            kw['recordable'] = o['rec']
            if o['alias'] is not None:
                kw['deprecation'] = ('deprecated', o['alias']['to']) if o['alias']['to'] else 'deprecated'
            try:
                opts.declare(o['n'], **kw)
            finally:
                if o['n'] in opts and not (o['types'] not in (None, 'list') and o['values'] is not None):
                    self.shadow[o['n']] = o
            return 'ok'
        if k == 'undeclare':
            opts.undeclare(o['n'])
            self.shadow.pop(o['n'], None)
            return 'ok'
        if k == 'set':
            opts[o['n']] = dec(o['v'])
            return 'ok'
        if k == 'get':
            return {'v': enc(opts[o['n']])}
        if k == 'update':
            d = dict((n, dec(v)) for n, v in o['kvs'])
            if o.get('via') == 'set':
                opts.set(**d)
            else:
                opts.update(d)
            return 'ok'
        if k == 'contains':
            return {'b': o['n'] in opts}
        raise ValueError('bad op %s' % k)

    def run_stmt(self, st):
        s = st['s']
        if s == 'op':
            o = st['o']
            before = self.obs() if o['k'] in ('set', 'update') else None
            raised = None
            try:
                out = self.do_op(o)
            except Exception as e:
                raised = type(e).__name__
                out = {'e': raised}
            after = self.event('op', out)
            self.stats.append('op_%s_%s' % (o['k'], raised or 'ok'))
            if o['k'] == 'set':
                self.do_assign_oracle(before, [(o['n'], dec(o['v']))], raised, after)
            elif o['k'] == 'update':
                self.do_assign_oracle(before, [(n, dec(v)) for n, v in o['kvs']], raised, after)
            if raised and st['strict']:
                raise Propagate()
        elif s == 'raise':
            self.event('raise', 'ok')
            self.stats.append('injected_exception')
            raise Propagate()
        elif s == 'catch':
            try:
                self.run_prog(st['body'])
            except Propagate:
                self.stats.append('exception_caught')
        elif s == 'temp':
            self.run_temp(st)
        else:
            raise ValueError('bad statement %s' % s)

    def run_prog(self, prog):
        for st in prog:
            self.run_stmt(st)

    def run_temp(self, st):
        kw = dict((n, dec(v)) for n, v in st['kw'])
        before = self.obs()
        abnormal0 = self.abnormal
        tainted0 = self.tainted
        # names whose restoration the property promises, and whether the oracle applies
        targets = set()
        applicable = not has_decl(st['body'])
        bm = dict((n, o) for n, o in before['opts'])
        for n in kw:
            t = self.target(n)
            if n not in self.shadow or t is None:
                continue
            ta = self.shadow[t]['alias']
            if ta is not None and ta['to']:
                applicable = False              # two-level forwarding: differential only
                continue
            targets.add(t)
            held = bm.get(t)
            if held is not None and 'v' in held and not satisfies(self.shadow[t], dec(held['v'])):
                applicable = False              # an invalid default is already held (failed declare)
        tl = [self.target(n) for n in kw if n in self.shadow and self.target(n) is not None]
        alias_dup = len(tl) != len(set(tl))

        entered = False
        body_exc = False
        prop = False
        try:
            with self.opts.temporary(**kw):
                entered = True
                self.event('enter', 'ok')
                try:
                    self.run_prog(st['body'])
                except Propagate:
                    body_exc = True
                    raise
            self.event('exit', 'ok')
            self.stats.append('temp_exit_normal')
        except Propagate:
            self.abnormal += 1
            self.event('exitExc', 'ok')
            self.stats.append('temp_exit_by_exception')
            prop = True
        except Exception as e:
            cls = type(e).__name__
            if body_exc:
                self.abnormal += 1
                self.event('exitExc', {'e': cls})
                self.stats.append('temp_exit_by_exception_restore_failed')
                prop = True
            elif entered:
                self.event('exit', {'e': cls})
                self.stats.append('temp_restore_failed_' + cls)
                prop = st['strict']
            else:
                self.abnormal += 1
                self.event('enter', {'e': cls})
                self.stats.append('temp_enter_failed_' + cls)
                prop = st['strict']
        after = self.obs()
        if not applicable:
            self.tainted += 1       # enclosing contexts are not judged either
        # ---- oracle: every option the context changed is back, nothing is left in the cache
        if applicable and self.tainted == tainted0:
            am = dict((n, o) for n, o in after['opts'])
            bad = sorted(n for n in bm if self.target(n) in targets and canon(bm[n]) != canon(am.get(n)))
            if bad or before['pending'] != after['pending']:
                cause = ('exception' if self.abnormal != abnormal0 else
                         'alias_dup' if alias_dup else 'none')
                self.fail.append({'kind': 'temporary_not_restored', 'cause': cause,
                                  'what': 'temporary(%s) left %s changed / %d saved values pending '
                                          '(before: %d); cause=%s' % (
                                              ','.join(sorted(kw)), bad, after['pending'],
                                              before['pending'], cause),
                                  'before': before, 'after': after})
            self.stats.append('temp_oracle_checked')
        else:
            self.stats.append('temp_oracle_not_applicable')
        if prop:
            raise Propagate()


def detect_mode():
    """Which `temporary()` is in /repo: restores after an exception in the body?"""
    from openmdao.utils.options_dictionary import OptionsDictionary
    o = OptionsDictionary()
    o.declare('a', default=1)
    try:
        with o.temporary(a=2):
            raise ZeroDivisionError()
    except ZeroDivisionError:
        pass
    return o['a'] == 1


class C27(Property):
    pid = 'C27'
    required_theorems = [
        'C27_accept_iff_valid', 'C27_set_succeeds_iff', 'C27_set_effect', 'C27_reject_keeps',
        'C27_update_reject_keeps', 'C27_readonly', 'C27_alias_forwards', 'C27_valid_values_invariant',
        'C27_temporary_restores', 'C27_temporary_restores_partial',
        'C27_temporary_leaks_on_exception', 'C27_temporary_leaks_on_failed_enter',
        'C27_temporary_alias_order']
    rule = ("cases: programs of public OptionsDictionary calls on one real dictionary (2-4 random "
            "declarations: types / tuple of types / bool / values / list+values / bounds / allow_none / "
            "check_valid / recordable / deprecation alias, valid or invalid default; then set / get / "
            "update / set(**kw) / contains / re-declare / undeclare, `with temporary(...)` blocks nested "
            "up to depth 3 with valid and invalid temporaries, injected exceptions, try/except), length "
            "<= 15 (quick) or <= 40 (thorough), read-only dictionaries in ~8% of the cases. "
            "Non-trivial: the case contains at least one rejected assignment or one temporary() "
            "context; distinct by canonical case encoding.")
    assumptions = [
        "set_function is None (not modelled); deprecation warnings are ignored, only alias forwarding",
        "no NaN/inf option values; `values` given as list/tuple of scalars (not a set)",
        "check_valid callbacks are deterministic predicates raising ValueError",
        "types=bool is read as Python equality with True/False (so 1, 0, 1.0 are accepted), "
        "types=list with values= accepts any iterable of allowed values (a str iterates its characters)",
        "restore theorems assume no declare/undeclare inside the with-body and that the options "
        "named hold values valid for their declaration (true unless a declare with an invalid default "
        "was caught and ignored)",
    ]
    level_text = ("_assert_valid, __setitem__, __getitem__, deprecation forwarding, declare, update and both the "
                  "current and the patched temporary() are modelled in Lean as an interpreter of operation "
                  "programs; proved for all declarations, values and programs: acceptance iff the declarative "
                  "reading of the declaration, rejected assignments leave the state unchanged, read-only "
                  "dictionaries never change, aliases forward, held values stay valid, and temporary() restores "
                  "every option and the cache for every body (nested contexts, any exit) for the patched code; "
                  "for the current code only when no exception crosses a context (counterexamples proved).")
    level_note = ("Trusted: Lean kernel + standard axioms; the Python harness and the Lean driver's JSON layer. "
                  "The model is tied to the real OptionsDictionary by identical event logs (result / exception "
                  "class / full observable state after every operation). Modelled, not verified: Python's "
                  "==, isinstance, ordering and str iteration on the value universe used.")
    technique = "Lean 4 proof over an interpreter of operation programs + exact differential correspondence"
    trusted_extra = ["Python semantics of ==, in, isinstance, <, > on None/bool/int/float/str/list as encoded "
                     "in OMV.C27 (Atom.pyEq, Val.isInst, Val.num, Val.iter?)",
                     "contextlib.contextmanager protocol (exception thrown into the generator at yield)"]
    workers = 1
    _mode = None

    # -- tie: which temporary() does /repo contain ---------------------------------------------------
    def fixed(self):
        if self._mode is None:
            with warnings.catch_warnings():
                warnings.simplefilter('ignore')
                C27._mode = bool(detect_mode())
        return self._mode

    def translate(self):
        return ["temporary() in /repo %s after an exception in the body -> model run with "
                "restoreOnRaise=%s" % ('restores' if self.fixed() else 'does NOT restore',
                                       'true' if self.fixed() else 'false')]

    # -- generator --------------------------------------------------------------------------------
    ATOMS = [None, True, False, 0, 1, 2, 3, 5, -1, 7, 0.0, 1.0, 0.5, 2.5, -1.5, 3.0,
             'a', 'b', 'ab', 'x', 'abc', '', 'ba']
    LISTS = [[], ['a'], ['a', 'b'], [1, 2], ['x'], [1.0, True], ['b', 'a', 'b'], [3]]
    NAMES = ['a', 'b', 'c', 'd', 'old']

    def gen_decl(self, rng, name, declared):
        kind = rng.choice(['types', 'types', 'tuple', 'bool', 'values', 'values', 'list_values',
                           'bounds', 'types_bounds', 'types_bounds', 'plain', 'types', 'values',
                           'bool', 'tuple', 'both_bad'])
        d = {'k': 'declare', 'n': name, 'values': None, 'types': None, 'lower': None, 'upper': None,
             'allow_none': rng.random() < 0.25, 'cv': None, 'rec': rng.random() < 0.8, 'alias': None}
        if kind == 'types':
            d['types'] = rng.choice(['int', 'float', 'str', 'list', 'int'])
        elif kind == 'tuple':
            d['types'] = rng.choice([['int', 'float'], ['str', 'list'], ['bool'], ['list'],
                                     ['int', 'str'], ['float', 'bool'], ['str']])
        elif kind == 'bool':
            d['types'] = 'bool'
        elif kind == 'values':
            pool = rng.choice([['a', 'b', 'ab', 'x'], [1, 2, 3, 5], [True, 0.5, 'a', 2],
                               [None, 'a', 1], [1.0, 'x', 0], [False, 3.0, 'abc']])
            d['values'] = [enc(x) for x in rng.sample(pool, rng.randint(2, len(pool)))]
            d['values_tuple'] = rng.random() < 0.5
        elif kind == 'list_values':
            d['types'] = 'list'
            pool = rng.choice([['a', 'b', 'x'], [1, 2, 3], ['a', 1, True]])
            d['values'] = [enc(x) for x in rng.sample(pool, rng.randint(2, 3))]
        elif kind in ('bounds', 'types_bounds'):
            lo = rng.choice([None, -1, 0, 1, 0.5])
            hi = rng.choice([None, 1, 2, 3, 2.5, 5, 0, 0, -1])
            if lo is None and hi is None:
                hi = 3
            if lo is not None and hi is not None and lo > hi:
                # a zero or negative upper bound: keep the interval non-empty
                lo = rng.choice([None, hi - 2, hi])
            d['lower'] = None if lo is None else rat(lo)
            d['upper'] = None if hi is None else rat(hi)
            d['float_bounds'] = rng.random() < 0.3
            if kind == 'types_bounds':
                d['types'] = rng.choice(['int', 'float', ['int', 'float']])
        elif kind == 'both_bad':
            d['types'] = rng.choice(['int', ['list'], 'str'])
            d['values'] = [enc(x) for x in [1, 2]]
        if rng.random() < 0.25:
            d['cv'] = rng.choice([0, 1, 2, 3, 3, 4, 4])
        r = rng.random()
        if r < 0.08:
            d['alias'] = {'to': None}
        elif r < 0.22 or (name == 'old' and r < 0.7):
            others = [n for n in declared if n != name] or ['a']
            d['alias'] = {'to': rng.choice(others + (['zz'] if rng.random() < 0.1 else []))}
        r = rng.random()
        if r < 0.7:
            d['default'] = {'v': enc(self.pick_value(rng, d, 0.9))}
        elif r < 0.76:
            d['default'] = {'v': None}
        return d

    def pick_value(self, rng, d, p_valid):
        univ = self.ATOMS + self.LISTS
        if d is not None and allow_none_of(d) and rng.random() < 0.15:
            return None
        want = rng.random() < p_valid
        v = rng.choice(univ)
        if d is None:
            return v
        for _ in range(25):
            if d['types'] not in (None, 'list') and d['values'] is not None:
                break
            if satisfies(d, v) == want:
                break
            v = rng.choice(univ)
        return v

    def gen_stmt(self, rng, depth, decls, top, budget):
        """Return (statement, cost)."""
        names = list(decls)
        r = rng.random()

        def name(p_undeclared=0.06):
            if not names or rng.random() < p_undeclared:
                return rng.choice(['zz', 'c', 'd'])
            return rng.choice(names)

        def tgt(n):
            d = decls.get(n)
            if d is not None and d['alias'] is not None and d['alias']['to']:
                return decls.get(d['alias']['to'])
            return d

        if r < 0.28:
            n = name()
            return {'s': 'op', 'strict': rng.random() < 0.12,
                    'o': {'k': 'set', 'n': n, 'v': enc(self.pick_value(rng, tgt(n), 0.6))}}, 1
        if r < 0.36:
            return {'s': 'op', 'strict': rng.random() < 0.1, 'o': {'k': 'get', 'n': name(0.1)}}, 1
        if r < 0.46:
            ks = rng.sample(names + ['zz'], min(len(names) + 1, rng.randint(1, 3)))
            return {'s': 'op', 'strict': rng.random() < 0.1,
                    'o': {'k': 'update', 'via': rng.choice(['update', 'set']),
                          'kvs': [[n, enc(self.pick_value(rng, tgt(n), 0.75))] for n in ks]}}, 1
        if r < 0.49:
            return {'s': 'op', 'strict': False, 'o': {'k': 'contains', 'n': name(0.3)}}, 1
        if r < 0.55 and (top or rng.random() < 0.08):
            n = rng.choice(self.NAMES)
            d = self.gen_decl(rng, n, names)
            if not (d['types'] not in (None, 'list') and d['values'] is not None):
                decls[n] = d
            return {'s': 'op', 'strict': False, 'o': d}, 1
        if r < 0.58 and (top or rng.random() < 0.08):
            n = name(0.2)
            decls.pop(n, None)
            return {'s': 'op', 'strict': False, 'o': {'k': 'undeclare', 'n': n}}, 1
        if r < 0.66 and not top:
            return {'s': 'raise'}, 1
        if depth < 3 and budget >= 2:
            # a with-block (most of the remaining probability mass)
            if r < 0.93:
                pool = [n for n in names if 'default' in (tgt(n) or {}) or rng.random() < 0.2]
                pool = pool + (['zz'] if rng.random() < 0.05 or not pool else [])
                k = min(len(pool), rng.choice([1, 1, 2, 2, 3]))
                ks = rng.sample(pool, k) if pool else ['zz']
                kw = [[n, enc(self.pick_value(rng, tgt(n), 0.8))] for n in ks]
                body, cost = self.gen_block(rng, depth + 1, decls, rng.randint(0, min(4, budget - 1)))
                st = {'s': 'temp', 'strict': rng.random() < 0.15, 'kw': kw, 'body': body}
                cost += 1
            else:
                body, cost = self.gen_block(rng, depth + 1, decls, rng.randint(1, min(3, budget - 1)))
                st = {'s': 'catch', 'body': body}
                cost += 1
            if top and rng.random() < 0.85 and st['s'] == 'temp':
                st = {'s': 'catch', 'body': [st]}
            return st, cost
        n = name()
        return {'s': 'op', 'strict': False,
                'o': {'k': 'set', 'n': n, 'v': enc(self.pick_value(rng, tgt(n), 0.6))}}, 1

    def gen_block(self, rng, depth, decls, budget):
        out = []
        cost = 0
        while cost < budget:
            st, c = self.gen_stmt(rng, depth, decls, depth == 0, budget - cost)
            if st['s'] == 'temp' and depth > 0 and rng.random() < 0.35:
                st = {'s': 'catch', 'body': [st]}
            out.append(st)
            cost += c
        return out, cost

    def cases(self, rng, tier):
        n_cases = 1500 if tier == 'quick' else 40000
        maxlen = 15 if tier == 'quick' else 40
        for _ in range(n_cases):
            decls = {}
            prog = []
            for n in rng.sample(self.NAMES, rng.randint(2, 4)):
                d = self.gen_decl(rng, n, list(decls) + ['a'])
                if not (d['types'] not in (None, 'list') and d['values'] is not None):
                    decls[n] = d
                prog.append({'s': 'op', 'strict': False, 'o': d})
            body, _ = self.gen_block(rng, 0, decls, rng.randint(3, maxlen - len(prog)))
            yield {'read_only': rng.random() < 0.08, 'prog': prog + body}

    # -- real code ---------------------------------------------------------------------------------
    def run_impl(self, case):
        r = Runner(case['read_only'])
        raised = False
        with warnings.catch_warnings():
            warnings.simplefilter('ignore')
            try:
                r.run_prog(case['prog'])
            except Propagate:
                raised = True
        return {'raised': raised, 'log': r.log, 'failures': r.fail[:20], 'stats': r.stats}

    # -- property evaluated directly ---------------------------------------------------------------
    def oracle(self, case, impl):
        fs = impl['failures']
        if not fs:
            return None
        known = [f for f in fs if f['kind'] == 'temporary_not_restored' and f['cause'] != 'none']
        other = [f for f in fs if f not in known]
        return (other or known)[0]

    def signature(self, case, impl, failure):
        return {'kind': failure.get('kind'), 'cause': failure.get('cause'),
                'read_only': case['read_only']}

    def nontrivial(self, case, impl):
        return any(s.startswith('temp_') or s == 'assign_expected_reject' for s in impl['stats'])

    def bucket(self, case, impl):
        out = list(impl['stats'])
        out.append('read_only' if case['read_only'] else 'writable')
        out.append('program_raised' if impl['raised'] else 'program_completed')
        for st in case['prog']:
            if st['s'] == 'op' and st['o']['k'] == 'declare':
                o = st['o']
                t = o['types']
                out.append('decl_types=%s' % ('none' if t is None else t if isinstance(t, str)
                                              else 'tuple'))
                if o['values'] is not None:
                    out.append('decl_values')
                if o['lower'] is not None or o['upper'] is not None:
                    out.append('decl_bounds')
                if o['allow_none']:
                    out.append('decl_allow_none')
                if o['cv'] is not None:
                    out.append('decl_check_valid')
                if o['alias'] is not None:
                    out.append('decl_alias' if o['alias']['to'] else 'decl_deprecated_msg')
                if 'default' in o:
                    out.append('decl_default')
        return out

    # -- model -----------------------------------------------------------------------------------
    def model_requests(self, case, impl):
        return [{'op': 'run', 'fixed': self.fixed(), 'read_only': case['read_only'],
                 'prog': case['prog']}]

    @staticmethod
    def canon_log(log):
        out = []
        for e in log:
            ob = e['obs']
            out.append({'k': e['k'], 'out': e['out'],
                        'obs': {'opts': sorted(ob['opts'], key=lambda p: p[0]),
                                'rec': sorted(ob['rec']), 'pending': ob['pending']}})
        return out

    def compare(self, case, impl, answers):
        a = answers[0]
        ml = self.canon_log(a['log'])
        il = self.canon_log(impl['log'])
        for k, (x, y) in enumerate(zip(ml, il)):
            if canon(x) != canon(y):
                return 'event %d differs: model %s != implementation %s' % (k, canon(x)[:400],
                                                                          canon(y)[:400])
        if len(ml) != len(il):
            return 'log length: model %d, implementation %d' % (len(ml), len(il))
        if a['raised'] != impl['raised']:
            return 'propagating exception: model %s, implementation %s' % (a['raised'], impl['raised'])
        return None


PROP = C27()
