"""C13 — derivative checks report exactly what they compare.

Generated explicit components y = A x + sum c x_j x_k (integer / dyadic data, so every float
operation of the real code is exact) with correct, wrong (one entry perturbed) and under-declared
partials in every declaration format; `check_partials` / `check_totals` are run through the public
API and the returned dictionaries are compared

* with a direct oracle (exact rational Jacobians of the generated function, exact out-of-pattern
  nonzeros, errors recomputed from the returned J_fwd / J_fd), and
* field by field with the Lean model (`lean/OMV/Model/C13.lean`) the theorems are about.
"""
import ast
import os
import warnings
from fractions import Fraction

import numpy as np

from common import Property, TieBroken, match_known, rat, unrat, REPO

THR = 1e-16                      # _CheckingJacobian(uncovered_threshold=1.0E-16)
F = Fraction
SPARSE = ('rc', 'coo', 'csr', 'csc', 'diag')
KEYERR = 'keyerror-uncovered_threshold'
FIRSTCOL = 'uncovered-first-column-only'
NEVER = 'uncovered-never-extended'
DIRSPARSE = 'directional-sparse'
DIRUNDECL = 'directional-undeclared-crash'
ALIAS = 'multistep-jfd-aliasing'


# ------------------------------------------------------------------------------------------------
# exact arithmetic on the generated function

def fr(s):
    return unrat(s)


def offsets(sizes):
    out, k = [], 0
    for s in sizes:
        out.append(k)
        k += s
    return out, k


class Fn:
    """y = A x + sum coef * x_j * x_k, exact."""

    def __init__(self, case):
        self.n_in = case['n_in']
        self.n_out = case['n_out']
        self.ioff, self.nin = offsets(self.n_in)
        self.ooff, self.nout = offsets(self.n_out)
        self.A = [[fr(v) for v in row] for row in case['lin']]
        self.quad = [(i, j, k, fr(c)) for i, j, k, c in case['quad']]
        self.x = [fr(v) for v in case['x']]

    def f(self, x):
        y = [sum((a * xv for a, xv in zip(row, x)), F(0)) for row in self.A]
        for i, j, k, c in self.quad:
            y[i] += c * x[j] * x[k]
        return y

    def jac(self, x):
        J = [list(row) for row in self.A]
        for i, j, k, c in self.quad:
            J[i][j] += c * x[k]
            J[i][k] += c * x[j]
        return J

    def approx_col(self, d, method, form, h):
        """Approximated directional derivative along d (list over all inputs)."""
        x = self.x
        if method == 'cs':
            J = self.jac(x)
            return [sum((J[i][j] * d[j] for j in range(self.nin)), F(0)) for i in range(self.nout)]
        xp = [a + h * b for a, b in zip(x, d)]
        xm = [a - h * b for a, b in zip(x, d)]
        if form == 'forward':
            f1, f0, den = self.f(xp), self.f(x), h
        elif form == 'backward':
            f1, f0, den = self.f(x), self.f(xm), h
        else:
            f1, f0, den = self.f(xp), self.f(xm), 2 * h
        return [(a - b) / den for a, b in zip(f1, f0)]

    def approx(self, method, form, h):
        cols = []
        for j in range(self.nin):
            d = [F(0)] * self.nin
            d[j] = F(1)
            cols.append(self.approx_col(d, method, form, h))
        return [[cols[j][i] for j in range(self.nin)] for i in range(self.nout)]

    def block(self, M, o, w):
        r0, c0 = self.ooff[o], self.ioff[w]
        return [row[c0:c0 + self.n_in[w]] for row in M[r0:r0 + self.n_out[o]]]


def block_key(o, w):
    return 'y%d,x%d' % (o, w)


def pattern_of(blk, nr, nc):
    """Declared positions of a block as an ordered list, None for dense / undeclared."""
    fmt = blk['fmt']
    if fmt == 'diag':
        return [(i, i) for i in range(nr)]
    if fmt in ('rc', 'coo'):
        return [tuple(p) for p in blk['pattern']]
    if fmt == 'csr':
        return sorted(tuple(p) for p in blk['pattern'])
    if fmt == 'csc':
        return sorted((tuple(p) for p in blk['pattern']), key=lambda p: (p[1], p[0]))
    return None


def compressed(fmt, pos, nr, nc):
    """(indptr, indices) of the canonical csr / csc structure of the positions."""
    if fmt == 'csr':
        major, n = [p[0] for p in pos], nr
        minor = [p[1] for p in pos]
    else:
        major, n = [p[1] for p in pos], nc
        minor = [p[0] for p in pos]
    indptr = [0] * (n + 1)
    for m in major:
        indptr[m + 1] += 1
    for i in range(n):
        indptr[i + 1] += indptr[i]
    return indptr, minor


def analytic_block(fn, case, o, w):
    """Exact analytic block the component provides: true Jacobian + perturbation, masked by the
    declared pattern.  None for undeclared."""
    blk = case['blocks'][block_key(o, w)]
    if blk['fmt'] in ('undeclared', 'nondep'):
        return None
    nr, nc = fn.n_out[o], fn.n_in[w]
    J = fn.block(fn.jac(fn.x), o, w)
    for r, c, dl in blk.get('perturb', []):
        J[r][c] += fr(dl)
    pos = pattern_of(blk, nr, nc)
    if pos is None:
        return J
    ps = set(pos)
    return [[J[r][c] if (r, c) in ps else F(0) for c in range(nc)] for r in range(nr)]


def mask(M, pos):
    if pos is None:
        return M
    ps = set(pos)
    return [[v if (r, c) in ps else F(0) for c, v in enumerate(row)] for r, row in enumerate(M)]


def steps_of(case):
    return [fr(s) for s in case['steps']]


def approx_block(fn, case, o, w, h):
    """Exact approximated block for step h (a single column when wrt is directional)."""
    if w in case.get('directional', []):
        d = [F(0)] * fn.nin
        for j in range(fn.n_in[w]):
            d[fn.ioff[w] + j] = F(1)
        col = fn.approx_col(d, case['method'], case['form'], h)
        r0 = fn.ooff[o]
        return [[v] for v in col[r0:r0 + fn.n_out[o]]]
    return fn.block(fn.approx(case['method'], case['form'], h), o, w)


def uncovered_exact(M, pos):
    """Out-of-pattern entries above the threshold, in column-major order (the report order)."""
    if pos is None:
        return []
    ps = set(pos)
    thr = F(THR)
    out = []
    nr = len(M)
    nc = len(M[0]) if M else 0
    for c in range(nc):
        for r in range(nr):
            if (r, c) not in ps and abs(M[r][c]) > thr:
                out.append((r, c))
    return out


# ------------------------------------------------------------------------------------------------
# canonicalisation of what the real code returns

def cnum(v):
    if v is None:
        return None
    v = float(v)
    if v != v:
        return 'nan'
    if v in (float('inf'), float('-inf')):
        return 'inf' if v > 0 else '-inf'
    return rat(v)


def cmat(a):
    a = np.asarray(a)
    if np.iscomplexobj(a):
        a = a.real
    a = np.asarray(a, dtype=float)
    if a.ndim == 0:
        a = a.reshape(1, 1)
    elif a.ndim == 1:
        a = a.reshape(-1, 1)
    return [[cnum(v) for v in row] for row in a]


def cerr(tv, vals, ab, rel, which):
    t = getattr(tv, which)
    if t is None:
        return None
    v = getattr(vals, which)
    return {'tv': cnum(t), 'x': cnum(v[0]), 'ref': cnum(v[1]), 'abs': cnum(getattr(ab, which)),
            'rel': cnum(getattr(rel, which))}


def aslist(v, multi):
    return list(v) if multi else [v]


def canon_entry(e, multi):
    out = {}
    for k in ('J_fwd', 'J_rev'):
        out[k] = cmat(e[k]) if k in e else None
    out['J_fd'] = [cmat(m) for m in aslist(e['J_fd'], multi)] if 'J_fd' in e else None
    if 'uncovered_nz' in e:
        out['unc'] = [[int(r), int(c)] for r, c in e['uncovered_nz']]
        out['unc_thr'] = cnum(e.get('uncovered_threshold'))
    else:
        out['unc'] = None
        out['unc_thr'] = None
    tvs = aslist(e['tol violation'], multi)
    vals = aslist(e['vals_at_max_error'], multi)
    abss = aslist(e['abs error'], multi)
    rels = aslist(e['rel error'], multi)
    mags = aslist(e['magnitude'], multi)
    out['errs'] = [{w: cerr(tvs[i], vals[i], abss[i], rels[i], n)
                    for w, n in (('fwd', 'forward'), ('rev', 'reverse'), ('fr', 'fwd_rev'))}
                   for i in range(len(tvs))]
    out['mag'] = [[cnum(m.forward), cnum(m.reverse), cnum(m.fd)] for m in mags]
    r = e.get('rows')
    out['rows'] = None if r is None else [int(v) for v in r]
    c = e.get('cols')
    out['cols'] = None if c is None else [int(v) for v in c]
    return out


# ------------------------------------------------------------------------------------------------
# the generated components (real OpenMDAO classes, built per case)

def make_comp(case):
    import openmdao.api as om
    import scipy.sparse as sp

    fn = Fn(case)
    A = np.array([[float(v) for v in row] for row in fn.A]).reshape(fn.nout, fn.nin)
    quad = [(i, j, k, float(c)) for i, j, k, c in fn.quad]
    x0 = [float(v) for v in fn.x]

    def fun(x):
        y = A.dot(x)
        for i, j, k, c in quad:
            y[i] = y[i] + c * x[j] * x[k]
        return y

    def jac(x, extra=None):
        J = A.copy()
        for i, j, k, c in quad:
            J[i, j] += c * x[k]
            J[i, k] += c * x[j]
        return J

    def gather(inputs):
        dt = complex if any(np.iscomplexobj(inputs['x%d' % w]) for w in range(len(fn.n_in))) \
            else float
        x = np.zeros(fn.nin, dtype=dt)
        for w, n in enumerate(fn.n_in):
            x[fn.ioff[w]:fn.ioff[w] + n] = inputs['x%d' % w]
        return x

    def structure(blk, nr, nc):
        pos = pattern_of(blk, nr, nc)
        fmt = blk['fmt']
        if fmt in ('csr', 'csc'):
            indptr, indices = compressed(fmt, pos, nr, nc)
            return pos, np.array(indptr, dtype=np.int32), np.array(indices, dtype=np.int32)
        return pos, None, None

    def value_in_format(blk, Jb, nr, nc):
        fmt = blk['fmt']
        pos, indptr, indices = structure(blk, nr, nc)
        if fmt == 'dense':
            return Jb.copy()
        data = np.array([Jb[r, c] for r, c in pos], dtype=float)
        if fmt in ('rc', 'diag'):
            return data
        if fmt == 'coo':
            return sp.coo_matrix((data, (np.array([p[0] for p in pos], dtype=int),
                                         np.array([p[1] for p in pos], dtype=int))),
                                 shape=(nr, nc))
        if fmt == 'csr':
            return sp.csr_matrix((data, indices, indptr), shape=(nr, nc))
        return sp.csc_matrix((data, indices, indptr), shape=(nr, nc))

    def analytic(x, which=None):
        """Analytic Jacobian the component provides (true + perturbation)."""
        J = jac(x)
        for key, blk in case['blocks'].items():
            o, w = int(key[1:].split(',')[0]), int(key.split(',x')[1])
            for r, c, dl in blk.get('perturb', []):
                if which is None or blk.get('perturb_side', 'both') in ('both', which):
                    J[fn.ooff[o] + r, fn.ioff[w] + c] += float(fr(dl))
        return J

    const_decl = bool(case.get('const_decl')) and not quad

    class Gen(om.ExplicitComponent):
        def setup(self):
            for w, n in enumerate(fn.n_in):
                self.add_input('x%d' % w, np.array(x0[fn.ioff[w]:fn.ioff[w] + n]))
            for o, n in enumerate(fn.n_out):
                self.add_output('y%d' % o, np.zeros(n))
            if case['kind'] == 'mfree':
                return
            Jx = analytic(np.array(x0))
            for key, blk in case['blocks'].items():
                o, w = int(key[1:].split(',')[0]), int(key.split(',x')[1])
                nr, nc = fn.n_out[o], fn.n_in[w]
                of, wrt = 'y%d' % o, 'x%d' % w
                fmt = blk['fmt']
                if fmt == 'undeclared':
                    continue
                if fmt == 'nondep':
                    self.declare_partials(of, wrt, dependent=False)
                    continue
                Jb = Jx[fn.ooff[o]:fn.ooff[o] + nr, fn.ioff[w]:fn.ioff[w] + nc]
                pos = pattern_of(blk, nr, nc)
                kw = {}
                if fmt == 'rc':
                    kw = {'rows': [p[0] for p in pos], 'cols': [p[1] for p in pos]}
                elif fmt == 'diag':
                    kw = {'diagonal': True}
                if const_decl:
                    kw['val'] = value_in_format(blk, Jb, nr, nc)
                elif fmt in ('coo', 'csr', 'csc'):
                    kw['val'] = value_in_format(blk, np.ones((nr, nc)), nr, nc)
                self.declare_partials(of, wrt, **kw)
            for w in case.get('directional', []):
                self.set_check_partial_options(wrt='x%d' % w, method=case['method'],
                                               directional=True)

        def compute(self, inputs, outputs):
            y = fun(gather(inputs))
            for o, n in enumerate(fn.n_out):
                outputs['y%d' % o] = y[fn.ooff[o]:fn.ooff[o] + n]

    if case['kind'] == 'mfree':
        def compute_jacvec_product(self, inputs, d_inputs, d_outputs, mode):
            x = gather(inputs).real
            J = analytic(x, 'fwd' if mode == 'fwd' else 'rev')
            for o in range(len(fn.n_out)):
                of = 'y%d' % o
                if of not in d_outputs:
                    continue
                for w in range(len(fn.n_in)):
                    wrt = 'x%d' % w
                    if wrt not in d_inputs:
                        continue
                    Jb = J[fn.ooff[o]:fn.ooff[o] + fn.n_out[o], fn.ioff[w]:fn.ioff[w] + fn.n_in[w]]
                    if mode == 'fwd':
                        d_outputs[of] += Jb.dot(d_inputs[wrt])
                    else:
                        d_inputs[wrt] += Jb.T.dot(d_outputs[of])
        Gen.compute_jacvec_product = compute_jacvec_product
    elif not const_decl:
        def compute_partials(self, inputs, partials):
            Jx = analytic(gather(inputs).real)
            for key, blk in case['blocks'].items():
                if blk['fmt'] in ('undeclared', 'nondep'):
                    continue
                o, w = int(key[1:].split(',')[0]), int(key.split(',x')[1])
                nr, nc = fn.n_out[o], fn.n_in[w]
                Jb = Jx[fn.ooff[o]:fn.ooff[o] + nr, fn.ioff[w]:fn.ioff[w] + nc]
                partials['y%d' % o, 'x%d' % w] = value_in_format(blk, Jb, nr, nc)
        Gen.compute_partials = compute_partials

    return Gen, fn


def check_kwargs(case):
    kw = {'out_stream': None, 'method': case['method']}
    st = [float(fr(s)) for s in case['steps']]
    kw['step'] = st[0] if len(st) == 1 else st
    if case['method'] == 'fd':
        kw['form'] = case['form']
    if case.get('atol') is not None:
        kw['abs_err_tol'] = float(fr(case['atol']))
    if case.get('rtol') is not None:
        kw['rel_err_tol'] = float(fr(case['rtol']))
    return kw


def tols(case):
    atol = fr(case['atol']) if case.get('atol') is not None else F(0)
    rtol = fr(case['rtol']) if case.get('rtol') is not None else F(1e-6)
    return atol, rtol


# ------------------------------------------------------------------------------------------------
# reading the placement of `uncovered_nz.extend` out of the source (tie to /repo)

def _read_audit_table():
    path = os.path.join(REPO, 'openmdao', 'jacobians', 'subjac.py')
    tree = ast.parse(open(path).read())
    classes = {n.name: n for n in tree.body if isinstance(n, ast.ClassDef)}

    def func(cls, name):
        for n in classes[cls].body:
            if isinstance(n, ast.FunctionDef) and n.name == name:
                return n
        raise KeyError('%s.%s' % (cls, name))

    def is_info_key(node, key):
        return (isinstance(node, ast.Subscript) and isinstance(node.value, ast.Attribute)
                and node.value.attr == 'info' and isinstance(node.slice, ast.Constant)
                and node.slice.value == key)

    def is_extend(node):
        return (isinstance(node, ast.Expr) and isinstance(node.value, ast.Call)
                and isinstance(node.value.func, ast.Attribute)
                and node.value.func.attr in ('extend', 'append')
                and is_info_key(node.value.func.value, 'uncovered_nz')) or \
               (isinstance(node, ast.AugAssign) and is_info_key(node.target, 'uncovered_nz'))

    def analyse(fn):
        init_if = None
        for n in ast.walk(fn):
            if isinstance(n, ast.If) and isinstance(n.test, ast.Compare) and \
                    len(n.test.ops) == 1 and isinstance(n.test.ops[0], ast.NotIn) and \
                    isinstance(n.test.left, ast.Constant) and n.test.left.value == 'uncovered_nz':
                init_if = n
        if init_if is None:
            raise ValueError('no "uncovered_nz not in info" test in %s' % fn.name)
        inside = any(is_extend(m) for b in init_if.body for m in ast.walk(b))
        anywhere = any(is_extend(m) for m in ast.walk(fn))
        rec = any(isinstance(m, ast.Assign) and any(is_info_key(t, 'uncovered_threshold')
                                                    for t in m.targets) for m in ast.walk(fn))
        pl = 'insideInit' if inside else ('always' if anywhere else 'never')
        return pl, rec

    # OMCOOSubjac.set_col must still delegate to COOSubjac._set_coo_col
    om_set = func('OMCOOSubjac', 'set_col')
    if not any(isinstance(m, ast.Attribute) and m.attr == '_set_coo_col' for m in ast.walk(om_set)):
        raise ValueError('OMCOOSubjac.set_col no longer calls _set_coo_col')
    coo = analyse(func('COOSubjac', '_set_coo_col'))
    return {'rc': coo, 'coo': coo, 'csc': analyse(func('CSCSubjac', 'set_col')),
            'csr': analyse(func('CSRSubjac', 'set_col')),
            'diag': analyse(func('DiagonalSubjac', 'set_col'))}


def _probe_audit_table():
    """Fallback: classify the behaviour of each class on a fixed 3x3 instance (declared diagonal,
    all-ones function) through check_partials."""
    table = {}
    for fmt in ('rc', 'coo', 'csc', 'csr', 'diag'):
        case = {'kind': 'partials', 'n_in': [3], 'n_out': [3], 'x': ['1/1'] * 3,
                'lin': [['1/1'] * 3] * 3, 'quad': [], 'method': 'fd', 'form': 'forward',
                'steps': ['1/1024'], 'directional': [], 'atol': None, 'rtol': None,
                'blocks': {'y0,x0': {'fmt': fmt, 'pattern': [[0, 0], [1, 1], [2, 2]]}}}
        impl = PROP.run_impl(case)
        if impl.get('error'):
            if impl['error'] == 'KeyError' and 'uncovered_threshold' in impl.get('msg', ''):
                table[fmt] = ('always', False)
                continue
            raise TieBroken('probe of %s raised %s' % (fmt, impl['error']))
        unc = impl['blocks']['y0,x0']['unc']
        full = [[1, 0], [2, 0], [0, 1], [2, 1], [0, 2], [1, 2]]
        if unc == full:
            table[fmt] = ('always', True)
        elif unc == full[:2]:
            table[fmt] = ('insideInit', True)
        elif unc == []:
            table[fmt] = ('never', True)
        else:
            raise TieBroken('probe of %s: unrecognised uncovered_nz %s' % (fmt, unc))
    return table


def _probe_persist():
    """Do the uncovered_nz / uncovered_threshold keys survive from one fd step to the next?
    y0 = x0^2 - x0/16 + x1, y1 = x0^2 - x0/4 + x1 at x0 = 0 with d/dx1 declared only: forward
    steps 1/4, 1/16 give the out-of-pattern nonzeros {(0,0)} and {(1,0)} respectively."""
    case = {'kind': 'partials', 'n_in': [2], 'n_out': [2], 'x': ['0/1', '1/1'],
            'lin': [['-1/16', '1/1'], ['-1/4', '1/1']], 'quad': [[0, 0, 0, '1/1'], [1, 0, 0, '1/1']],
            'method': 'fd', 'form': 'forward', 'steps': ['1/4', '1/16'], 'directional': [],
            'atol': None, 'rtol': None, 'const_decl': False,
            'blocks': {'y0,x0': {'fmt': 'rc', 'pattern': [[0, 1], [1, 1]]}}}
    impl = PROP.run_impl(case)
    if impl.get('error'):
        raise TieBroken('persistence probe raised %s: %s' % (impl['error'], impl.get('msg')))
    unc = impl['blocks']['y0,x0']['unc']
    if unc in ([[0, 0]], [[0, 0], [1, 0]]):
        return True
    if unc == [[1, 0]]:
        return False
    raise TieBroken('persistence probe: unexpected uncovered_nz %s' % unc)


def _probe_alias(directional):
    """Does a two-step check of a dense partial return the last step's J_fd twice?  (y = x^2 at
    x = 1: forward differences 2 + 1/4 and 2 + 1/16.)"""
    case = {'kind': 'partials', 'n_in': [1], 'n_out': [1], 'x': ['1/1'], 'lin': [['0/1']],
            'quad': [[0, 0, 0, '1/1']], 'method': 'fd', 'form': 'forward',
            'steps': ['1/4', '1/16'], 'directional': directional, 'atol': None, 'rtol': None,
            'blocks': {'y0,x0': {'fmt': 'dense'}}}
    impl = PROP.run_impl(case)
    if impl.get('error'):
        raise TieBroken('alias probe raised %s: %s' % (impl['error'], impl.get('msg')))
    got = [_flat(m) for m in impl['blocks']['y0,x0']['J_fd']]
    if got == [[F(33, 16)], [F(33, 16)]]:
        return True
    if got == [[F(9, 4)], [F(33, 16)]]:
        return False
    raise TieBroken('alias probe: unexpected J_fd %s' % got)


# ------------------------------------------------------------------------------------------------

DY = [F(k, 4) for k in range(-12, 13)]
COEF = [F(k, 2) for k in range(-12, 13) if k != 0]


class C13(Property):
    pid = 'C13'
    workers = 8
    required_theorems = [
        'C13_uncovered_complete', 'C13_uncovered_nodup', 'C13_uncovered_key_iff',
        'C13_uncovered_sound', 'C13_uncovered_complete_partial', 'C13_uncovered_steps_union',
        'C13_persist_always_duplicates', 'C13_uncovered_never_reports_nothing',
        'C13_dense_never_flagged', 'C13_report_fixed', 'C13_shipped_diag_raises',
        'C13_uncovered_complete_fails_insideInit', 'C13_uncovered_complete_fails_csc',
        'C13_uncovered_complete_fails_csr', 'C13_report_fails_diag',
        'C13_jfd_is_masked_approximation', 'C13_every_nonzero_accounted',
        'C13_jfd_steps_partial', 'C13_jfd_steps_fail_aliased',
        'C13_errors_are_differences', 'C13_above_tol_iff', 'C13_above_tol_iff_maxviol_pos',
        'C13_abs_error_is_max_when_rtol_zero', 'C13_abs_error_not_max_in_general',
        'C13_magnitude_is_max', 'C13_check_flags_iff', 'C13_undeclared_flagged_iff']
    rule = ("cases: generated ExplicitComponents y = A x + sum c x_j x_k (1-2 inputs, 1-2 outputs, "
            "sizes 1-4, integer/half A, dyadic x) with every (of, wrt) block declared as dense, "
            "rows/cols, diagonal, scipy coo/csr/csc, dependent=False or not at all; patterns exact, "
            "over- or under-declared in 1-4 columns; optionally one analytic entry perturbed "
            "(including exactly on the tolerance boundary); method fd (forward/backward/central) or "
            "cs with power-of-two steps (1 or 2 steps); directional on dense blocks; dyadic or "
            "default tolerances; matrix-free components with separately perturbed fwd / rev "
            "products; check_totals (fwd / rev) on a two-component chain.  Non-trivial: at least one "
            "pair whose analytic and approximated Jacobians differ, an approximated nonzero outside "
            "a declared pattern, or an undeclared pair with a nonzero derivative; distinct by "
            "canonical case encoding.")
    assumptions = [
        "all data are small dyadic rationals and the steps powers of two, so every floating-point "
        "operation of the checked code is exact and comparisons are exact equalities of rationals; "
        "with the default rel_err_tol=1e-6 the tolerance violation is compared to 1e-9 and the "
        "argmax-dependent fields only when the maximum is separated by more than 1e-9",
        "the uncovered threshold is the shipped 1e-16 (>= 0, the hypothesis of the audit theorems)"]
    tolerance = {'tol violation with non-dyadic rel_err_tol': 1e-9}
    level_text = (
        "The sparsity audit of _CheckingJacobian.set_col / *Subjac.set_col (fold over columns, per "
        "storage class, with the placement of `uncovered_nz.extend` as a parameter), the stored "
        "values J_fd is read from, get_tol_violation, _MagnitudeData.update and "
        "_compute_deriv_errors are modelled in Lean.  Proved for all sizes, patterns and values over "
        "any linearly ordered field: with the extend executed for every offending column the "
        "reported list is exactly the out-of-pattern entries above the threshold (all classes) and "
        "check_partials never raises; the shipped COO/rows-cols/CSC placement reports exactly the "
        "first offending column, the shipped CSR code nothing, the shipped diagonal code raises "
        "KeyError; J_fd is the approximated Jacobian on the declared positions; reported abs/rel "
        "errors, values at max error and the tolerance flag are the differences of the compared "
        "entries; magnitudes are maxima.  The model is tied to check_partials / check_totals by "
        "exact differential runs on generated components; the extend placement per class is read "
        "from the source on every run.")
    level_note = (
        "Trusted: Lean kernel + standard axioms; the Python harness; NumPy / scipy.sparse (format "
        "conversions, np.argmax = first maximum).  Modelled, not verified: float rounding (cases "
        "are exact); how check_partials assembles the analytic J_fwd (todense / row sums) and how "
        "the approximation schemes produce columns (both differential only); directional checks of "
        "matrix-free components and of totals (random directions, not generated).")
    technique = "Lean 4 proof over ordered fields + exact differential correspondence"
    trusted_extra = ["scipy.sparse csr<->csc conversion and toarray (CSR audit modelled through the "
                     "conversion contract)", "np.argmax returns the first maximal index"]

    def __init__(self):
        self.table = None
        self.table_src = None
        self._exp_cache = {}
        self._or_cache = {}

    # -- translator: extend placement per class ------------------------------------------------------
    def translate(self):
        try:
            self.table = _read_audit_table()
            self.table_src = 'ast'
        except Exception as e:           # structure not recognised: classify by behaviour instead
            self.table = _probe_audit_table()
            self.table_src = 'probe (%s)' % e
        facts = ['uncovered_nz.extend placement (%s): %s' % (
            self.table_src, ', '.join('%s=%s%s' % (k, v[0], '' if v[1] else '/no-threshold')
                                      for k, v in sorted(self.table.items())))]
        for name, directional in (('alias', []), ('alias_dir', [0])):
            self.table[name] = _probe_alias(directional)
        facts.append('dense J_fd arrays of several steps alias one buffer (probe): '
                     'non-directional=%s directional=%s' % (self.table['alias'],
                                                            self.table['alias_dir']))
        self.table['persist'] = _probe_persist()
        facts.append('uncovered_nz keys persist from step to step (probe): %s'
                     % self.table['persist'])
        return facts

    def _table(self):
        if self.table is None:
            self.translate()
        return self.table

    # -- generator ---------------------------------------------------------------------------------
    def cases(self, rng, tier):
        n = 600 if tier == 'quick' else 20000
        for _ in range(n):
            u = rng.random()
            if u < 0.78:
                yield self.gen_partials(rng)
            elif u < 0.86:
                yield self.gen_mfree(rng)
            elif u < 0.97:
                yield self.gen_totals(rng)
            else:
                yield self.gen_dirsparse(rng)

    def _sizes(self, rng):
        n_in = [rng.choice([1, 2, 3, 3, 4, 4]) for _ in range(rng.choice([1, 1, 2]))]
        n_out = [rng.choice([1, 2, 3, 3, 4, 4]) for _ in range(rng.choice([1, 1, 2]))]
        return n_in, n_out

    def _tolerances(self, rng, case):
        u = rng.random()
        if u < 0.15:
            case['atol'], case['rtol'] = None, None           # defaults 0.0 / 1e-6
        else:
            case['atol'] = rat(rng.choice([F(0), F(0), F(1, 2 ** 20), F(1, 4), F(1), F(2)]))
            case['rtol'] = rat(rng.choice([F(0), F(1, 2 ** 20), F(1, 2 ** 20), F(1, 2 ** 10),
                                           F(1, 4), F(1)]))

    def _method(self, rng, case, allow_two=True):
        if rng.random() < 0.7:
            case['method'] = 'fd'
            case['form'] = rng.choice(['forward', 'forward', 'backward', 'central'])
            ks = [6, 10, 16, 20]
        else:
            case['method'] = 'cs'
            case['form'] = 'forward'
            ks = [30, 60, 100]
        if allow_two and rng.random() < 0.15:
            a, b = rng.sample(ks, 2)
            case['steps'] = [rat(F(1, 2 ** a)), rat(F(1, 2 ** b))]
        else:
            case['steps'] = [rat(F(1, 2 ** rng.choice(ks)))]

    def _function(self, rng, n_in, n_out, fmts):
        """A (block-wise, diagonal blocks mostly diagonal) + quadratic terms + x."""
        ioff, nin = offsets(n_in)
        ooff, nout = offsets(n_out)
        A = [[F(0)] * nin for _ in range(nout)]
        for o, no in enumerate(n_out):
            for w, nw in enumerate(n_in):
                fmt = fmts[block_key(o, w)]
                dens = rng.choice([0.3, 0.6, 0.9])
                offcols = set()
                if fmt == 'diag' and rng.random() < 0.6:
                    offcols = set(rng.sample(range(nw), rng.randint(1, min(4, nw))))
                for r in range(no):
                    for c in range(nw):
                        if fmt == 'diag':
                            if r == c:
                                v = rng.choice(COEF)
                            elif c in offcols and rng.random() < 0.6:
                                v = rng.choice(COEF)
                            else:
                                v = F(0)
                        else:
                            v = rng.choice(COEF) if rng.random() < dens else F(0)
                        A[ooff[o] + r][ioff[w] + c] = v
        quad = []
        if rng.random() < 0.4:
            for _ in range(rng.randint(1, 3)):
                quad.append([rng.randrange(nout), rng.randrange(nin), rng.randrange(nin),
                             rat(rng.choice([F(1), F(-1), F(2), F(1, 2), F(-2)]))])
        x = [rng.choice(DY) for _ in range(nin)]
        return A, quad, x

    @staticmethod
    def _step_dependent(rng, case, A, quad, x):
        """With two forward-difference steps: y_i gets x_j^2 and a linear coefficient chosen so
        that the approximated d y_i / d x_j is exactly zero at one of the steps and not at the
        other (the set of out-of-pattern nonzeros then differs from step to step)."""
        hs = steps_of(case)
        for _ in range(rng.randint(1, 2)):
            i, j = rng.randrange(len(A)), rng.randrange(len(x))
            if any(q[0] == i and j in (q[1], q[2]) for q in quad):
                continue
            h = rng.choice(hs)
            quad.append([i, j, j, rat(F(1))])
            A[i][j] = -(2 * x[j] + h)

    def gen_partials(self, rng, kind='partials'):
        n_in, n_out = self._sizes(rng)
        case = {'kind': kind, 'n_in': n_in, 'n_out': n_out}
        self._method(rng, case)
        self._tolerances(rng, case)
        directional = []
        if kind == 'partials' and rng.random() < 0.15:
            directional = [w for w in range(len(n_in)) if rng.random() < 0.7] or [0]
        case['directional'] = directional
        fmts = {}
        for o, no in enumerate(n_out):
            for w, nw in enumerate(n_in):
                if w in directional:
                    pool = ['dense'] * 14 + ['undeclared', 'nondep']
                elif kind == 'totals':
                    # (undeclared partials remove the dependency from the relevance graph, so the
                    # approximated total is zero by construction: not a reporting question)
                    pool = ['dense', 'dense', 'rc', 'rc', 'coo', 'csr', 'csc']
                    if no == nw:
                        pool += ['diag']
                else:
                    pool = ['dense', 'dense', 'rc', 'rc', 'rc', 'coo', 'coo', 'csr', 'csr', 'csc',
                            'csc', 'undeclared', 'nondep']
                    if no == nw:
                        pool += ['diag', 'diag', 'diag']
                fmts[block_key(o, w)] = rng.choice(pool)
        A, quad, x = self._function(rng, n_in, n_out, fmts)
        if len(case['steps']) == 2 and case['method'] == 'fd' and case['form'] == 'forward' \
                and rng.random() < 0.5:
            self._step_dependent(rng, case, A, quad, x)
        case['lin'] = [[rat(v) for v in row] for row in A]
        case['quad'] = quad
        case['x'] = [rat(v) for v in x]
        case['const_decl'] = rng.random() < 0.3
        fn = Fn(case)
        h0 = steps_of(case)[0]
        Afd = fn.approx(case['method'], case['form'], h0)
        Jt = fn.jac(fn.x)
        blocks = {}
        for o, no in enumerate(n_out):
            for w, nw in enumerate(n_in):
                key = block_key(o, w)
                fmt = fmts[key]
                blk = {'fmt': fmt}
                if fmt in ('rc', 'coo', 'csr', 'csc'):
                    Ab, Jb = fn.block(Afd, o, w), fn.block(Jt, o, w)
                    support = [(r, c) for r in range(no) for c in range(nw)
                               if Ab[r][c] != 0 or Jb[r][c] != 0]
                    pat = list(support)
                    u = rng.random()
                    if u < 0.45 and support:
                        # under-declare in 1-4 columns
                        cols = sorted(set(c for _, c in support))
                        k = rng.randint(1, min(4, len(cols)))
                        for c in rng.sample(cols, k):
                            inc = [p for p in pat if p[1] == c]
                            for p in rng.sample(inc, rng.randint(1, len(inc))):
                                pat.remove(p)
                    elif u < 0.6:
                        extra = [(r, c) for r in range(no) for c in range(nw)
                                 if (r, c) not in support]
                        for p in rng.sample(extra, min(len(extra), rng.randint(1, 2))):
                            pat.append(p)
                    if not pat:
                        pat = [rng.choice(support)] if support else [(0, 0)]
                    rng.shuffle(pat)
                    blk['pattern'] = [list(p) for p in pat]
                blocks[key] = blk
        case['blocks'] = blocks
        # one perturbed analytic entry
        if rng.random() < 0.5:
            cands = [k for k, b in blocks.items() if b['fmt'] not in ('undeclared', 'nondep')]
            if cands:
                key = rng.choice(cands)
                o, w = int(key[1:].split(',')[0]), int(key.split(',x')[1])
                pos = pattern_of(blocks[key], n_out[o], n_in[w])
                if pos is None:
                    pos = [(r, c) for r in range(n_out[o]) for c in range(n_in[w])]
                r, c = rng.choice(pos)
                atol, rtol = tols(case)
                ref = fn.block(Afd, o, w)[r][c]
                boundary = atol + rtol * abs(ref)
                u = rng.random()
                if u < 0.3 and boundary != 0 and case.get('rtol') is not None:
                    # land exactly on the tolerance boundary relative to the approximated value
                    target = ref + rng.choice([1, -1]) * boundary
                    dl = target - fn.block(Jt, o, w)[r][c]
                    if dl == 0:
                        dl = F(1)
                else:
                    dl = rng.choice([F(1), F(-1), F(1, 4), F(-3), F(1, 2 ** 10), F(-1, 2 ** 21),
                                     F(5, 2)])
                blocks[key]['perturb'] = [[r, c, rat(dl)]]
        return case

    def gen_mfree(self, rng):
        n_in = [rng.choice([1, 2, 3]) for _ in range(rng.choice([1, 2]))]
        n_out = [rng.choice([1, 2, 3]) for _ in range(rng.choice([1, 2]))]
        case = {'kind': 'mfree', 'n_in': n_in, 'n_out': n_out, 'directional': []}
        self._method(rng, case)
        self._tolerances(rng, case)
        fmts = {block_key(o, w): 'dense' for o in range(len(n_out)) for w in range(len(n_in))}
        A, quad, x = self._function(rng, n_in, n_out, fmts)
        case['lin'] = [[rat(v) for v in row] for row in A]
        case['quad'] = quad
        case['x'] = [rat(v) for v in x]
        blocks = {k: {'fmt': 'dense'} for k in fmts}
        for side in ('fwd', 'rev', 'both'):
            if rng.random() < 0.35:
                key = rng.choice(sorted(blocks))
                if 'perturb' in blocks[key]:
                    continue
                o, w = int(key[1:].split(',')[0]), int(key.split(',x')[1])
                blocks[key]['perturb'] = [[rng.randrange(n_out[o]), rng.randrange(n_in[w]),
                                           rat(rng.choice([F(1), F(-2), F(1, 4), F(1, 2 ** 10)]))]]
                blocks[key]['perturb_side'] = side
        case['blocks'] = blocks
        return case

    def gen_totals(self, rng):
        case = self.gen_partials(rng, kind='totals')
        case['steps'] = case['steps'][:1] if rng.random() < 0.8 else case['steps']
        ooff, nout = offsets(case['n_out'])
        nz = rng.choice([1, 2, 3])
        case['B'] = [[rat(rng.choice([F(0), F(1), F(-1), F(2), F(1, 2), F(3)]))
                      for _ in range(nout)] for _ in range(nz)]
        case['mode'] = rng.choice(['fwd', 'rev'])
        return case

    def gen_dirsparse(self, rng):
        """Directional check of a sparse-declared, correctly declared, non-diagonal partial."""
        n = rng.choice([2, 3])
        case = {'kind': 'partials', 'n_in': [n], 'n_out': [n], 'directional': [0], 'quad': [],
                'const_decl': rng.random() < 0.5}
        self._method(rng, case, allow_two=False)
        self._tolerances(rng, case)
        A = [[rng.choice(COEF) if (r == c or rng.random() < 0.7) else F(0) for c in range(n)]
             for r in range(n)]
        if all(A[r][c] == 0 for r in range(n) for c in range(n) if r != c):
            A[0][n - 1] = F(1)
        case['lin'] = [[rat(v) for v in row] for row in A]
        case['x'] = [rat(rng.choice(DY)) for _ in range(n)]
        fmt = rng.choice(['rc', 'coo', 'csr', 'csc'])
        pat = [[r, c] for r in range(n) for c in range(n) if A[r][c] != 0]
        case['blocks'] = {'y0,x0': {'fmt': fmt, 'pattern': pat}}
        return case

    # -- real code ---------------------------------------------------------------------------------
    def run_impl(self, case):
        import openmdao.api as om
        res = {'error': None, 'blocks': {}}
        try:
            with warnings.catch_warnings():
                warnings.simplefilter('ignore')
                Gen, fn = make_comp(case)
                multi = len(case['steps']) > 1
                p = om.Problem()
                kw = check_kwargs(case)
                if case['kind'] == 'totals':
                    p.model.add_subsystem('c1', Gen(), promotes=['*'])
                    B = np.array([[float(fr(v)) for v in row] for row in case['B']])
                    lin = _linear_comp(B, fn.n_out)
                    p.model.add_subsystem('c2', lin, promotes=['*'])
                    p.setup(mode=case['mode'], force_alloc_complex=case['method'] == 'cs')
                    for w, n in enumerate(fn.n_in):
                        p.set_val('x%d' % w, np.array([float(v) for v in
                                                       fn.x[fn.ioff[w]:fn.ioff[w] + n]]))
                    p.run_model()
                    d = p.check_totals(of=['z'], wrt=['x%d' % w for w in range(len(fn.n_in))],
                                       **kw)
                    for (of, wrt), e in d.items():
                        res['blocks']['%s,%s' % (of, wrt)] = canon_entry(e, multi)
                else:
                    p.model.add_subsystem('c', Gen())
                    p.setup(force_alloc_complex=case['method'] == 'cs')
                    p.run_model()
                    d = p.check_partials(**kw)
                    for (of, wrt), e in d['c'].items():
                        res['blocks']['%s,%s' % (of, wrt)] = canon_entry(e, multi)
        except Exception as e:
            res['error'] = type(e).__name__
            res['msg'] = str(e)[:200]
        return res

    # -- expectations from the property statement (exact, independent of the Lean model) ---------
    def expected(self, case):
        k = id(case)
        hit = self._exp_cache.get(k)
        if hit is not None and hit[0] is case:
            return hit[1]
        out = self._expected(case)
        if len(self._exp_cache) > 50000:
            self._exp_cache.clear()
        self._exp_cache[k] = (case, out)
        return out

    def _expected(self, case):
        """Per block: analytic matrix, approximated matrices per step, declared positions."""
        fn = Fn(case)
        out = {}
        if case['kind'] == 'totals':
            B = [[fr(v) for v in row] for row in case['B']]
            nz = len(B)
            Jan = [[F(0)] * fn.nin for _ in range(fn.nout)]
            for o in range(len(fn.n_out)):
                for w in range(len(fn.n_in)):
                    blk = analytic_block(fn, case, o, w)
                    if blk is None:
                        continue
                    for r, row in enumerate(blk):
                        for c, v in enumerate(row):
                            Jan[fn.ooff[o] + r][fn.ioff[w] + c] = v

            def mul(M):
                return [[sum((B[i][k] * M[k][j] for k in range(fn.nout)), F(0))
                         for j in range(fn.nin)] for i in range(nz)]
            tot_an = mul(Jan)
            tot_fd = [mul(fn.approx(case['method'], case['form'], h)) for h in steps_of(case)]
            for w, nw in enumerate(fn.n_in):
                c0 = fn.ioff[w]
                out['z,x%d' % w] = {
                    'an': [row[c0:c0 + nw] for row in tot_an],
                    'fd': [[row[c0:c0 + nw] for row in M] for M in tot_fd],
                    'pos': None, 'fmt': 'total', 'nr': nz, 'nc': nw}
            return out
        for o, no in enumerate(fn.n_out):
            for w, nw in enumerate(fn.n_in):
                key = block_key(o, w)
                blk = case['blocks'][key]
                pos = pattern_of(blk, no, nw)
                e = {'fmt': blk['fmt'], 'pos': pos, 'nr': no, 'nc': nw,
                     'fd': [approx_block(fn, case, o, w, h) for h in steps_of(case)],
                     'dir': w in case.get('directional', [])}
                if case['kind'] == 'mfree':
                    J = fn.block(fn.jac(fn.x), o, w)
                    e['an'] = [list(r) for r in J]
                    e['an_rev'] = [list(r) for r in J]
                    side = blk.get('perturb_side', 'both')
                    for r, c, dl in blk.get('perturb', []):
                        if side in ('both', 'fwd'):
                            e['an'][r][c] += fr(dl)
                        if side in ('both', 'rev'):
                            e['an_rev'][r][c] += fr(dl)
                else:
                    e['an'] = analytic_block(fn, case, o, w)
                out['y%d,x%d' % (o, w)] = e
        return out

    def _has_dirundecl(self, case):
        return any(case['blocks'][block_key(o, w)]['fmt'] in ('undeclared', 'nondep')
                   for w in case.get('directional', []) for o in range(len(case['n_out'])))

    def _has_dirsparse(self, case):
        return any(case['blocks'][block_key(o, w)]['fmt'] in SPARSE
                   for w in case.get('directional', []) for o in range(len(case['n_out'])))

    def oracle(self, case, impl):
        k = id(case)
        hit = self._or_cache.get(k)
        if hit is not None and hit[0] is case and hit[1] is impl:
            return hit[2]
        out = self._oracle(case, impl)
        if len(self._or_cache) > 50000:
            self._or_cache.clear()
        self._or_cache[k] = (case, impl, out)
        return out

    def _oracle(self, case, impl):
        exp = self.expected(case)
        atol, rtol = tols(case)
        kinds, details = [], []

        def fail(kind, msg):
            kinds.append(kind)
            details.append(msg)

        diag_off = [k for k, e in exp.items() if e['fmt'] == 'diag' and not e.get('dir')
                    and any(uncovered_exact(M, e['pos']) for M in e['fd'])]
        if impl.get('error'):
            if impl['error'] == 'KeyError' and 'uncovered_threshold' in impl.get('msg', '') \
                    and diag_off:
                fail(KEYERR, 'check_partials raised KeyError(uncovered_threshold); diagonal '
                             'partial(s) %s have off-diagonal approximated nonzeros' % diag_off)
            elif impl['error'] == 'AxisError' and self._has_dirundecl(case):
                fail(DIRUNDECL, 'directional check_partials raised AxisError: an (of, wrt) pair of '
                                'a directional wrt has no declared partial')
            elif self._has_dirsparse(case):
                fail(DIRSPARSE, 'directional check of a sparse-declared partial raised %s: %s'
                     % (impl['error'], impl.get('msg')))
            else:
                fail('exception:' + impl['error'], impl.get('msg', ''))
            return {'what': details[0], 'kinds': sorted(set(kinds)), 'details': details}

        for key, e in exp.items():
            got = impl['blocks'].get(key)
            declared = e['an'] is not None
            fds_masked = [mask(M, e['pos']) for M in e['fd']]
            if got is None:
                # only undeclared pairs within tolerance may be dropped from the result
                viol = any(abs(v) > atol + rtol * abs(v) for M in e['fd'] for row in M for v in row)
                if declared or viol:
                    fail('pair-missing', '%s absent from the result' % key)
                continue
            dirsp = e.get('dir') and e['fmt'] in SPARSE
            # (1) the analytic values
            if declared:
                want = [[sum(row, F(0))] for row in e['an']] if e.get('dir') else e['an']
                name = 'J_rev' if case.get('mode') == 'rev' else 'J_fwd'
                if got[name] is None or _flat(got[name]) != _flatF(want):
                    fail(DIRSPARSE if dirsp else 'jfwd-wrong',
                         '%s: %s is not the analytic Jacobian the component provides' % (key, name))
                if case['kind'] == 'mfree' and _flat(got['J_rev']) != _flatF(e['an_rev']):
                    fail('jrev-wrong', '%s: J_rev is not the reverse product' % key)
            # (2) the approximated values
            if got['J_fd'] is None or len(got['J_fd']) != len(fds_masked) or any(
                    _flat(a) != _flatF(b) for a, b in zip(got['J_fd'], fds_masked)):
                if e['fmt'] == 'dense' and got['J_fd'] is not None and \
                        len(got['J_fd']) == len(fds_masked) > 1 and \
                        all(_flat(a) == _flatF(fds_masked[-1]) for a in got['J_fd']):
                    fail(ALIAS, '%s: check with %d steps returns the last step\'s J_fd for every '
                                'step' % (key, len(fds_masked)))
                else:
                    fail(DIRSPARSE if dirsp else 'jfd-wrong',
                         '%s: J_fd is not the approximated Jacobian (on the declared pattern)'
                         % key)
            # (3) out-of-pattern nonzeros
            if e['pos'] is not None and not e.get('dir'):
                # with several steps: the entries of any one step, or of all steps together
                per_step = [uncovered_exact(M, e['pos']) for M in e['fd']]
                union = sorted(set(p for u in per_step for p in u), key=lambda p: (p[1], p[0]))
                nonempty = [u for u in per_step if u]
                accept = ([sorted(u) for u in nonempty] + [sorted(union)]) if nonempty else [[]]
                rep = [tuple(v) for v in (got['unc'] or [])]
                if sorted(rep) not in accept or len(set(rep)) != len(rep):
                    firsts = []
                    for u in nonempty:
                        cols = sorted(set(c for _, c in u))
                        if len(cols) > 1:
                            firsts.append([p for p in u if p[1] == cols[0]])
                    if e['fmt'] in ('rc', 'coo', 'csc') and rep in firsts:
                        fail(FIRSTCOL, '%s (%s): uncovered_nz lists only column %d, exact %s'
                             % (key, e['fmt'], rep[0][1], accept[-1]))
                    elif e['fmt'] == 'csr' and nonempty and got['unc'] == []:
                        fail(NEVER, '%s (csr): uncovered_nz is empty, exact %s'
                             % (key, accept[-1]))
                    else:
                        fail('uncovered-wrong', '%s (%s): uncovered_nz %s, exact %s'
                             % (key, e['fmt'], rep, accept[-1]))
                elif nonempty and got['unc_thr'] != rat(THR):
                    fail('uncovered-threshold', '%s: reported threshold %s' % (key, got['unc_thr']))
            elif got['unc'] and not dirsp:
                fail('uncovered-wrong', '%s: uncovered_nz on a dense/undeclared pair' % key)
            if dirsp and got['unc']:
                fail(DIRSPARSE, '%s: directional check reports uncovered_nz %s' % (key, got['unc']))
            # (4) error magnitudes recomputed from the returned matrices
            msg = self._errors_from_returned(case, key, got, declared)
            if msg:
                fail('errors-wrong', msg)
            # (5) rows / cols echo the declaration
            if e['fmt'] == 'rc' and (got['rows'] != [p[0] for p in e['pos']]
                                     or got['cols'] != [p[1] for p in e['pos']]):
                fail('rows-cols-wrong', '%s: rows/cols differ from the declaration' % key)
        for key in impl['blocks']:
            if key not in exp:
                fail('pair-unexpected', '%s in the result' % key)
        if not kinds:
            return None
        return {'what': details[0], 'kinds': sorted(set(kinds)), 'details': details[:6]}

    def _errors_from_returned(self, case, key, got, declared):
        """abs/rel error, values, tolerance violation and magnitudes must be the differences of
        the returned matrices (float arithmetic as the property defines them)."""
        atol = float(fr(case['atol'])) if case.get('atol') is not None else 0.0
        rtol = float(fr(case['rtol'])) if case.get('rtol') is not None else 1e-6
        if got['J_fd'] is None:
            return None
        arr = {k: (None if got[k] is None else np.array([[float(fr(v)) for v in row]
                                                        for row in got[k]]))
               for k in ('J_fwd', 'J_rev')}
        fds = [np.array([[float(fr(v)) for v in row] for row in M]) for M in got['J_fd']]
        if len(got['errs']) != len(fds):
            return '%s: %d error entries for %d steps' % (key, len(got['errs']), len(fds))
        pairs = []
        for i, fd in enumerate(fds):
            if arr['J_fwd'] is not None:
                pairs.append((i, 'fwd', arr['J_fwd'], fd))
            if arr['J_rev'] is not None:
                pairs.append((i, 'rev', arr['J_rev'], fd))
            if arr['J_fwd'] is None and arr['J_rev'] is None:
                pairs.append((i, 'rev', np.zeros_like(fd), fd))
            if case['kind'] == 'mfree':
                pairs.append((i, 'fr', arr['J_fwd'], arr['J_rev']))
        for i, which, x, ref in pairs:
            r = got['errs'][i][which]
            if r is None:
                return '%s: step %d has no %s error although both matrices are returned' % (
                    key, i, which)
            if x.shape != ref.shape:
                return '%s: shapes %s vs %s' % (key, x.shape, ref.shape)
            x = x.ravel()
            ref = ref.ravel()
            d = np.abs(x - ref) - (atol + rtol * np.abs(ref))
            if _f(r['tv']) != d.max():
                return '%s step %d %s: tol violation %s, recomputed %s' % (
                    key, i, which, _f(r['tv']), d.max())
            idx = [k for k in range(d.size) if d[k] == d.max()
                   and x[k] == _f(r['x']) and ref[k] == _f(r['ref'])]
            if not idx:
                return '%s step %d %s: values at max error (%s, %s) are not a compared pair at ' \
                       'the maximal violation' % (key, i, which, r['x'], r['ref'])
            k = idx[0]
            if _f(r['abs']) != abs(x[k] - ref[k]):
                return '%s step %d %s: abs error %s is not |x-ref|=%s' % (
                    key, i, which, _f(r['abs']), abs(x[k] - ref[k]))
            want_rel = float('inf') if ref[k] == 0 else abs(x[k] - ref[k]) / abs(ref[k])
            if _f(r['rel']) != want_rel:
                return '%s step %d %s: rel error %s, recomputed %s' % (
                    key, i, which, _f(r['rel']), want_rel)
        # magnitudes
        mfd = max([0.0] + [float(np.max(np.abs(fd))) for fd in fds if fd.size])
        mf = 0.0 if arr['J_fwd'] is None or not arr['J_fwd'].size else float(
            np.max(np.abs(arr['J_fwd'])))
        mr = 0.0 if arr['J_rev'] is None or not arr['J_rev'].size else float(
            np.max(np.abs(arr['J_rev'])))
        for m in got['mag']:
            if [_f(v) for v in m] != [mf, mr, mfd]:
                return '%s: magnitude %s, recomputed %s' % (key, m, [mf, mr, mfd])
        return None

    def signature(self, case, impl, failure):
        """One known-finding entry per kind of failure; a case is suppressed only when every kind
        of failure it shows is a recorded finding (otherwise the unrecorded kind is the signature,
        which matches nothing)."""
        kinds = failure.get('kinds', [])
        unknown = [k for k in kinds if match_known(self.pid, {'kind': k}) is None]
        return {'kind': (unknown or kinds or ['none'])[0]}

    def nontrivial(self, case, impl):
        exp = self.expected(case)
        for e in exp.values():
            for M in e['fd']:
                if e['an'] is None:
                    if any(v != 0 for row in M for v in row):
                        return True
                    continue
                if uncovered_exact(M, e['pos']):
                    return True
                an = [[sum(row, F(0))] for row in e['an']] if e.get('dir') else e['an']
                if _flatF(an) != _flatF(mask(M, e['pos'])):
                    return True
                if 'an_rev' in e and e['an_rev'] != e['an']:
                    return True
        return False

    def bucket(self, case, impl):
        exp = self.expected(case)
        out = ['kind=' + case['kind'], 'method=%s/%s' % (case['method'], case['form'])
               if case['method'] == 'fd' else 'method=cs', 'steps=%d' % len(case['steps']),
               'tol=default' if case.get('rtol') is None else 'tol=dyadic',
               'directional' if case.get('directional') else 'non-directional',
               'quad' if case['quad'] else 'linear',
               'impl_error=%s' % impl['error'] if impl.get('error') else 'impl_ok']
        f = self.oracle(case, impl)
        out.extend('oracle=' + k for k in (f['kinds'] if f else ['holds']))
        if case['kind'] == 'totals':
            out.append('totals_mode=' + case['mode'])
        fmts = set()
        for key, blk in case['blocks'].items():
            fmts.add(blk['fmt'])
            if blk.get('perturb'):
                out.append('perturbed=' + blk['fmt'])
        out.extend('fmt=' + f for f in sorted(fmts))
        if case['kind'] != 'totals':
            for key, e in exp.items():
                if e['pos'] is not None and not e.get('dir'):
                    un = uncovered_exact(e['fd'][0], e['pos'])
                    ncol = len(set(c for _, c in un))
                    out.append('underdeclared_cols[%s]=%d' % (e['fmt'], min(ncol, 4)))
        return out

    # -- model -----------------------------------------------------------------------------------
    def model_requests(self, case, impl):
        if self._has_dirsparse(case):
            return []                      # not modelled (known finding, oracle only)
        if impl.get('error') == 'AxisError' and self._has_dirundecl(case):
            return []                      # crash before anything is compared (known finding)
        exp = self.expected(case)
        atol, rtol = tols(case)
        table = self._table()
        reqs = []
        for key in sorted(exp):
            e = exp[key]
            fmt = e['fmt']
            req = {'op': 'subjac', 'nrows': e['nr'], 'ncols': 1 if e.get('dir') else e['nc'],
                   'thr': rat(THR), 'atol': rat(atol), 'rtol': rat(rtol),
                   'fds': [[[rat(v) for v in row] for row in M] for M in e['fd']],
                   'jfwd': None, 'jrev': None, 'matrix_free': case['kind'] == 'mfree',
                   'totals': case['kind'] == 'totals', 'directional': bool(e.get('dir')),
                   'placement': 'always', 'recthr': True, 'alias': False,
                   'persist': bool(table['persist'])}
            if fmt in ('rc', 'coo'):
                req['fmt'] = 'coo'
                req['rows'] = [p[0] for p in e['pos']]
                req['cols'] = [p[1] for p in e['pos']]
            elif fmt in ('csr', 'csc'):
                req['fmt'] = fmt
                req['indptr'], req['indices'] = compressed(fmt, e['pos'], e['nr'], e['nc'])
            elif fmt == 'diag':
                req['fmt'] = 'diag'
            else:
                req['fmt'] = 'dense'
                if fmt == 'dense' and case['kind'] == 'partials':
                    req['alias'] = table['alias_dir' if e.get('dir') else 'alias']
            if fmt in table:
                req['placement'], req['recthr'] = table[fmt]
            if e['an'] is not None:
                an = [[rat(v) for v in row] for row in e['an']]
                if case.get('mode') == 'rev':
                    req['jrev'] = an
                else:
                    req['jfwd'] = an
                if case['kind'] == 'mfree':
                    req['jrev'] = [[rat(v) for v in row] for row in e['an_rev']]
            reqs.append(req)
        return reqs

    def compare(self, case, impl, answers):
        exp = self.expected(case)
        keys = sorted(exp)
        dyadic = case.get('rtol') is not None
        model_keyerr = [k for k, a in zip(keys, answers) if a['report']['kind'] == 'keyerror']
        if model_keyerr:
            if impl.get('error') == 'KeyError' and 'uncovered_threshold' in impl.get('msg', ''):
                return None
            return 'model predicts KeyError(uncovered_threshold) for %s, implementation: %s' % (
                model_keyerr, impl.get('error') or 'returned normally')
        if impl.get('error'):
            return 'implementation raised %s (%s), model returns normally' % (
                impl['error'], impl.get('msg'))
        for key, a in zip(keys, answers):
            e = exp[key]
            got = impl['blocks'].get(key)
            if e['an'] is None:
                # undeclared / non-dependent pairs are kept iff flagged
                if (got is not None) != a['above']:
                    return '%s: present=%s but model above_tol=%s' % (key, got is not None,
                                                                     a['above'])
                if got is None:
                    continue
            elif got is None:
                return '%s: missing from the implementation result' % key
            if [_flat(m) for m in got['J_fd'] or []] != [_flat(m) for m in a['jfd']]:
                return '%s: J_fd differs: impl %s model %s' % (key, got['J_fd'], a['jfd'])
            if a['jfwd'] is not None and _flat(got['J_fwd']) != [_cr(v) for v in a['jfwd']]:
                return '%s: J_fwd differs: impl %s model %s' % (key, got['J_fwd'], a['jfwd'])
            rep = a['report']
            if rep['kind'] == 'clean':
                if got['unc'] is not None:
                    return '%s: impl uncovered_nz %s, model none' % (key, got['unc'])
            else:
                if got['unc'] != rep['nz']:
                    return '%s: impl uncovered_nz %s, model %s' % (key, got['unc'], rep['nz'])
                if fr(got['unc_thr']) != fr(rep['thr']):
                    return '%s: threshold %s vs %s' % (key, got['unc_thr'], rep['thr'])
            if len(got['errs']) != len(a['errs']):
                return '%s: %d vs %d steps' % (key, len(got['errs']), len(a['errs']))
            for i, (ge, me) in enumerate(zip(got['errs'], a['errs'])):
                for which in ('fwd', 'rev', 'fr'):
                    g, m = ge[which], me[which]
                    if (g is None) != (m is None):
                        return '%s step %d %s: impl %s model %s' % (key, i, which, g, m)
                    if g is None:
                        continue
                    d = self._cmp_tol(g, m, dyadic, *tols(case))
                    if d:
                        return '%s step %d %s: %s' % (key, i, which, d)
            for gm in got['mag']:
                if [fr(v) for v in gm] != [fr(v) for v in a['mag']]:
                    return '%s: magnitude impl %s model %s' % (key, gm, a['mag'])
        return None

    @staticmethod
    def _cmp_tol(g, m, dyadic, atol, rtol):
        """Compare one get_tol_violation result (g: implementation, m: model)."""
        if dyadic:
            for k in ('tv', 'x', 'ref', 'abs'):
                if fr(g[k]) != fr(m[k]):
                    return '%s impl %s model %s' % (k, g[k], m[k])
            if (g['rel'] == 'inf') != (m['rel'] == 'inf'):
                return 'rel impl %s model %s' % (g['rel'], m['rel'])
            if g['rel'] != 'inf' and abs(_f(g['rel']) - float(fr(m['rel']))) > 1e-12 * max(
                    1.0, abs(_f(g['rel']))):
                return 'rel impl %s model %s' % (g['rel'], m['rel'])
            if (fr(g['tv']) > 0) != m['above']:
                return 'tol violation %s but model above=%s' % (g['tv'], m['above'])
            return None
        # non-dyadic rtol (default 1e-6): the violation is rounded in the implementation
        if abs(float(fr(g['tv'])) - float(fr(m['tv']))) > 1e-9:
            return 'tv impl %s model %s' % (g['tv'], m['tv'])
        if abs(float(fr(m['tv']))) > 1e-9 and (fr(g['tv']) > 0) != m['above']:
            return 'tol violation %s but model above=%s' % (g['tv'], m['above'])
        if (fr(g['x']), fr(g['ref'])) != (fr(m['x']), fr(m['ref'])):
            # another index is acceptable only at a (rounded) tie of the violation
            v = abs(fr(g['x']) - fr(g['ref'])) - (atol + rtol * abs(fr(g['ref'])))
            if abs(float(v - fr(m['tv']))) > 1e-9:
                return 'values at max: impl (%s,%s) model (%s,%s)' % (g['x'], g['ref'], m['x'],
                                                                     m['ref'])
            return None
        if fr(g['abs']) != fr(m['abs']):
            return 'abs impl %s model %s' % (g['abs'], m['abs'])
        if (g['rel'] == 'inf') != (m['rel'] == 'inf'):
            return 'rel impl %s model %s' % (g['rel'], m['rel'])
        return None


def _linear_comp(B, n_out):
    import openmdao.api as om
    ooff, nout = offsets(n_out)

    class Lin(om.ExplicitComponent):
        def setup(self):
            for o, n in enumerate(n_out):
                self.add_input('y%d' % o, np.zeros(n))
                self.declare_partials('z', 'y%d' % o, val=B[:, ooff[o]:ooff[o] + n])
            self.add_output('z', np.zeros(B.shape[0]))

        def compute(self, inputs, outputs):
            z = 0
            for o, n in enumerate(n_out):
                z = z + B[:, ooff[o]:ooff[o] + n].dot(inputs['y%d' % o])
            outputs['z'] = z
    return Lin()


def _f(s):
    if s in ('inf', '-inf', 'nan'):
        return float(s)
    return float(fr(s))


def _cr(s):
    return s if s in ('inf', '-inf', 'nan') else fr(s)


def _flat(M):
    if M is None:
        return None
    return [_cr(v) for row in M for v in row]


def _flatF(M):
    return [v for row in M for v in row]


PROP = C13()
