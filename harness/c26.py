"""C26 — stock math components compute their formulas and exact partials.

A case names one stock component, one random option set (several equations / products / balances
per component, vec_size, length / shape / axis, scaling factors, normalisation flags, units
labels) and small dyadic input values.  `run_impl` builds a tiny real `Problem` around the real
component, sets the inputs, runs it and records, through public API only,

* the outputs (`get_val`) or, for implicit components, the residuals
  (`list_outputs(residuals=True)`) after `run_apply_nonlinear`,
* the dense view of every declared sub-Jacobian (`comp.check_partials(method='cs')` -> `J_fwd`,
  with the complex-step `J_fd` as a cross-check) and, for explicit components, `compute_totals`
  from the (auto) IndepVarComp to every output.

* correspondence: the Lean driver evaluates `OMV.C26` (formula + declared rows/cols/values pattern,
  densified) on the same options and inputs; exact rationals where the arithmetic is rational,
  Float + 1e-12 for VectorMagnitudeComp (sqrt).
* direct oracle (no Lean): the documented formula written independently below, evaluated in exact
  `Fraction` dual numbers (value + exact directional derivative along every input element).
"""
import math
import warnings
from fractions import Fraction

import numpy as np

from common import Property, rat, unrat, rats, Infra

TOL = 1e-12
UNITS = [None, None, None, 'm', 'ft', 'N', 'kg', 's', 'm/s', 'J', 'degC']
DY = [Fraction(k, 4) for k in range(-16, 17)]
SMALL = [Fraction(k, 2) for k in range(-8, 9)]
PYTH = [[3, 4], [1, 2, 2], [2, 3, 6], [1, 4, 8], [4, 4, 7], [2, 6, 9], [1, 1, 1, 1], [1, 3, 3, 9],
        [2, 4, 5, 6], [5], [0, 5], [0, 3, 4], [6, 0, 8, 0]]


# ------------------------------------------------------------------------------------------------
# exact dual numbers (oracle side): value + derivative along one direction

class D:
    __slots__ = ('re', 'du')

    def __init__(self, re, du=0):
        self.re = Fraction(re)
        self.du = Fraction(du)

    @staticmethod
    def of(x):
        return x if isinstance(x, D) else D(x)

    def __add__(self, o):
        o = D.of(o)
        return D(self.re + o.re, self.du + o.du)
    __radd__ = __add__

    def __sub__(self, o):
        o = D.of(o)
        return D(self.re - o.re, self.du - o.du)

    def __rsub__(self, o):
        return D.of(o) - self

    def __neg__(self):
        return D(-self.re, -self.du)

    def __mul__(self, o):
        o = D.of(o)
        return D(self.re * o.re, self.du * o.re + self.re * o.du)
    __rmul__ = __mul__

    def __truediv__(self, o):
        o = D.of(o)
        return D(self.re / o.re, (self.du * o.re - self.re * o.du) / (o.re * o.re))

    def __rtruediv__(self, o):
        return D.of(o) / self


def d_abs(x):
    return -x if x.re < 0 else x


def jac_exact(f, xs):
    """f: dict name -> list[D] -> dict out -> list[D].  Returns (values, J[out][wrt] dense)."""
    base = f({k: [D(v) for v in vs] for k, vs in xs.items()})
    val = {o: [y.re for y in ys] for o, ys in base.items()}
    J = {o: {w: [[Fraction(0)] * len(xs[w]) for _ in ys] for w in xs} for o, ys in base.items()}
    for w in xs:
        for j in range(len(xs[w])):
            args = {k: [D(v, 1 if (k == w and i == j) else 0) for i, v in enumerate(vs)]
                    for k, vs in xs.items()}
            res = f(args)
            for o, ys in res.items():
                for i, y in enumerate(ys):
                    J[o][w][i][j] = y.du
    return val, J


# ------------------------------------------------------------------------------------------------
# documented formulas (independent of the Lean model; index arithmetic through NumPy reshape)

def _arr(vals, shape):
    a = np.empty(len(vals), dtype=object)
    for i, v in enumerate(vals):
        a[i] = v
    return a.reshape(shape)


def f_addsub(case):
    def f(x):
        out = {}
        for e in case['eqs']:
            n = e['vec_size'] * e['length']
            sf = [Fraction(1)] * len(e['ins']) if e['sf'] is None else [unrat(s) for s in e['sf']]
            out[e['out']] = [sum((x[nm][i] * s for nm, s in zip(e['ins'], sf)), D(0))
                             for i in range(n)]
        return out
    return f


def f_mux(case):
    v = case['vec_size']

    def f(x):
        out = {}
        for m in case['vars']:
            parts = [_arr(x['%s_%d' % (m['name'], i)], m['shape']) for i in range(v)]
            out[m['name']] = list(np.stack(parts, axis=m['axis']).ravel())
        return out
    return f


def f_dot(case):
    def f(x):
        out = {}
        for pr in case['prods']:
            v, n = pr['vec_size'], pr['length']
            a = _arr(x[pr['a']], (v, n))
            b = _arr(x[pr['b']], (v, n))
            out[pr['c']] = [sum((a[k, i] * b[k, i] for i in range(n)), D(0)) for k in range(v)]
        return out
    return f


def f_cross(case):
    def f(x):
        out = {}
        for pr in case['prods']:
            v = pr['vec_size']
            a = _arr(x[pr['a']], (v, 3))
            b = _arr(x[pr['b']], (v, 3))
            o = []
            for k in range(v):
                o += [a[k, 1] * b[k, 2] - a[k, 2] * b[k, 1],
                      a[k, 2] * b[k, 0] - a[k, 0] * b[k, 2],
                      a[k, 0] * b[k, 1] - a[k, 1] * b[k, 0]]
            out[pr['c']] = o
        return out
    return f


def f_matvec(case):
    def f(x):
        out = {}
        for pr in case['prods']:
            v = pr['vec_size']
            nr, nc = pr['A_shape']
            A = _arr(x[pr['A']], (v, nr, nc))
            xx = _arr(x[pr['x']], (v, nc))
            out[pr['b']] = [sum((A[k, i, j] * xx[k, j] for j in range(nc)), D(0))
                            for k in range(v) for i in range(nr)]
        return out
    return f


def f_eq(case):
    """EQConstraintComp output / BalanceComp residual (same documented expression)."""
    def f(x):
        out = {}
        for o in case['outs']:
            n = o['size']
            res = []
            for i in range(n):
                lhs, rhs = x[o['lhs']][i], x[o['rhs']][i]
                mult = x[o['mult']][i] if o['use_mult'] else D(1)
                if o['normalize']:
                    norm = d_abs(rhs) if abs(rhs.re) >= 2 else Fraction(1, 4) * rhs * rhs + 1
                else:
                    norm = D(1)
                res.append((mult * lhs - rhs) / norm)
            out[o['name']] = res
        return out
    return f


def f_linsys(case):
    n, v, vecA = case['size'], case['vec_size'], case['vectorize_A'] and case['vec_size'] > 1

    def f(x):
        A = _arr(x['A'], (v, n, n) if vecA else (n, n))
        b = _arr(x['b'], (v, n))
        xx = _arr(x['x'], (v, n))
        res = []
        for k in range(v):
            Ak = A[k] if vecA else A
            res += [sum((Ak[i, j] * xx[k, j] for j in range(n)), D(0)) - b[k, i] for i in range(n)]
        return {'x': res}
    return f


def f_spline_slinear(case):
    grid = [unrat(g) for g in case['grid']]
    xi = [unrat(g) for g in case['x_interp']]
    v = case['vec_size']
    ncp = len(grid)

    def f(x):
        out = {}
        for s in case['splines']:
            y = _arr(x[s['cp']], (v, ncp))
            o = []
            for k in range(v):
                for t in xi:
                    # segment containing t (extrapolate with the end segments)
                    j = 0
                    while j < ncp - 2 and t > grid[j + 1]:
                        j += 1
                    w = (t - grid[j]) / (grid[j + 1] - grid[j])
                    o.append(y[k, j] * (1 - w) + y[k, j + 1] * w)
            out[s['interp']] = o
        return out
    return f


FORMULA = {'addsub': f_addsub, 'mux': f_mux, 'dot': f_dot, 'cross': f_cross, 'matvec': f_matvec,
           'eq': f_eq, 'balance': f_eq, 'linsys': f_linsys}


# ------------------------------------------------------------------------------------------------
# building the real component

def fl(vals):
    return np.array([float(unrat(v)) for v in vals])


def input_shapes(case):
    """name -> shape of every input (and implicit state) the harness sets, from the options only."""
    k = case['comp']
    sh = {}
    if k == 'addsub':
        for e in case['eqs']:
            s = (e['vec_size'],) if e['length'] == 1 else (e['vec_size'], e['length'])
            for nm in e['ins']:
                sh.setdefault(nm, s)
    elif k == 'mux':
        for m in case['vars']:
            for i in range(case['vec_size']):
                sh['%s_%d' % (m['name'], i)] = tuple(m['shape'])
    elif k == 'dot':
        for pr in case['prods']:
            for nm in (pr['a'], pr['b']):
                sh.setdefault(nm, (pr['vec_size'], pr['length']))
    elif k == 'cross':
        for pr in case['prods']:
            for nm in (pr['a'], pr['b']):
                sh.setdefault(nm, (pr['vec_size'], 3) if pr['vec_size'] > 1 else (3,))
    elif k == 'matvec':
        for pr in case['prods']:
            sh.setdefault(pr['A'], (pr['vec_size'],) + tuple(pr['A_shape']))
            sh.setdefault(pr['x'], (pr['vec_size'], pr['A_shape'][1]))
    elif k == 'vecmag':
        for m in case['mags']:
            sh.setdefault(m['in'], (m['vec_size'], m['length']))
    elif k in ('eq', 'balance'):
        for o in case['outs']:
            s = tuple(o['shape'])
            sh[o['lhs']] = s
            sh[o['rhs']] = s
            if o['use_mult']:
                sh[o['mult']] = s
    elif k == 'linsys':
        n, v = case['size'], case['vec_size']
        sh['A'] = (v, n, n) if (case['vectorize_A'] and v > 1) else (n, n)
        sh['b'] = (v, n) if v > 1 else (n,)
    elif k == 'spline':
        for s in case['splines']:
            sh[s['cp']] = (case['vec_size'], len(case['grid']))
    return sh


def build(case):
    """Return the real component for the case (raises what the real code raises)."""
    import openmdao.api as om
    k = case['comp']
    if k == 'addsub':
        eqs = case['eqs']
        kw = {'complex': True} if case.get('complex') else {}
        if case.get('ctor'):
            e = eqs[0]
            c = om.AddSubtractComp(e['out'], e['ins'], vec_size=e['vec_size'], length=e['length'],
                                   scaling_factors=None if e['sf'] is None else
                                   [float(unrat(s)) for s in e['sf']], units=e['units'])
            rest = eqs[1:]
        else:
            c = om.AddSubtractComp(**kw)
            rest = eqs
        for e in rest:
            c.add_equation(e['out'], e['ins'], vec_size=e['vec_size'], length=e['length'],
                           scaling_factors=None if e['sf'] is None else
                           [float(unrat(s)) for s in e['sf']], units=e['units'])
        return c
    if k == 'mux':
        c = om.MuxComp(vec_size=case['vec_size'])
        for m in case['vars']:
            if not m['shape']:
                c.add_var(m['name'], axis=m['axis'], units=m['units'])
            elif m.get('via_val'):
                c.add_var(m['name'], val=np.ones(tuple(m['shape'])), axis=m['axis'],
                          units=m['units'])
            else:
                c.add_var(m['name'], shape=tuple(m['shape']), axis=m['axis'], units=m['units'])
        return c
    if k == 'dot':
        p0 = case['prods'][0]
        c = om.DotProductComp(vec_size=p0['vec_size'], length=p0['length'], a_name=p0['a'],
                              b_name=p0['b'], c_name=p0['c'], a_units=p0['a_units'],
                              b_units=p0['b_units'], c_units=p0['c_units'])
        for pr in case['prods'][1:]:
            c.add_product(pr['c'], a_name=pr['a'], b_name=pr['b'], c_units=pr['c_units'],
                          a_units=pr['a_units'], b_units=pr['b_units'], vec_size=pr['vec_size'],
                          length=pr['length'])
        return c
    if k == 'cross':
        p0 = case['prods'][0]
        c = om.CrossProductComp(vec_size=p0['vec_size'], a_name=p0['a'], b_name=p0['b'],
                                c_name=p0['c'], a_units=p0['a_units'], b_units=p0['b_units'],
                                c_units=p0['c_units'])
        for pr in case['prods'][1:]:
            c.add_product(pr['c'], a_name=pr['a'], b_name=pr['b'], c_units=pr['c_units'],
                          a_units=pr['a_units'], b_units=pr['b_units'], vec_size=pr['vec_size'])
        return c
    if k == 'matvec':
        p0 = case['prods'][0]
        c = om.MatrixVectorProductComp(vec_size=p0['vec_size'], A_shape=tuple(p0['A_shape']),
                                       A_name=p0['A'], x_name=p0['x'], b_name=p0['b'],
                                       A_units=p0['A_units'], x_units=p0['x_units'],
                                       b_units=p0['b_units'])
        for pr in case['prods'][1:]:
            c.add_product(pr['b'], A_name=pr['A'], x_name=pr['x'], A_units=pr['A_units'],
                          x_units=pr['x_units'], b_units=pr['b_units'], vec_size=pr['vec_size'],
                          A_shape=tuple(pr['A_shape']))
        return c
    if k == 'vecmag':
        m0 = case['mags'][0]
        c = om.VectorMagnitudeComp(vec_size=m0['vec_size'], length=m0['length'],
                                   in_name=m0['in'], mag_name=m0['mag'], units=m0['units'])
        for m in case['mags'][1:]:
            c.add_magnitude(m['mag'], m['in'], units=m['units'], vec_size=m['vec_size'],
                            length=m['length'])
        return c
    if k in ('eq', 'balance'):
        def kwargs(o):
            kw = dict(eq_units=o['eq_units'], use_mult=o['use_mult'], normalize=o['normalize'])
            for key, default in (('lhs', 'lhs:'), ('rhs', 'rhs:'), ('mult', 'mult:')):
                if o[key] != default + o['name']:
                    kw[key + '_name'] = o[key]
            if o.get('mult_val') is not None:
                kw['mult_val'] = float(unrat(o['mult_val']))
            if o.get('rhs_val') is not None:
                kw['rhs_val'] = float(unrat(o['rhs_val']))
            if o.get('units') is not None:
                kw['units'] = o['units']
            for side in ('lhs', 'rhs'):
                if o.get(side + '_kw_units') is not None:
                    kw[side + '_kwargs'] = {'units': o[side + '_kw_units']}
            if o.get('shape_via') == 'val':
                kw['val'] = np.ones(tuple(o['shape']))
            else:
                kw['shape'] = tuple(o['shape'])
            return kw
        outs = list(case['outs'])
        if k == 'eq':
            if case.get('ctor'):
                c = om.EQConstraintComp(outs[0]['name'], **kwargs(outs[0]))
                outs = outs[1:]
            else:
                c = om.EQConstraintComp()
            for o in outs:
                c.add_eq_output(o['name'], **kwargs(o))
        else:
            if case.get('ctor'):
                c = om.BalanceComp(outs[0]['name'], **kwargs(outs[0]))
                outs = outs[1:]
            else:
                c = om.BalanceComp()
            for o in outs:
                c.add_balance(o['name'], **kwargs(o))
        return c
    if k == 'linsys':
        return om.LinearSystemComp(size=case['size'], vec_size=case['vec_size'],
                                   vectorize_A=case['vectorize_A'])
    if k == 'spline':
        kw = {}
        if case.get('num_cp') is not None:
            kw['num_cp'] = case['num_cp']
        else:
            kw['x_cp_val'] = fl(case['grid'])
        c = om.SplineComp(method=case['method'], vec_size=case['vec_size'],
                          x_interp_val=fl(case['x_interp']), **kw)
        for s in case['splines']:
            c.add_spline(y_cp_name=s['cp'], y_interp_name=s['interp'], y_units=s['units'])
        return c
    raise Infra('unknown component kind %r' % k)


def out_names(case):
    k = case['comp']
    if k == 'addsub':
        return [e['out'] for e in case['eqs']]
    if k == 'mux':
        return [m['name'] for m in case['vars']]
    if k in ('dot', 'cross'):
        return [pr['c'] for pr in case['prods']]
    if k == 'matvec':
        return [pr['b'] for pr in case['prods']]
    if k == 'vecmag':
        return [m['mag'] for m in case['mags']]
    if k in ('eq', 'balance'):
        return [o['name'] for o in case['outs']]
    if k == 'linsys':
        return ['x']
    if k == 'spline':
        return [s['interp'] for s in case['splines']]


IMPLICIT = ('balance', 'linsys')


def mat(a):
    a = np.atleast_2d(np.asarray(a))
    return [rats(np.real(r).tolist()) for r in a]


def run_real(case):
    with warnings.catch_warnings():
        warnings.simplefilter('ignore')
        return _run_real(case)


def later_points(case):
    """The case at the later points of its sequence: same options, new inputs (and, for SplineComp,
    possibly a new run-time value of the `x_interp_val` option, which then stays in force)."""
    out = []
    cur = dict(case)
    cur.pop('seq', None)
    for pt in case.get('seq', []):
        cur = dict(cur)
        cur['x'] = pt['x']
        if 'state' in pt:
            cur['state'] = pt['state']
        if 'x_interp' in pt:
            cur['x_interp'] = pt['x_interp']
        out.append(cur)
    return out


def _run_real(case):
    """Build ONE Problem, evaluate it at `case['x']` and then, on the same Problem (nothing set up
    again), at every further point of `case['seq']`; everything is measured after every evaluation."""
    import openmdao.api as om
    k = case['comp']
    try:
        comp = build(case)
        p = om.Problem()
        p.model.add_subsystem('c', comp)
        p.setup(force_alloc_complex=True)
        p.final_setup()
    except Exception as e:
        return {'error': type(e).__name__, 'stage': 'setup', 'msg': str(e)[:160]}
    ctx = {'p': p, 'comp': comp, 'totp': {}}
    res = {}
    try:
        un = {}
        for lst in (comp.list_inputs(units=True, out_stream=None, prom_name=True, val=False),
                    comp.list_outputs(units=True, out_stream=None, prom_name=True, val=False)):
            for _, m in lst:
                un[m['prom_name']] = m['units']
        res['units'] = un
    except Exception as e:
        return {'error': type(e).__name__, 'stage': 'run', 'msg': str(e)[:160]}
    res.update(measure(ctx, case))
    if case.get('seq') and 'error' not in res:
        res['steps'] = []
        for pt, sub in zip(case['seq'], later_points(case)):
            r = measure(ctx, sub, changed_option='x_interp' in pt)
            r['units'] = res['units']
            if k == 'spline' and 'error' not in r:
                # no closed formula for most spline methods: the reference for a re-evaluation is the
                # same point on a freshly built Problem
                fr = _run_real(sub)
                r['fresh'] = {key: fr.get(key) for key in ('out', 'J', 'error', 'msg')}
            res['steps'].append(r)
            if 'error' in r:
                break
    return res


def measure(ctx, case, changed_option=False):
    """One evaluation of the already set-up Problem at the inputs of `case`."""
    import openmdao.api as om
    p, comp = ctx['p'], ctx['comp']
    k = case['comp']
    res = {}
    try:
        if changed_option and k == 'spline':
            comp.options['x_interp_val'] = fl(case['x_interp'])
        shapes = input_shapes(case)
        for nm, vals in case['x'].items():
            if nm in shapes:
                p.set_val('c.' + nm, fl(vals).reshape(shapes[nm]))
        outs = out_names(case)
        if k in IMPLICIT:
            for nm in outs:
                st = case['x'][nm] if k == 'linsys' else case['state'][nm]
                cur = p.get_val('c.' + nm)
                p.set_val('c.' + nm, fl(st).reshape(cur.shape))
            p.model.run_apply_nonlinear()
            lo = dict(comp.list_outputs(residuals=True, out_stream=None, prom_name=True))
            by = {m['prom_name']: m for m in lo.values()}
            res['out'] = {nm: rats(np.asarray(by[nm]['resids']).ravel().tolist())
                          for nm in outs}
            res['state_after'] = {nm: rats(p.get_val('c.' + nm).ravel().tolist()) for nm in outs}
        else:
            p.run_model()
            res['out'] = {nm: rats(p.get_val('c.' + nm).ravel().tolist()) for nm in outs}
            res['shape'] = {nm: list(p.get_val('c.' + nm).shape) for nm in outs}
        cp = comp.check_partials(out_stream=None, method='cs')[0]
        cp = cp.get('c', {})
        res['J'] = {}
        res['Jcs'] = {}
        for (of, wrt), d in cp.items():
            res['J']['%s|%s' % (of, wrt)] = mat(d['J_fwd'])
            res['Jcs']['%s|%s' % (of, wrt)] = mat(d['J_fd'][0])
        if k not in IMPLICIT:
            wrt = sorted(shapes)
            tot = p.compute_totals(of=['c.' + o for o in outs], wrt=['c.' + w for w in wrt])
            res['tot'] = {'%s|%s' % (o[2:], w[2:]): mat(v) for (o, w), v in tot.items()}
            res['out_after'] = {nm: rats(p.get_val('c.' + nm).ravel().tolist()) for nm in outs}
        if k == 'linsys':
            # the solve itself, and the totals through solve_linear (one Problem per mode, kept for
            # the whole sequence so that anything cached between solves is exercised)
            p.run_model()
            res['solved'] = rats(p.get_val('c.x').ravel().tolist())
            p.model.run_apply_nonlinear()
            lo = dict(comp.list_outputs(residuals=True, out_stream=None, prom_name=True))
            res['solved_resid'] = rats(np.asarray(list(lo.values())[0]['resids']).ravel().tolist())
            for mode in ('fwd', 'rev'):
                p2 = ctx['totp'].get(mode)
                if p2 is None:
                    p2 = om.Problem()
                    p2.model.add_subsystem('c', build(case))
                    p2.setup(mode=mode)
                    ctx['totp'][mode] = p2
                for nm in ('A', 'b'):
                    p2.set_val('c.' + nm, fl(case['x'][nm]).reshape(shapes[nm]))
                p2.run_model()
                tot = p2.compute_totals(of=['c.x'], wrt=['c.A', 'c.b'])
                res['tot_' + mode] = {'%s|%s' % (o[2:], w[2:]): mat(v) for (o, w), v in tot.items()}
                res['solved_' + mode] = rats(p2.get_val('c.x').ravel().tolist())
    except Exception as e:
        res['error'] = type(e).__name__
        res['stage'] = 'run'
        res['msg'] = str(e)[:160]
    return res


# ------------------------------------------------------------------------------------------------
# generators

def vals(rng, n, pool=DY):
    return rats([rng.choice(pool) for _ in range(n)])


def gen_addsub(rng):
    neq = rng.choice([1, 1, 2, 3])
    pool_names = ['a', 'b', 'c', 'd', 'e']
    v, ln = rng.randint(1, 4), rng.randint(1, 4)
    units = rng.choice(UNITS)
    eqs = []
    for q in range(neq):
        share = rng.random() < 0.6
        ev, el, eu = (v, ln, units) if share else (rng.randint(1, 4), rng.randint(1, 4),
                                                   rng.choice(UNITS))
        k = rng.randint(2, 4)
        if share:
            ins = rng.sample(pool_names, k)
        else:
            ins = ['q%d_%d' % (q, i) for i in range(k)]
        if rng.random() < 0.12:
            ins[rng.randrange(k)] = ins[(rng.randrange(k) + 1) % k] if k > 1 else ins[0]
        sf = None if rng.random() < 0.25 else rats([rng.choice([1, -1, 2, Fraction(1, 2), -3, 0,
                                                                Fraction(5, 4), 4])
                                                    for _ in range(k)])
        eqs.append({'out': 'o%d' % q, 'ins': ins, 'vec_size': ev, 'length': el, 'sf': sf,
                    'units': eu})
    case = {'comp': 'addsub', 'eqs': eqs, 'ctor': rng.random() < 0.3,
            'complex': rng.random() < 0.3}
    if rng.random() < 0.06:       # malformed: conflicting size of a shared input
        if len(eqs) > 1:
            eqs[1]['ins'][0] = eqs[0]['ins'][0]
            eqs[1]['vec_size'] = eqs[0]['vec_size'] + 1
    return case


def gen_mux(rng):
    v = rng.randint(1, 4)
    nv = rng.choice([1, 1, 2])
    vs = []
    for q in range(nv):
        nd = rng.choice([0, 1, 1, 1, 2, 2, 3])
        shape = [rng.randint(1, 3 if nd > 1 else 4) for _ in range(nd)]
        axis = rng.randint(0, nd)
        if rng.random() < 0.05:
            axis = nd + 1          # malformed: axis too large
        vs.append({'name': 'm%d' % q, 'shape': shape, 'axis': axis, 'units': rng.choice(UNITS),
                   'via_val': nd > 0 and rng.random() < 0.12})
    return {'comp': 'mux', 'vec_size': v, 'vars': vs}


def _names3(rng, q, shared, base):
    return [rng.choice(shared) if (shared and rng.random() < 0.35) else '%s%d' % (b, q)
            for b in base]


def gen_dot(rng, cross=False):
    npr = rng.choice([1, 1, 2, 3])
    v, ln = rng.randint(1, 4), (3 if cross else rng.randint(1, 4))
    prods = []
    shared = []
    for q in range(npr):
        a, b = _names3(rng, q, shared, ['a', 'b'])
        if rng.random() < 0.08:
            b = a                                   # the same input on both sides
        pv, pl = v, ln
        if rng.random() < 0.3 and not ({a, b} & set(shared)):
            pv, pl = rng.randint(1, 4), (3 if cross else rng.randint(1, 4))
        un = {}
        for nm, key in ((a, 'a_units'), (b, 'b_units')):
            prev = [p_[kk] for p_ in prods for kk, nn in (('a_units', p_['a']), ('b_units', p_['b']))
                    if nn == nm]
            un[key] = prev[0] if prev else rng.choice(UNITS)
        if a == b:
            un['b_units'] = un['a_units']
        pr = {'c': 'c%d' % q if (q or rng.random() < 0.5) else 'c', 'a': a, 'b': b,
              'vec_size': pv, 'a_units': un['a_units'], 'b_units': un['b_units'],
              'c_units': rng.choice(UNITS)}
        if not cross:
            pr['length'] = pl
        prods.append(pr)
        if (pv, pl) == (v, ln):
            shared += [a, b]
    case = {'comp': 'cross' if cross else 'dot', 'prods': prods}
    if rng.random() < 0.05 and npr > 1:     # malformed: conflicting vec_size / units on a shared input
        prods[1]['a'] = prods[0]['a']
        if rng.random() < 0.5:
            prods[1]['vec_size'] = prods[0]['vec_size'] + 1
        else:
            prods[1]['a_units'] = 'mm' if prods[0]['a_units'] != 'mm' else 'km'
    return case


def gen_matvec(rng):
    npr = rng.choice([1, 1, 2])
    v = rng.randint(1, 4)
    shp = [rng.randint(1, 4), rng.randint(1, 4)]
    prods = []
    for q in range(npr):
        share_x = q > 0 and rng.random() < 0.3
        share_A = q > 0 and rng.random() < 0.3
        if share_x or share_A:
            pv, ps = prods[0]['vec_size'], list(prods[0]['A_shape'])
            if share_x and not share_A:
                ps = [rng.randint(1, 4), ps[1]]
        else:
            pv, ps = (v, shp) if q == 0 else (rng.randint(1, 4), [rng.randint(1, 4), rng.randint(1, 4)])
        pr = {'b': 'b%d' % q if (q or rng.random() < 0.5) else 'b',
              'A': prods[0]['A'] if share_A else 'A%d' % q,
              'x': prods[0]['x'] if share_x else 'x%d' % q,
              'vec_size': pv, 'A_shape': ps,
              'A_units': prods[0]['A_units'] if share_A else rng.choice(UNITS),
              'x_units': prods[0]['x_units'] if share_x else rng.choice(UNITS),
              'b_units': rng.choice(UNITS)}
        prods.append(pr)
    case = {'comp': 'matvec', 'prods': prods}
    if rng.random() < 0.05 and npr > 1:
        prods[1]['x'] = prods[0]['x']
        prods[1]['A_shape'] = [prods[1]['A_shape'][0], prods[0]['A_shape'][1] + 1]
    return case


def gen_vecmag(rng):
    nm = rng.choice([1, 1, 2])
    mags = []
    for q in range(nm):
        share = q > 0 and rng.random() < 0.3
        if share:
            m = dict(mags[0])
            m['mag'] = 'mag%d' % q
        else:
            m = {'mag': 'mag%d' % q if (q or rng.random() < 0.5) else 'a_mag', 'in': 'a%d' % q,
                 'vec_size': rng.randint(1, 4), 'length': rng.randint(1, 4),
                 'units': rng.choice(UNITS)}
        mags.append(m)
    return {'comp': 'vecmag', 'mags': mags}


def gen_eq(rng, balance=False):
    no = rng.choice([1, 1, 2, 3])
    outs = []
    for q in range(no):
        nd = rng.choice([1, 1, 1, 2])
        shape = [rng.randint(1, 4)] if nd == 1 else [rng.randint(1, 3), rng.randint(1, 3)]
        name = 'y%d' % q
        o = {'name': name, 'shape': shape, 'size': int(np.prod(shape)),
             'use_mult': rng.random() < 0.5, 'normalize': rng.random() < 0.65,
             'eq_units': rng.choice(UNITS), 'units': rng.choice(UNITS),
             'lhs': 'lhs:' + name if rng.random() < 0.6 else 'L%d' % q,
             'rhs': 'rhs:' + name if rng.random() < 0.6 else 'R%d' % q,
             'mult': 'mult:' + name if rng.random() < 0.6 else 'M%d' % q,
             'mult_val': rat(rng.choice(SMALL)) if rng.random() < 0.5 else None,
             'rhs_val': rat(rng.choice(SMALL)) if rng.random() < 0.5 else None,
             'shape_via': 'val' if rng.random() < 0.3 else 'shape'}
        if balance and rng.random() < 0.2:
            o['lhs_kw_units'] = rng.choice([u for u in UNITS if u])
        if balance and rng.random() < 0.2:
            o['rhs_kw_units'] = rng.choice([u for u in UNITS if u])
        outs.append(o)
    return {'comp': 'balance' if balance else 'eq', 'outs': outs, 'ctor': rng.random() < 0.35}


def gen_linsys(rng):
    return {'comp': 'linsys', 'size': rng.randint(1, 4), 'vec_size': rng.randint(1, 4),
            'vectorize_A': rng.random() < 0.5}


SPL_METHODS = ['slinear', 'slinear', 'akima', 'cubic', 'lagrange2', 'lagrange3', 'bsplines']


def gen_spline(rng):
    method = rng.choice(SPL_METHODS)
    ncp = rng.randint(4, 7)
    case = {'comp': 'spline', 'method': method, 'vec_size': rng.randint(1, 3), 'num_cp': None}
    if method == 'bsplines' or rng.random() < 0.3:
        case['num_cp'] = ncp = rng.choice([5, 5, 9])     # linspace(0,1,n) with dyadic nodes
        grid = [Fraction(i, ncp - 1) for i in range(ncp)]
    else:
        g = Fraction(rng.choice(DY))
        grid = [g]
        for _ in range(ncp - 1):
            g += rng.choice([Fraction(1, 4), Fraction(1, 2), 1, 2])
            grid.append(g)
    case['grid'] = rats(grid)
    lo, hi = grid[0], grid[-1]
    ni = rng.randint(1, 5)
    xi = sorted(set(lo + (hi - lo) * Fraction(rng.randint(0, 32), 32) for _ in range(ni)))
    if rng.random() < 0.3:
        xi = sorted(set(xi + [rng.choice(grid)]))
    if method == 'bsplines':
        # the B-spline parameter runs from the first to the last interpolation point
        xi = sorted(set(xi + [lo, hi]))
    case['x_interp'] = rats(xi)
    case['splines'] = [{'cp': 'ycp%d' % q, 'interp': 'y%d' % q, 'units': rng.choice(UNITS)}
                       for q in range(rng.choice([1, 1, 2]))]
    return case


def make_sequence(rng, k):
    """A well-formed option set of component `k` with 2-3 evaluation points: every input (matrices,
    coefficients, states) takes new values at every point; for SplineComp the run-time option
    `x_interp_val` (re-read by `compute` on every call) may change as well, keeping its length."""
    while True:
        case = GEN[k](rng)
        if not expect_error(case):
            break
    if k == 'mux':
        for m in case['vars']:
            m['via_val'] = False
    case = fill_inputs(rng, case)
    seq = []
    for _ in range(rng.choice([1, 2, 2])):
        nxt = fill_inputs(rng, dict(case))
        pt = {'x': nxt['x']}
        if 'state' in nxt:
            pt['state'] = nxt['state']
        if k == 'spline' and rng.random() < 0.5:
            grid = [unrat(g) for g in case['grid']]
            lo, hi = grid[0], grid[-1]
            n = len(case['x_interp'])
            for _try in range(50):
                inner = n - 2 if case['method'] == 'bsplines' else n
                xi = set(lo + (hi - lo) * Fraction(rng.randint(0, 32), 32) for _ in range(inner))
                if case['method'] == 'bsplines':
                    xi |= {lo, hi}
                if len(xi) == n:
                    pt['x_interp'] = rats(sorted(xi))
                    break
        seq.append(pt)
    case['seq'] = seq
    return case


GEN = {'addsub': gen_addsub, 'mux': gen_mux, 'dot': gen_dot,
       'cross': lambda r: gen_dot(r, cross=True), 'matvec': gen_matvec, 'vecmag': gen_vecmag,
       'eq': gen_eq, 'balance': lambda r: gen_eq(r, balance=True), 'linsys': gen_linsys,
       'spline': gen_spline}


def fill_inputs(rng, case):
    """Small dyadic values for every input (and state) of a well-formed case."""
    k = case['comp']
    try:
        shapes = input_shapes(case)
    except Exception:
        shapes = {}
    x = {}
    for nm, s in shapes.items():
        x[nm] = vals(rng, int(np.prod(s)))
    if k == 'vecmag':
        for m in case['mags']:
            n = m['length']
            rows = []
            for _ in range(m['vec_size']):
                cand = [t for t in PYTH if len(t) == n]
                if cand and rng.random() < 0.5:
                    t = list(rng.choice(cand))
                    rng.shuffle(t)
                    s = rng.choice([1, -1, Fraction(1, 2), 2, Fraction(1, 4)])
                    rows += [Fraction(a) * s * rng.choice([1, -1]) for a in t]
                else:
                    r = [rng.choice(DY) for _ in range(n)]
                    if all(a == 0 for a in r):
                        r[0] = Fraction(1)
                    rows += r
            x[m['in']] = rats(rows)
    if k in ('eq', 'balance'):
        edge = [Fraction(2), Fraction(-2), Fraction(0), Fraction(7, 4), Fraction(-7, 4), Fraction(4),
                Fraction(-4), Fraction(3), Fraction(-5, 2), Fraction(1), Fraction(-1, 2), Fraction(8)]
        for o in case['outs']:
            x[o['rhs']] = rats([rng.choice(edge) if rng.random() < 0.6 else rng.choice(DY)
                                for _ in range(o['size'])])
        if k == 'balance':
            case['state'] = {o['name']: vals(rng, o['size']) for o in case['outs']}
    if k == 'linsys':
        n, v = case['size'], case['vec_size']
        nA = v if (case['vectorize_A'] and v > 1) else 1
        A = []
        for _ in range(nA):
            # well conditioned: strictly diagonally dominant small-integer matrix
            M = [[Fraction(rng.randint(-2, 2)) for _ in range(n)] for _ in range(n)]
            for i in range(n):
                M[i][i] = (sum(abs(M[i][j]) for j in range(n) if j != i) + rng.randint(1, 3)) \
                    * rng.choice([1, -1])
            A += [e for row in M for e in row]
        x['A'] = rats(A)
        x['b'] = vals(rng, v * n)
        x['x'] = vals(rng, v * n)
    if k == 'spline' and case['method'] == 'akima':
        for s in case['splines']:
            x[s['cp']] = rats([Fraction(rng.randint(-64, 64), 8) for _ in x[s['cp']]])
    case['x'] = x
    return case


# ------------------------------------------------------------------------------------------------
# what the options ask for (independent of the implementation)

def dup_inputs(case):
    """{(of, wrt)} pairs where one input enters the same equation / product more than once."""
    k = case['comp']
    out = set()
    if k == 'addsub':
        for e in case['eqs']:
            for nm in set(e['ins']):
                if e['ins'].count(nm) > 1:
                    out.add('%s|%s' % (e['out'], nm))
    elif k in ('dot', 'cross'):
        for pr in case['prods']:
            if pr['a'] == pr['b']:
                out.add('%s|%s' % (pr['c'], pr['a']))
    return out


def needs_twin(case):
    """Inputs on which a recorded finding makes the oracle fail: a copy of the case is run for the
    correspondence alone, so that the model is shown to follow the code there too."""
    if expect_error(case):
        return False
    if dup_inputs(case):
        return True
    if case['comp'] == 'balance':
        return any(o['normalize'] and len(o['shape']) > 1 for o in case['outs']) and \
            not (case.get('ctor') and any(case['outs'][0].get(s + '_kw_units') for s in ('lhs', 'rhs')))
    return False


def expect_error(case):
    """True when the option set is inconsistent and must be rejected at configuration time."""
    k = case['comp']
    seen = {}

    def clash(name, sig):
        if name in seen and seen[name] != sig:
            return True
        seen[name] = sig
        return False
    if k == 'addsub':
        for e in case['eqs']:
            for nm in e['ins']:
                if clash(nm, (e['vec_size'], e['length'], e['units'])):
                    return True
    elif k == 'mux':
        return any(m['axis'] > len(m['shape']) for m in case['vars'])
    elif k in ('dot', 'cross'):
        for pr in case['prods']:
            ln = pr.get('length', 3)
            if clash(pr['a'], (pr['vec_size'], ln, pr['a_units'])) or \
                    clash(pr['b'], (pr['vec_size'], ln, pr['b_units'])):
                return True
    elif k == 'matvec':
        for pr in case['prods']:
            if clash(pr['A'], (pr['vec_size'], tuple(pr['A_shape']), pr['A_units'])) or \
                    clash(pr['x'], (pr['vec_size'], pr['A_shape'][1], pr['x_units'])):
                return True
    elif k == 'vecmag':
        for m in case['mags']:
            if clash(m['in'], (m['vec_size'], m['length'], m['units'])):
                return True
    return False


def expect_units(case):
    k = case['comp']
    u = {}
    if k == 'addsub':
        for e in case['eqs']:
            u[e['out']] = e['units']
            for nm in e['ins']:
                u[nm] = e['units']
    elif k == 'mux':
        for m in case['vars']:
            u[m['name']] = m['units']
            for i in range(case['vec_size']):
                u['%s_%d' % (m['name'], i)] = m['units']
    elif k in ('dot', 'cross'):
        for pr in case['prods']:
            u[pr['a']], u[pr['b']], u[pr['c']] = pr['a_units'], pr['b_units'], pr['c_units']
    elif k == 'matvec':
        for pr in case['prods']:
            u[pr['A']], u[pr['x']], u[pr['b']] = pr['A_units'], pr['x_units'], pr['b_units']
    elif k == 'vecmag':
        for m in case['mags']:
            u[m['in']] = u[m['mag']] = m['units']
    elif k in ('eq', 'balance'):
        for o in case['outs']:
            u[o['name']] = o['units']
            u[o['lhs']] = o.get('lhs_kw_units') or o['eq_units']
            u[o['rhs']] = o.get('rhs_kw_units') or o['eq_units']
            if o['use_mult']:
                u[o['mult']] = None
    elif k == 'spline':
        for s in case['splines']:
            u[s['cp']] = u[s['interp']] = s['units']
    return u


def fr_solve(A, B):
    """Exact Gauss-Jordan: A (n x n), B (n x m) lists of Fractions -> X or None."""
    n = len(A)
    M = [list(A[i]) + list(B[i]) for i in range(n)]
    for c in range(n):
        p = next((r for r in range(c, n) if M[r][c] != 0), None)
        if p is None:
            return None
        M[c], M[p] = M[p], M[c]
        pv = M[c][c]
        M[c] = [v / pv for v in M[c]]
        for r in range(n):
            if r != c and M[r][c] != 0:
                f = M[r][c]
                M[r] = [a - f * b for a, b in zip(M[r], M[c])]
    return [row[n:] for row in M]


def akima_kink(case, s):
    """Two neighbouring secant slopes coincide, or a segment is flat, for some vectorised point:
    the Akima weights |m[i+1] - m[i]| are then at a kink (one-sided derivatives differ)."""
    grid = [unrat(g) for g in case['grid']]
    n = len(grid)
    y = [unrat(t) for t in case['x'][s['cp']]]
    for k in range(case['vec_size']):
        row = y[k * n:(k + 1) * n]
        m = [(row[i + 1] - row[i]) / (grid[i + 1] - grid[i]) for i in range(n - 1)]
        if any(m[i] == m[i + 1] for i in range(n - 2)) or any(t == 0 for t in m):
            return True
    return False


def close(a, b, tol):
    a, b = float(a), float(b)
    if math.isnan(a) or math.isnan(b):
        return False
    return abs(a - b) <= tol * max(1.0, abs(a), abs(b))


def mat_diff(got, exp, tol):
    """got: list of lists of rat strings; exp: list of lists of Fractions."""
    if len(got) != len(exp) or any(len(g) != len(e) for g, e in zip(got, exp)):
        return 'shape %dx%d vs %dx%d' % (len(got), len(got[0]) if got else 0, len(exp),
                                         len(exp[0]) if exp else 0)
    for i, (g, e) in enumerate(zip(got, exp)):
        for j, (a, b) in enumerate(zip(g, e)):
            a = unrat(a)
            if (a != b) if tol == 0 else (not close(a, b, tol)):
                return '[%d,%d] got %s expected %s' % (i, j, float(a), float(b))
    return None


def is_exact(case):
    """The float computation is exact for the case's dyadic data (no division, no sqrt)."""
    k = case['comp']
    if k in ('addsub', 'mux', 'dot', 'cross', 'matvec', 'linsys'):
        return True
    if k in ('eq', 'balance'):
        return not any(o['normalize'] for o in case['outs'])
    return False


PROVED = {'addsub': 'proved', 'mux': 'proved', 'dot': 'proved', 'cross': 'proved',
          'matvec': 'proved', 'vecmag': 'proved(algebraic sqrt)', 'eq': 'proved',
          'balance': 'proved(residual; linearize for 1-D states, n-D defect recorded)', 'linsys': 'proved(residual+partials; solve differential)',
          'spline': 'differential-only(+pattern)'}


def detect_dup_modes():
    """How does the tree in /repo treat an input that enters one equation / product twice?
    'overwrite' (last declaration / assignment wins), 'sum' (contributions added) or 'reject'."""
    modes = {}
    probes = {
        'addsub': {'comp': 'addsub', 'ctor': False, 'complex': False,
                   'eqs': [{'out': 'o', 'ins': ['a', 'a'], 'vec_size': 1, 'length': 1,
                            'sf': ['2/1', '3/1'], 'units': None}], 'x': {'a': ['1/1']}},
        'dot': {'comp': 'dot', 'prods': [{'c': 'c', 'a': 'a', 'b': 'a', 'vec_size': 1, 'length': 1,
                                          'a_units': None, 'b_units': None, 'c_units': None}],
                'x': {'a': ['3/1']}},
        'cross': {'comp': 'cross', 'prods': [{'c': 'c', 'a': 'a', 'b': 'a', 'vec_size': 1,
                                              'a_units': None, 'b_units': None, 'c_units': None}],
                  'x': {'a': ['1/1', '2/1', '3/1']}},
    }
    want = {'addsub': ({'5/1': 'sum', '3/1': 'overwrite'}, 'o|a'),
            'dot': ({'6/1': 'sum', '3/1': 'overwrite'}, 'c|a'),
            'cross': ({'0/1': 'sum', '-3/1': 'overwrite'}, 'c|a')}
    bal = {'comp': 'balance', 'ctor': False,
           'outs': [{'name': 'y', 'shape': [1, 2], 'size': 2, 'use_mult': False, 'normalize': True,
                     'eq_units': None, 'units': None, 'lhs': 'lhs:y', 'rhs': 'rhs:y',
                     'mult': 'mult:y', 'mult_val': None, 'rhs_val': None, 'shape_via': 'shape'}],
           'x': {'lhs:y': ['1/1', '1/1'], 'rhs:y': ['1/1', '4/1']}, 'state': {'y': ['0/1', '0/1']}}
    r = run_real(bal)
    v = None if 'error' in r else r['J'].get('y|lhs:y', [[None] * 2] * 2)[1][1]
    modes['balance_nd'] = 'unknown'
    if v is not None:
        fv = float(unrat(v))
        modes['balance_nd'] = 'elementwise' if abs(fv - 0.25) < 1e-12 else (
            'slab' if abs(fv - 0.2) < 1e-12 else 'unknown')
    for k, case in probes.items():
        r = run_real(case)
        if 'error' in r:
            modes[k] = 'reject' if r.get('stage') == 'setup' else 'unknown'
            continue
        table, key = want[k]
        J = r['J'].get(key)
        v = J[0][0] if k != 'cross' else J[0][1]
        modes[k] = table.get(v, 'unknown')
    return modes


class C26(Property):
    pid = 'C26'
    required_theorems = [
        'C26_coo_mulVec_dense',
        'C26_addsub_partials', 'C26_addsub_formula', 'C26_addsub_dup_counterexample',
        'C26_mux_formula', 'C26_mux_onto', 'C26_mux_partials',
        'C26_dot_partials', 'C26_dot_dup_counterexample',
        'C26_cross_formula', 'C26_cross_partials', 'C26_cross_dup_counterexample',
        'C26_matvec_partials',
        'C26_vecmag_partials', 'C26_vecmag_formula',
        'C26_dual_div_spec', 'C26_eq_partials', 'C26_eq_formula', 'C26_eq_norm_C1',
        'C26_balance_partials_partial', 'C26_balance_2d_counterexample',
        'C26_linsys_partials', 'C26_linsys_formula',
        'C26_spline_pattern',
    ]
    tolerance = TOL
    rule = ("cases: one stock component per case with a random option set (1-3 equations / products / "
            "balances, vec_size 1-4, length / shape entries 1-4, axis, scaling factors, normalize / "
            "use_mult flags, custom variable names, units labels, shared and repeated inputs) and dyadic "
            "inputs; a small malformed stream (conflicting sizes / units, axis too large) for the error "
            "branches.  Non-trivial: the option set is consistent and the real component ran; distinct by "
            "canonical case encoding.")
    assumptions = [
        "inputs are small dyadic rationals; AddSubtract, Mux, DotProduct, CrossProduct, MatrixVectorProduct, "
        "LinearSystem (residual, partials) and un-normalised EQConstraint / Balance are compared exactly, "
        "the others (division, sqrt, LU solve, splines) with relative tolerance 1e-12 (model, oracle) "
        "and 1e-9 (complex-step cross-check, LU solve, spline identities)",
        "VectorMagnitudeComp is only evaluated away from the zero vector (its derivative does not exist "
        "there); EQConstraint / Balance normalisation is C1 at |rhs| = 2 (proved), so the branch taken on "
        "the boundary does not matter",
    ]
    level_text = ("Formula and declared rows/cols/value pattern of AddSubtract, Mux, DotProduct, CrossProduct, "
                  "MatrixVectorProduct, VectorMagnitude, EQConstraint, Balance and LinearSystem are modelled in "
                  "Lean (polymorphic in the carrier) and the pattern is proved to be the exact Jacobian of the "
                  "formula by evaluating the same definitions on dual numbers, for every vec_size / length / "
                  "shape / axis / scaling factor / flag; the model is tied to the real components by "
                  "differential runs (outputs, residuals, dense sub-Jacobians, totals).")
    level_note = ("Trusted: Lean kernel + standard axioms; the harness; NumPy reshape/stack as index "
                  "reference. Modelled, not verified: float rounding; sqrt only through m*m = sum a^2; the LU "
                  "solve of LinearSystemComp and all of SplineComp's interpolation are differential only. "
                  "Units options are labels inside a component (checked: labels as requested, values "
                  "unchanged); conversion on connections is C04/C06.")
    technique = "Lean 4 proof with dual numbers over commutative rings / ordered fields + differential correspondence"
    trusted_extra = ["np.stack / reshape / einsum index conventions (row-major flat index), used as reference "
                     "by the oracle and cross-checked against the model's index formulas on every case",
                     "complex-step check_partials of the real component (cross-check only)"]
    workers = 1
    _modes = None

    # -- tie: how repeated inputs are treated by the tree -------------------------------------------
    def modes(self):
        if C26._modes is None:
            C26._modes = detect_dup_modes()
        return C26._modes

    def translate(self):
        m = self.modes()
        return ["repeated input in one equation/product: %s in /repo %s -> model run with accumulate=%s" %
                (k, m[k], m[k] == 'sum') for k in ('addsub', 'dot', 'cross')] + \
               ["BalanceComp.linearize index sets for states with more than one axis: %s -> model run "
                "with slab=%s" % (m['balance_nd'],
                                  'prod(shape[1:])' if m['balance_nd'] == 'slab' else '1')]

    def setup(self, tier):
        import openmdao.api  # noqa: F401  (import before any warnings filter is installed)
        self.modes()

    # -- cases ---------------------------------------------------------------------------------------
    def cases(self, rng, tier):
        per = 50 if tier == 'quick' else 1200
        nseq = 4 if tier == 'quick' else 80
        kinds = list(GEN)
        # multi-evaluation sequences first: one set-up Problem evaluated at 2-3 input points
        for k in kinds:
            for _ in range(nseq):
                yield make_sequence(rng, k)
        for k in kinds:
            for _ in range(per):
                case = fill_inputs(rng, GEN[k](rng))
                yield case
                if needs_twin(case):
                    # the same inputs once more, for the model-vs-implementation comparison only
                    # (the runner does not compare cases on which the oracle reports a finding)
                    yield dict(case, model_only=True)

    def run_impl(self, case):
        return run_real(case)

    # -- direct oracle ---------------------------------------------------------------------------------
    def exact(self, case):
        xs = {nm: [unrat(v) for v in vs] for nm, vs in case['x'].items()}
        if case['comp'] == 'balance':
            pass
        return jac_exact(FORMULA[case['comp']](case), xs)

    def oracle(self, case, impl):
        if case.get('model_only'):
            return None
        f = self.oracle_point(case, impl)
        if f is not None or 'error' in impl:
            return f
        steps = impl.get('steps', [])
        seq = case.get('seq', [])
        for i, sub in enumerate(later_points(case)):
            if i >= len(steps):
                return {'what': 'unexpected_error', 'step': i + 1, 'error': 'missing step result'}
            f = self.oracle_point(sub, steps[i])
            if f is None and 'fresh' in steps[i]:
                f = self.oracle_fresh(steps[i])
            if f is not None:
                f['step'] = i + 1
                f['detail'] = 'evaluation %d on the same Problem: %s' % (i + 2, f.get('detail', f.get('msg')))
                return f
        return None

    def oracle_fresh(self, step):
        """A re-evaluation must give what a freshly set-up Problem gives at the same point."""
        fr = step['fresh']
        if fr.get('error'):
            return {'what': 'unexpected_error', 'error': fr['error'], 'stage': 'fresh', 'msg': fr.get('msg')}
        for o, v in fr['out'].items():
            d = mat_diff([step['out'][o]], [[unrat(t) for t in v]], TOL)
            if d:
                return {'what': 'values', 'var': o, 'detail': 're-used vs fresh Problem: ' + d}
        for key, m in fr['J'].items():
            d = mat_diff(step['J'][key], [[unrat(t) for t in r] for r in m], TOL)
            if d:
                return {'what': 'partials', 'pairs': [key], 'detail': 're-used vs fresh Problem: ' + d}
        return None

    def oracle_point(self, case, impl):
        k = case['comp']
        bad = expect_error(case)
        if 'error' in impl:
            if bad and impl.get('stage') == 'setup':
                return None
            return {'what': 'unexpected_error', 'error': impl['error'], 'stage': impl.get('stage'),
                    'msg': impl.get('msg')}
        if bad:
            return {'what': 'missing_error', 'detail': 'inconsistent option set was accepted'}
        eu = expect_units(case)
        wrong = sorted(n for n, u in eu.items() if impl['units'].get(n, '?') != u)
        if wrong:
            return {'what': 'units_label', 'vars': wrong,
                    'got': {n: impl['units'].get(n, '?') for n in wrong},
                    'expected': {n: eu[n] for n in wrong}}
        if k == 'spline':
            return self.oracle_spline(case, impl)
        if k == 'vecmag':
            return self.oracle_vecmag(case, impl)
        tol = 0 if is_exact(case) else TOL
        val, J = self.exact(case)
        for o, ev in val.items():
            d = mat_diff([impl['out'][o]], [ev], tol)
            if d:
                return {'what': 'values', 'var': o, 'detail': d}
        if k in IMPLICIT:
            for o in val:
                st = case['x'][o] if k == 'linsys' else case['state'][o]
                if [unrat(a) for a in impl['state_after'][o]] != [unrat(a) for a in st]:
                    return {'what': 'values', 'var': o, 'detail': 'apply_nonlinear changed the state'}
        badp = []
        for o in J:
            for w in J[o]:
                if k in IMPLICIT and w in val:
                    pass
                key = '%s|%s' % (o, w)
                ex = J[o][w]
                if key not in impl['J']:
                    if any(e != 0 for row in ex for e in row):
                        badp.append((key, 'dependency not declared'))
                    continue
                d = mat_diff(impl['J'][key], ex, tol)
                if d:
                    badp.append((key, d))
        if badp:
            return {'what': 'partials', 'pairs': [p for p, _ in badp], 'detail': badp[0][1]}
        for key, m in impl['J'].items():
            d = mat_diff(impl['Jcs'][key], [[unrat(a) for a in r] for r in m], 1e-9)
            if d:
                return {'what': 'cs_mismatch', 'pairs': [key], 'detail': d}
        if k not in IMPLICIT:
            for o in J:
                for w in J[o]:
                    key = '%s|%s' % (o, w)
                    d = mat_diff(impl['tot'][key], J[o][w], max(tol, TOL))
                    if d:
                        return {'what': 'totals', 'pairs': [key], 'detail': d}
                if impl['out_after'][o] != impl['out'][o]:
                    return {'what': 'values', 'var': o, 'detail': 'outputs changed by compute_totals'}
        if k == 'linsys':
            return self.oracle_linsolve(case, impl)
        return None

    def oracle_vecmag(self, case, impl):
        for m in case['mags']:
            v, n = m['vec_size'], m['length']
            a = [unrat(t) for t in case['x'][m['in']]]
            out = [unrat(t) for t in impl['out'][m['mag']]]
            Jm = impl['J'].get('%s|%s' % (m['mag'], m['in']))
            if Jm is None:
                return {'what': 'partials', 'pairs': ['%s|%s' % (m['mag'], m['in'])],
                        'detail': 'dependency not declared'}
            for r in range(v):
                row = a[r * n:(r + 1) * n]
                s2 = sum(t * t for t in row)
                rt = Fraction(math.isqrt(s2.numerator * s2.denominator), s2.denominator)
                perfect = rt * rt == s2
                if out[r] < 0 or (out[r] != rt if perfect else not close(out[r] * out[r], s2, 4e-16 * 4)):
                    return {'what': 'values', 'var': m['mag'],
                            'detail': 'row %d: got %s, m*m should be %s' % (r, float(out[r]), float(s2))}
                exp = [[Fraction(0)] * (v * n)]
                mag = rt if perfect else Fraction(math.sqrt(float(s2)))
                for i in range(n):
                    exp[0][r * n + i] = row[i] / mag
                d = mat_diff([Jm[r]], exp, TOL)
                if d:
                    return {'what': 'partials', 'pairs': ['%s|%s' % (m['mag'], m['in'])], 'detail': d}
            key = '%s|%s' % (m['mag'], m['in'])
            d = mat_diff(impl['Jcs'][key], [[unrat(t) for t in r] for r in Jm], 1e-9)
            if d:
                return {'what': 'cs_mismatch', 'pairs': [key], 'detail': d}
            d = mat_diff(impl['tot'][key], [[unrat(t) for t in r] for r in Jm], TOL)
            if d:
                return {'what': 'totals', 'pairs': [key], 'detail': d}
        return None

    def oracle_linsolve(self, case, impl):
        n, v = case['size'], case['vec_size']
        vecA = case['vectorize_A'] and v > 1
        A = [unrat(t) for t in case['x']['A']]
        b = [unrat(t) for t in case['x']['b']]
        sol = []
        invs = []
        for kk in range(v):
            off = kk * n * n if vecA else 0
            Ak = [A[off + i * n:off + (i + 1) * n] for i in range(n)]
            X = fr_solve(Ak, [[b[kk * n + i]] + [Fraction(int(i == j)) for j in range(n)]
                              for i in range(n)])
            sol.append([row[0] for row in X])
            invs.append([row[1:] for row in X])
        flat = [t for s in sol for t in s]
        d = mat_diff([impl['solved']], [flat], 1e-9)
        if d:
            return {'what': 'solve', 'detail': 'solve_nonlinear: ' + d}
        d = mat_diff([impl['solved_resid']], [[Fraction(0)] * (n * v)], 1e-9)
        if d:
            return {'what': 'solve', 'detail': 'residual after solve: ' + d}
        for mode in ('fwd', 'rev'):
            if 'solved_' + mode in impl:
                d = mat_diff([impl['solved_' + mode]], [flat], 1e-9)
                if d:
                    return {'what': 'solve', 'detail': 'solve_nonlinear (%s problem): %s' % (mode, d)}
        na = v * n * n if vecA else n * n
        dxdb = [[Fraction(0)] * (n * v) for _ in range(n * v)]
        dxdA = [[Fraction(0)] * na for _ in range(n * v)]
        for kk in range(v):
            off = kk * n * n if vecA else 0
            for i in range(n):
                for r in range(n):
                    dxdb[kk * n + i][kk * n + r] = invs[kk][i][r]
                    for c in range(n):
                        dxdA[kk * n + i][off + r * n + c] += -invs[kk][i][r] * sol[kk][c]
        for mode in ('fwd', 'rev'):
            t = impl['tot_' + mode]
            d = mat_diff(t['x|b'], dxdb, 1e-9) or mat_diff(t['x|A'], dxdA, 1e-9)
            if d:
                return {'what': 'solve', 'detail': 'totals (%s) through solve_linear: %s' % (mode, d)}
        return None

    def oracle_spline(self, case, impl):
        v = case['vec_size']
        grid = [float(unrat(g)) for g in case['grid']]
        xi = [float(unrat(g)) for g in case['x_interp']]
        ncp, ni = len(grid), len(xi)
        method = case['method']
        for s in case['splines']:
            key = '%s|%s' % (s['interp'], s['cp'])
            if key not in impl['J']:
                return {'what': 'partials', 'pairs': [key], 'detail': 'dependency not declared'}
            J = np.array([[float(unrat(t)) for t in r] for r in impl['J'][key]])
            Jcs = np.array([[float(unrat(t)) for t in r] for r in impl['Jcs'][key]])
            y = np.array([float(unrat(t)) for t in impl['out'][s['interp']]])
            ycp = np.array([float(unrat(t)) for t in case['x'][s['cp']]])
            if J.shape != (v * ni, v * ncp):
                return {'what': 'partials', 'pairs': [key], 'detail': 'shape %s' % (J.shape,)}
            scale = max(1.0, np.abs(ycp).max())
            if method == 'akima' and akima_kink(case, s):
                pass          # |m[i+1] - m[i]| = 0: the Akima weights are not differentiable there
            elif not np.allclose(J, Jcs, rtol=0, atol=1e-8 * max(1.0, np.abs(Jcs).max())):
                return {'what': 'cs_mismatch', 'pairs': [key],
                        'detail': 'max |J_fwd - J_cs| = %g' % np.abs(J - Jcs).max()}
            for a in range(v):
                for c in range(v):
                    if a != c and np.abs(J[a * ni:(a + 1) * ni, c * ncp:(c + 1) * ncp]).max() != 0:
                        return {'what': 'partials', 'pairs': [key],
                                'detail': 'coupling between vectorised points %d and %d' % (a, c)}
            if method == 'slinear':
                val, Jx = jac_exact(f_spline_slinear(case),
                                    {nm: [unrat(t) for t in vs] for nm, vs in case['x'].items()})
                d = mat_diff([impl['out'][s['interp']]], [val[s['interp']]], 1e-9) or \
                    mat_diff(impl['J'][key], Jx[s['interp']][s['cp']], 1e-9)
                if d:
                    return {'what': 'values' if 'out' in d else 'partials', 'pairs': [key], 'detail': d}
            if method != 'akima':
                # linear in the control points: y = J ycp, rows sum to one
                if not np.allclose(J @ ycp, y, rtol=0, atol=1e-9 * scale):
                    return {'what': 'values', 'var': s['interp'], 'detail': 'y != J ycp'}
                if not np.allclose(J.sum(axis=1), 1.0, rtol=0, atol=1e-9):
                    return {'what': 'partials', 'pairs': [key], 'detail': 'rows do not sum to one'}
            if method != 'bsplines':
                # interpolation: the value at a control point abscissa is the control value
                for a in range(v):
                    for i, t in enumerate(xi):
                        for j, g in enumerate(grid):
                            if t == g and abs(y[a * ni + i] - ycp[a * ncp + j]) > 1e-9 * scale:
                                return {'what': 'values', 'var': s['interp'],
                                        'detail': 'not interpolating at node %d' % j}
            if method == 'akima' and akima_kink(case, s):
                continue      # one-sided derivatives differ; which side is reported is not specified
            d = mat_diff(impl['tot'][key], [[unrat(t) for t in r] for r in impl['J'][key]], TOL)
            if d:
                return {'what': 'totals', 'pairs': [key], 'detail': d}
        return None

    def signature(self, case, impl, failure):
        k = case['comp']
        sig = {'comp': k, 'what': failure.get('what'), 'step': failure.get('step', 0)}
        if k == 'spline':
            st = failure.get('step', 0)
            sig['x_interp_changed'] = any('x_interp' in pt for pt in case.get('seq', [])[:st])
        if failure.get('what') == 'unexpected_error':
            sig['error'] = failure.get('error')
            sig['stage'] = failure.get('stage')
        if k in ('addsub', 'dot', 'cross'):
            dups = dup_inputs(case)
            pairs = failure.get('pairs') or []
            sig['dup_input'] = bool(pairs) and all(p in dups for p in pairs)
        if k == 'mux':
            sig['via_val_array'] = any(m.get('via_val') and m['shape'] for m in case['vars'])
        if k == 'balance':
            pairs = failure.get('pairs') or []
            nd = {o['name'] for o in case['outs'] if o['normalize'] and len(o['shape']) > 1}
            sig['normalized_nd_state'] = bool(pairs) and all(p.split('|')[0] in nd for p in pairs)
            sig['ctor_kwargs'] = bool(case.get('ctor')) and any(
                case['outs'][0].get(s + '_kw_units') for s in ('lhs', 'rhs'))
        if k == 'spline':
            sig['method'] = case['method']
            sig['n_interp_eq_vec_size'] = len(case['x_interp']) == case['vec_size']
        return sig

    def nontrivial(self, case, impl):
        return not case.get('model_only') and not expect_error(case) and 'error' not in impl

    def bucket(self, case, impl):
        k = case['comp']
        if case.get('model_only'):
            return ['twin(model comparison only):' + k]
        b = ['comp=' + k, k + ':' + PROVED[k]]
        if case.get('seq'):
            b.append('sequence:%s:evaluations=%d' % (k, 1 + len(case['seq'])))
            if any('x_interp' in pt for pt in case['seq']):
                b.append('sequence:spline:x_interp_val changed at run time')
        b.append('impl_error' if 'error' in impl else 'impl_ok')
        if expect_error(case):
            b.append(k + ':malformed')
        b.append('cmp=exact' if is_exact(case) else 'cmp=tol')
        eu = expect_units(case)
        b.append('units=labelled' if any(u for u in eu.values()) else 'units=none')
        if dup_inputs(case):
            b.append(k + ':repeated_input')
        if k == 'addsub':
            b.append('addsub:neq=%d' % len(case['eqs']))
            b += ['addsub:vec=%d' % case['eqs'][0]['vec_size'], 'addsub:len=%d' % case['eqs'][0]['length'],
                  'addsub:ninputs=%d' % len(case['eqs'][0]['ins'])]
            b.append('addsub:sf=' + ('default' if case['eqs'][0]['sf'] is None else 'given'))
        elif k == 'mux':
            b.append('mux:vec=%d' % case['vec_size'])
            b += ['mux:ndim=%d,axis=%d' % (len(m['shape']), m['axis']) for m in case['vars']]
        elif k in ('dot', 'cross'):
            b.append('%s:nprod=%d' % (k, len(case['prods'])))
            b.append('%s:vec=%d' % (k, case['prods'][0]['vec_size']))
            names = [n for pr in case['prods'] for n in (pr['a'], pr['b'])]
            if len(set(names)) < len(names):
                b.append(k + ':shared_input')
        elif k == 'matvec':
            b.append('matvec:nprod=%d' % len(case['prods']))
            pr = case['prods'][0]
            b += ['matvec:vec=%d' % pr['vec_size'], 'matvec:rows=%d' % pr['A_shape'][0],
                  'matvec:cols=%d' % pr['A_shape'][1]]
        elif k == 'vecmag':
            b += ['vecmag:vec=%d' % case['mags'][0]['vec_size'], 'vecmag:len=%d' % case['mags'][0]['length'],
                  'vecmag:nmag=%d' % len(case['mags'])]
        elif k in ('eq', 'balance'):
            for o in case['outs']:
                b.append('%s:normalize=%s,use_mult=%s' % (k, o['normalize'], o['use_mult']))
                b.append('%s:ndim=%d' % (k, len(o['shape'])))
                if o['normalize'] and o['rhs'] in case['x']:
                    for t in case['x'][o['rhs']]:
                        a = abs(unrat(t))
                        b.append('%s:|rhs|%s' % (k, '<2' if a < 2 else ('=2' if a == 2 else '>2')))
        elif k == 'linsys':
            b += ['linsys:size=%d' % case['size'], 'linsys:vec=%d' % case['vec_size'],
                  'linsys:vectorize_A=%s' % case['vectorize_A']]
        elif k == 'spline':
            if case['method'] == 'akima' and any(akima_kink(case, s) for s in case['splines']):
                b.append('spline:akima_kink(cs check skipped)')
            b.append('spline:method=%s' % case['method'])
            b.append('spline:vec=%d' % case['vec_size'])
        return b

    # -- model ---------------------------------------------------------------------------------------
    def plan(self, case, impl):
        out = self.plan_point(case, impl)
        if 'error' in impl:
            return out
        for sub, st in zip(later_points(case), impl.get('steps', [])):
            out += self.plan_point(sub, st)
        return out

    def plan_point(self, case, impl):
        """[(request, [(answer key, index or None, implementation matrix, label)])]"""
        k = case['comp']
        if 'error' in impl or expect_error(case):
            return []
        modes = self.modes()
        x = case['x']
        out = []

        def J(of, wrt):
            return impl['J'].get('%s|%s' % (of, wrt))
        if k == 'addsub':
            if modes['addsub'] not in ('sum', 'overwrite') and dup_inputs(case):
                return []
            for e in case['eqs']:
                names = []
                for nm in e['ins']:
                    if nm not in names:
                        names.append(nm)
                sf = ['1/1'] * len(e['ins']) if e['sf'] is None else e['sf']
                n = e['vec_size'] * e['length']
                req = {'op': 'addsub', 'n': n, 'm': len(names), 'acc': modes['addsub'] == 'sum',
                       'ids': [names.index(nm) for nm in e['ins']], 'sf': sf,
                       'x': [x[nm] for nm in names]}
                chk = [('out', None, [impl['out'][e['out']]], e['out'])]
                chk += [('J', i, J(e['out'], nm), '%s|%s' % (e['out'], nm)) for i, nm in enumerate(names)]
                out.append((req, chk))
        elif k == 'mux':
            v = case['vec_size']
            for m in case['vars']:
                post = int(np.prod(m['shape'][m['axis']:])) if m['shape'][m['axis']:] else 1
                insize = int(np.prod(m['shape'])) if m['shape'] else 1
                ins = ['%s_%d' % (m['name'], i) for i in range(v)]
                req = {'op': 'mux', 'v': v, 'post': post, 'insize': insize, 'x': [x[nm] for nm in ins]}
                chk = [('out', None, [impl['out'][m['name']]], m['name'])]
                chk += [('J', i, J(m['name'], nm), '%s|%s' % (m['name'], nm)) for i, nm in enumerate(ins)]
                out.append((req, chk))
        elif k in ('dot', 'cross'):
            if modes[k] not in ('sum', 'overwrite') and dup_inputs(case):
                return []
            for pr in case['prods']:
                names = [pr['a']] if pr['a'] == pr['b'] else [pr['a'], pr['b']]
                req = {'op': k, 'v': pr['vec_size'], 'm': len(names), 'aid': 0,
                       'bid': len(names) - 1, 'acc': modes[k] == 'sum', 'x': [x[nm] for nm in names]}
                if k == 'dot':
                    req['len'] = pr['length']
                chk = [('out', None, [impl['out'][pr['c']]], pr['c'])]
                chk += [('J', i, J(pr['c'], nm), '%s|%s' % (pr['c'], nm)) for i, nm in enumerate(names)]
                out.append((req, chk))
        elif k == 'matvec':
            for pr in case['prods']:
                req = {'op': 'matvec', 'v': pr['vec_size'], 'nr': pr['A_shape'][0],
                       'nc': pr['A_shape'][1], 'A': x[pr['A']], 'x': x[pr['x']]}
                out.append((req, [('out', None, [impl['out'][pr['b']]], pr['b']),
                                  ('JA', None, J(pr['b'], pr['A']), '%s|%s' % (pr['b'], pr['A'])),
                                  ('JX', None, J(pr['b'], pr['x']), '%s|%s' % (pr['b'], pr['x']))]))
        elif k == 'vecmag':
            for m in case['mags']:
                req = {'op': 'vecmag', 'v': m['vec_size'], 'len': m['length'], 'a': x[m['in']]}
                out.append((req, [('out', None, [impl['out'][m['mag']]], m['mag']),
                                  ('J', None, J(m['mag'], m['in']), '%s|%s' % (m['mag'], m['in']))]))
        elif k in ('eq', 'balance'):
            for o in case['outs']:
                slab = 1
                if k == 'balance' and len(o['shape']) > 1:
                    if modes['balance_nd'] == 'slab':
                        slab = int(np.prod(o['shape'][1:]))
                    elif modes['balance_nd'] != 'elementwise':
                        continue
                req = {'op': 'eq', 'slab': slab, 'normalize': o['normalize'], 'use_mult': o['use_mult'],
                       'mult': x[o['mult']] if o['use_mult'] else ['0/1'] * o['size'],
                       'lhs': x[o['lhs']], 'rhs': x[o['rhs']]}
                chk = [('out', None, [impl['out'][o['name']]], o['name']),
                       ('Jlhs', None, J(o['name'], o['lhs']), '%s|%s' % (o['name'], o['lhs'])),
                       ('Jrhs', None, J(o['name'], o['rhs']), '%s|%s' % (o['name'], o['rhs']))]
                if o['use_mult']:
                    chk.append(('Jmult', None, J(o['name'], o['mult']), '%s|%s' % (o['name'], o['mult'])))
                out.append((req, chk))
        elif k == 'linsys':
            vecA = case['vectorize_A'] and case['vec_size'] > 1
            req = {'op': 'linsys', 'size': case['size'], 'v': case['vec_size'], 'vecA': vecA,
                   'A': x['A'], 'b': x['b'], 'x': x['x']}
            out.append((req, [('out', None, [impl['out']['x']], 'x'),
                              ('JA', None, J('x', 'A'), 'x|A'), ('JX', None, J('x', 'x'), 'x|x'),
                              ('JB', None, J('x', 'b'), 'x|b')]))
        elif k == 'spline':
            v, ni, ncp = case['vec_size'], len(case['x_interp']), len(case['grid'])
            for s in case['splines']:
                Jm = J(s['interp'], s['cp'])
                if Jm is None or len(Jm) != v * ni or any(len(r) != v * ncp for r in Jm):
                    continue
                val = [Jm[e // ncp][(e // ncp // ni) * ncp + e % ncp] for e in range(v * ni * ncp)]
                req = {'op': 'spline', 'v': v, 'ni': ni, 'ncp': ncp, 'val': val}
                out.append((req, [('J', None, Jm, '%s|%s' % (s['interp'], s['cp']))]))
        return out

    def model_requests(self, case, impl):
        return [r for r, _ in self.plan(case, impl)]

    def compare(self, case, impl, answers):
        tol = 0 if is_exact(case) else TOL
        if case['comp'] == 'spline':
            tol = 0
        for (req, chk), ans in zip(self.plan(case, impl), answers):
            for key, idx, got, label in chk:
                m = ans.get(key)
                if m is None:
                    return 'model answer lacks %s' % key
                if key == 'out':
                    m = [m]
                elif idx is not None:
                    m = m[idx]
                if got is None:
                    if any(unrat(t) != 0 for r in m for t in r):
                        return '%s: declared by the model, not by the implementation' % label
                    continue
                if any(t == 'nan' for r in m for t in r):
                    return '%s: model value is not finite' % label
                d = mat_diff(got, [[unrat(t) for t in r] for r in m], tol)
                if d:
                    return '%s (%s): implementation vs model %s' % (label, req['op'], d)
        return None


PROP = C26()
