"""C31 — evaluations are deterministic and derivative queries are read-only."""
import copy
import hashlib
import random
import warnings
from fractions import Fraction

import numpy as np

import genmodel as gm
from common import Property, rat, unrat, Infra

QUERIES = ['compute_totals', 'compute_totals_single', 'jacvec', 'jacvec', 'check_partials_fd',
           'check_partials_cs', 'check_totals', 'list_inputs', 'list_outputs', 'list_vars',
           'total_coloring', 'get_val', 'run_linearize']


def _digest(model):
    """Copies of the three nonlinear vectors (scaled form, as stored)."""
    return {kind: np.array(vec.asarray(), dtype=float, copy=True)
            for kind, vec in (('inputs', model._inputs), ('outputs', model._outputs),
                              ('residuals', model._residuals))}


def _same_state(a, b):
    """A query may leave a vector different by rounding only: matrix-free components are called in
    an unscaled context, and `(a0 + a1*x - a0)/a1` is not always bit-identical to `x` in doubles
    (seen: 1 ulp on an output with ref/ref0).  Anything beyond a few ulps is a change."""
    if a.shape != b.shape:
        return False
    scale = max(1.0, float(np.max(np.abs(b))) if b.size else 1.0)
    return bool(np.all(np.abs(a - b) <= 1e-13 * scale + 1e-12 * np.abs(b)))


class C31(Property):
    pid = 'C31'
    workers = 8
    required_theorems = ['C31_run_idempotent', 'C31_deterministic', 'C31_queries_frame',
                         'C31_runs_collapse']
    rule = ("cases: random models from harness/genmodel.py (explicit/matrix-free/cs/implicit "
            "components, units, src_indices, optional scaling and converging cycle) x random "
            "sequences (length 4-9) of API calls: run_model, compute_totals (all / single pair), "
            "compute_jacvec_product fwd/rev, check_partials fd/cs, check_totals, list_inputs/outputs/"
            "vars, total and partial coloring computation, get_val, run_linearize. The bytes of the "
            "root input, output and residual vectors are hashed before and after every query; every "
            "run_model after the first must reproduce the outputs bit for bit. Non-trivial: at least "
            "one query that perturbs the model internally (approximation, check, coloring) is in the "
            "sequence; distinct by (seed, sequence).")
    assumptions = ["repeated run_model compared bit for bit; the state before/after a query compared to a "
                   "few ulps (1e-13 x max|v| + 1e-12 x |v|): the unscale/scale round trip around a "
                   "matrix-free component is exact in the field model (C08_scale_bijection), not in "
                   "doubles",
                   "iterative nonlinear solvers restart from their converged state: outputs compared "
                   "at 1e-9 instead of bitwise for models with a cycle"]
    trusted_extra = []
    level_text = ("The API is modelled as a state machine in which run_model is the run-once sweep and "
                  "every query returns a result and the same state. Proved in Lean: run_model is "
                  "idempotent for data-flow ordered models (all components are solved after one pass, "
                  "a solved state is a fixed point), call sequences are deterministic, and any "
                  "interleaving of queries leaves the final state of the run_model calls unchanged. The "
                  "real framework is tied by random API call sequences with byte hashes of all vectors "
                  "around every query and bitwise comparison of repeated run_model outputs.")
    level_note = ("partial: the frame theorem is close to definitional for the model (queries are "
                  "functions of the state); the evidence that matters for the read-only claim is the "
                  "differential run on the real API (and C12_state_restored for approximations).")
    technique = "Lean 4 proof (fixed point of the sweep) + API call-sequence differential with byte hashes"

    def cases(self, rng, tier):
        n = 30 if tier == 'quick' else 800
        # family: derivative queries around the computation of a total coloring with its
        # randomisation options on (flags set for the coloring must not outlive it)
        for _ in range(8 if tier == 'quick' else 120):
            mid = [rng.choice(['compute_totals_single', 'check_totals', 'jacvec', 'get_val'])
                   for _ in range(rng.randint(0, 2))]
            yield {'gen_seed': rng.randrange(10 ** 9),
                   'opts': {'safe_indices': True, 'implicit': rng.random() < 0.3,
                            'scaling': rng.random() < 0.3, 'array_scaling': True, 'cycles': False},
                   'cfg': {'nonlinear': None, 'linear': rng.choice([None, 'direct']),
                           'mode': rng.choice(['fwd', 'rev'])},
                   'seq': ['run_model', 'compute_totals', 'total_coloring', 'compute_totals'] + mid +
                          ['compute_totals', 'run_model'],
                   'qseed': rng.randrange(10 ** 6), 'randomize': [True, rng.random() < 0.5]}
        # family: stock ExecComps with array variables appended to the model (partial coloring
        # computed by the component itself at the first linearization, on complex vectors)
        for _ in range(8 if tier == 'quick' else 150):
            seq = ['run_model', rng.choice(['compute_totals', 'check_totals', 'jacvec', 'run_linearize'])]
            for _ in range(rng.randint(1, 3)):
                seq.append(rng.choice(QUERIES))
            seq.append('run_model')
            yield {'gen_seed': rng.randrange(10 ** 9),
                   'opts': {'safe_indices': True, 'implicit': False, 'scaling': rng.random() < 0.3,
                            'array_scaling': True, 'cycles': False, 'units': rng.random() < 0.5},
                   'cfg': {'nonlinear': None, 'linear': rng.choice([None, 'direct']),
                           'mode': rng.choice(['fwd', 'rev'])},
                   'seq': seq, 'qseed': rng.randrange(10 ** 6), 'exec_tail': rng.randint(1, 2)}
        for _ in range(n):
            cyc = rng.random() < 0.25
            seq = ['run_model']
            for _ in range(rng.randint(3, 8)):
                seq.append('run_model' if rng.random() < 0.2 else rng.choice(QUERIES))
            seq.append('run_model')
            yield {'gen_seed': rng.randrange(10 ** 9),
                   'opts': {'safe_indices': True, 'implicit': rng.random() < 0.4,
                            'scaling': rng.random() < 0.3, 'array_scaling': True,
                            'cycles': 'converging' if cyc else False},
                   'cfg': {'nonlinear': rng.choice(['nlbgs', 'newton']) if cyc else None,
                           'linear': 'direct' if cyc else rng.choice([None, 'direct']),
                           'mode': rng.choice(['fwd', 'rev'])},
                   'seq': seq, 'qseed': rng.randrange(10 ** 6)}

    def _md(self, case):
        rng = random.Random(case['gen_seed'])
        md = gm.gen_md(rng, **case['opts'])
        voi = gm.gen_voi(rng, md, units=False, scaling=False)
        for v in voi['desvars'] + voi['responses']:
            v['indices'] = None
        return md, voi

    def run_impl(self, case):
        import openmdao.api as om
        from openmdao.utils import coloring as coloring_mod
        md, voi = self._md(case)
        rng = random.Random(case['qseed'])
        res = {'steps': []}
        try:
            with warnings.catch_warnings():
                warnings.simplefilter('ignore')
                v = copy.deepcopy(voi)
                p, info = gm.build_problem(md, cfg=case['cfg'])
                gm.add_voi(p, md, v)
                if case.get('exec_tail'):
                    # stock ExecComps with array variables (they compute their own partial coloring
                    # at the first linearization) reading outputs of the generated model
                    k = 0
                    for ci, c in enumerate(md['comps']):
                        if c['kind'] == 'ivc' or k >= case['exec_tail']:
                            continue
                        od = c['outs'][0]
                        shp = tuple(od['shape'])
                        xc = om.ExecComp('z = 0.5 * y * y + 3.0 * y + w',
                                         y={'shape': shp, 'units': od.get('units')},
                                         w={'val': np.full(shp, 0.25)}, z={'shape': shp})
                        p.model.add_subsystem('xc%d' % k, xc)
                        p.model.connect(gm.out_root_name(md, ci, od['name']), 'xc%d.y' % k)
                        p.model.add_constraint('xc%d.z' % k, upper=1e9)
                        v['responses'].append({'name': 'xc%d.z' % k})
                        k += 1
                p.driver = om.ScipyOptimizeDriver(optimizer='SLSQP', disp=False)
                p.driver.declare_coloring(show_summary=False, show_sparsity=False,
                                          randomize_seeds=case['randomize'][0] if 'randomize' in case
                                          else rng.random() < 0.4,
                                          randomize_subjacs=case['randomize'][1] if 'randomize' in case
                                          else rng.random() < 0.7)
                p.setup(mode=case['cfg']['mode'], force_alloc_complex=True)
                gm.set_auto_ivc_values(p, md)
                model = p.model
                ofs = [r['name'] for r in v['responses']]
                wrts = [d['name'] for d in v['desvars']]
                first_out = None
                for call in case['seq']:
                    st = {'call': call}
                    before = _digest(model) if call != 'run_model' and first_out is not None else None
                    try:
                        if call == 'run_model':
                            p.run_model()
                            out = np.ascontiguousarray(model._outputs.asarray()).copy()
                            if first_out is None:
                                first_out = out
                            else:
                                st['same_bits'] = bool(out.tobytes() == first_out.tobytes())
                                st['max_diff'] = float(np.max(np.abs(out - first_out))) if out.size else 0.0
                                st['scale'] = float(np.max(np.abs(first_out))) if out.size else 1.0
                        elif call == 'compute_totals':
                            J = np.atleast_2d(p.compute_totals(return_format='array'))
                            if first_out is not None:
                                # derivative queries are deterministic: the same state gives the
                                # same totals, whatever was asked in between
                                if 'J0' not in res:
                                    res['J0'] = J.tolist()
                                else:
                                    J0 = np.atleast_2d(np.array(res['J0'], dtype=float))
                                    sc = max(1.0, float(np.max(np.abs(J0))) if J0.size else 1.0)
                                    st['J_shape_ok'] = bool(J.shape == J0.shape)
                                    st['J_diff'] = float(np.max(np.abs(J - J0))) / sc \
                                        if J.shape == J0.shape and J.size else 0.0
                        elif call == 'compute_totals_single':
                            p.compute_totals(of=[rng.choice(ofs)], wrt=[rng.choice(wrts)])
                        elif call == 'jacvec':
                            jmode = case['cfg']['mode']
                            if jmode == 'fwd':
                                seed = {w: np.ones(np.size(p.get_val(w))) for w in wrts}
                            else:
                                seed = {o: np.ones(np.size(p.get_val(o))) for o in ofs}
                            model.run_linearize()
                            p.compute_jacvec_product(of=ofs, wrt=wrts, mode=jmode, seed=seed)
                        elif call == 'check_partials_fd':
                            p.check_partials(out_stream=None, method='fd')
                        elif call == 'check_partials_cs':
                            p.check_partials(out_stream=None, method='cs')
                        elif call == 'check_totals':
                            p.check_totals(out_stream=None)
                        elif call == 'list_inputs':
                            model.list_inputs(out_stream=None, units=True, shape=True)
                        elif call == 'list_outputs':
                            model.list_outputs(out_stream=None, residuals=True, units=True, bounds=True)
                        elif call == 'list_vars':
                            model.list_vars(out_stream=None)
                        elif call == 'total_coloring':
                            coloring_mod.dynamic_total_coloring(p.driver, run_model=False)
                        elif call == 'partial_coloring':
                            for s in model.system_iter(recurse=True, typ=om.ExplicitComponent):
                                if s.pathname and not s.pathname.startswith('_auto') and \
                                        s._subjacs_info and not s.matrix_free:
                                    try:
                                        s.declare_coloring(wrt='*', method='cs', show_summary=False,
                                                           show_sparsity=False)
                                    except Exception:
                                        pass
                                    break
                            model.run_linearize()
                        elif call == 'get_val':
                            for o in ofs + wrts:
                                p.get_val(o)
                        elif call == 'run_linearize':
                            model.run_linearize()
                    except Exception as e:
                        st['error'] = type(e).__name__
                        st['msg'] = str(e)[:200]
                    if before is not None:
                        after = _digest(model)
                        st['changed'] = [k for k in before if not _same_state(after[k], before[k])]
                    res['steps'].append(st)
        except Exception as e:
            res['error'] = type(e).__name__
            res['msg'] = str(e)[:300]
        return res

    def oracle(self, case, impl):
        md, voi = self._md(case)
        if impl.get('error') == 'AnalysisError':
            return None
        if 'error' in impl:
            return {'what': 'setup raised %s' % impl['error'], 'msg': impl.get('msg')}
        for k, st in enumerate(impl['steps']):
            if st.get('error') == 'AnalysisError':
                return None
            if 'error' in st and st['call'] in ('total_coloring', 'partial_coloring', 'check_partials_cs'):
                continue        # configuration the framework rejects (e.g. nothing to color)
            if 'error' in st:
                return {'what': '%s raised %s' % (st['call'], st['error']), 'msg': st.get('msg'),
                        'step': k, 'call': st['call']}
            if st.get('changed'):
                # residuals are defined only after a run; a query may (re)compute them
                ch = [c for c in st['changed'] if c != 'residuals']
                if ch:
                    return {'what': 'query changed the model state', 'call': st['call'], 'step': k,
                            'changed': ch}
            if st['call'] == 'compute_totals' and 'J_diff' in st:
                jt = 1e-6 if (md.get('cyclic') or case['cfg']['nonlinear'] or
                              case['cfg'].get('linear') in ('krylov', 'lbgs')) else 1e-9
                if not st.get('J_shape_ok', True) or not st['J_diff'] <= jt:
                    return {'what': 'compute_totals from the same state gave different derivatives',
                            'step': k, 'rel_diff': st['J_diff'], 'call': 'compute_totals'}
            if st['call'] == 'run_model' and 'same_bits' in st and not st['same_bits']:
                if (md.get('cyclic') or case['cfg']['nonlinear']) and \
                        st['max_diff'] <= 1e-9 * max(1.0, st['scale']):
                    continue
                return {'what': 'run_model from the same state gave different outputs',
                        'step': k, 'max_diff': st['max_diff'], 'call': 'run_model'}
        return None

    def signature(self, case, impl, failure):
        return {'what': failure.get('what'), 'call': failure.get('call')}

    def nontrivial(self, case, impl):
        return any(c in ('check_partials_fd', 'check_partials_cs', 'check_totals', 'total_coloring',
                         'partial_coloring', 'compute_totals') for c in case['seq'])

    def bucket(self, case, impl):
        md, voi = self._md(case)
        b = ['impl_error' if 'error' in impl else 'impl_ok', 'cyclic' if md.get('cyclic') else 'acyclic']
        for st in impl.get('steps', []):
            b.append('call=' + st['call'] + (':error' if 'error' in st else ''))
        if case.get('exec_tail'):
            b.append('stock_execcomp_with_arrays_appended')
        return b

    # -- model -----------------------------------------------------------------------------------
    def model_requests(self, case, impl):
        md, voi = self._md(case)
        if 'error' in impl or md.get('cyclic') or any(c['kind'] == 'implicit' for c in md['comps']):
            return []
        spec = gm.flat_spec(md)
        return [{'op': 'calls', 'n': spec['n'], 'u0': spec['u0'],
                 'comps': [{'start': c['start'], 'len': c['len'], 'ins': c['ins'], 'polys': c['polys']}
                           for c in spec['comps']],
                 'calls': ['run' if c == 'run_model' else 'query' for c in case['seq']]}]

    def compare(self, case, impl, answers):
        if not answers:
            return None
        states = answers[0]['states']
        calls = case['seq']
        last = None
        for c, s, st in zip(calls, states, impl['steps']):
            if c == 'run_model':
                if last is not None and s != last:
                    raise Infra('Lean: repeated run_model changed the model state')
                last = s
            elif last is not None and s != last:
                raise Infra('Lean: a query changed the model state')
            # implementation side of the same statement
            if c != 'run_model' and [x for x in st.get('changed', []) if x != 'residuals']:
                return 'implementation: %s changed %s; the model keeps the state' % (c, st['changed'])
        return None


PROP = C31()
