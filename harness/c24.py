"""C24 — relevance pruning is unobservable in results."""
import copy
import json
import random
import warnings
from fractions import Fraction

import numpy as np

import genmodel as gm
import c24_approx as aq
import c24_prepost as pp
from common import Property, rat, unrat, Infra

RTOL = 1e-9


def install_approx_log():
    """Wrap Component._add_approximations so that every call is logged (what was declared, which
    methods had a scheme before, which wrt were relevant, which approximations exist afterwards).
    Returns (log, restore)."""
    from openmdao.core.component import Component
    orig_add = Component._add_approximations
    approx_log = {}

    def logged_add(comp, use_relevance=True):
        # one line of the operation log the Lean model (`approxStep`/`approxQuery`) is run on
        live = list(comp._approx_schemes)
        orig_add(comp, use_relevance)
        try:
            explicit = hasattr(comp, 'compute')
            decls = [[of, wrt, meta['method']] for (of, wrt), meta in comp._subjacs_info.items()
                     if meta.get('method') in ('fd', 'cs') and
                     (not explicit or comp._inputs._contains_abs(wrt))]
            rel = comp._relevance
            linslv = comp.linear_solver
            if use_relevance and (linslv is None or linslv.use_relevance()):
                with rel.all_seeds_active():
                    relevant = sorted({w for _, w, _ in decls if rel.is_relevant(w)})
            else:
                relevant = sorted({w for _, w, _ in decls})
            after = {m: sorted(sch._wrt_meta) for m, sch in comp._approx_schemes.items()}
            approx_log.setdefault(comp.pathname, []).append(
                {'decls': decls, 'live': live, 'relevant': relevant, 'after': after})
        except Exception as e:     # the log must never change the run
            approx_log.setdefault(comp.pathname, []).append({'log_error': repr(e)[:200]})
    Component._add_approximations = logged_add

    def restore():
        Component._add_approximations = orig_add
    return approx_log, restore


class C24(Property):
    pid = 'C24'
    workers = 8
    tolerance = RTOL
    required_theorems = ['C24_irrelevant_zero', 'C24_skip_unreachable', 'C24_response_unchanged',
                         'C24_approx_history_independent', 'C24_approx_complete', 'C24_approx_sound']
    rule = ("cases: random models from harness/genmodel.py (explicit, matrix-free and implicit "
            "components with several coupled outputs, nested groups, optional converging cycle) with "
            "1-2 design variables and 1-3 responses chosen among many outputs, so that parts of the "
            "model are irrelevant to each (design variable, response) pair; every model is run with "
            "relevance enabled and with openmdao.utils.relevance._no_relevance=True under the same "
            "solver configuration: responses, compute_totals (fwd/rev, per response and all at once) "
            "and, for a quarter of the cases, a 3-iteration SLSQP run with group_by_pre_opt_post are "
            "compared, then compute_totals for of/wrt other than the driver's (asked after the "
            "declared ones). Further families: restarted GMRES; assembled jacobians (csc/dense) at "
            "the root and in sub-groups; sub-groups using approx_totals "
            "(semi-totals) and components with cs partials; and `approx_seq` (harness/c24_approx.py): "
            "one explicit or implicit component whose partials are declared pair by pair as analytic, "
            "fd or cs, in a star model, with a history of 3-6 compute_totals calls of random of/wrt, "
            "each compared with the exact derivative with relevance on and off; `prepost` "
            "(harness/c24_prepost.py): SLSQP runs with group_by_pre_opt_post on small models with "
            "pre/post components and design variables of both kinds (IndepVarComp outputs, auto_ivc "
            "inputs) on separate branches, compared with relevance off and with the closed-form "
            "optimum. Every call of "
            "Component._add_approximations made during a relevance-enabled run is logged (declared "
            "approximated partials, methods holding a scheme before, relevant wrt, approximations "
            "set up) and the history replayed on the Lean model. Non-trivial: some output variable "
            "is reported irrelevant for some seed pair (approx_seq: some approximated wrt irrelevant "
            "in some call); distinct by (seed, configuration).")
    assumptions = ["results compared at 1e-9 relative (1e-6 with iterative solvers), widened to "
                   "1e-14 x cond(dR/du) for ill-conditioned generated systems",
                   "relevance is switched through the module flag read by Relevance.__init__",
                   "when ScipyKrylov reports non-convergence only with relevance enabled the values are "
                   "taken again with un-restarted GMRES and the error flag off and compared; both runs "
                   "failing to converge is a false premise (case skipped)"]
    trusted_extra = ["networkx graph traversal inside Relevance (results only compared)"]
    level_text = ("For feed-forward linear solves (forward substitution over the execution order) it is "
                  "proved in Lean, for every weight matrix, seed and keep-set, that variables not "
                  "reachable from the seeds have zero solution, that skipping them changes nothing, and "
                  "that keeping only (reachable from the seeds) ∩ (able to influence the response) "
                  "leaves the response's value unchanged. For the fd/cs approximations of a component "
                  "it is proved, for every list of declared partials, every history of earlier calls "
                  "and every starting state, that what a call approximates depends on the current "
                  "relevance only (C24_approx_history_independent), covers every relevant declared "
                  "partial (C24_approx_complete) and nothing irrelevant (C24_approx_sound); the pinned "
                  "snapshot's variant is in the model with a proved counterexample. "
                  "The real Relevance object is tied by comparing "
                  "its per-seed-pair relevant sets with the model's (they must contain them) and by "
                  "running every generated model with relevance on and off and comparing responses, "
                  "totals and optimizer iterates, plus the exact rational Jacobian.")
    level_note = ("full for DAG models at the level of the model; cyclic models, group-level (semi-total) "
                  "approximations and the framework's own graph construction are covered only "
                  "differentially.")
    technique = "Lean 4 proof (strong induction on execution order) + relevance on/off differential runs"

    def cases(self, rng, tier):
        n = 40 if tier == 'quick' else 1200
        # family: restarted GMRES (several short Krylov cycles re-use the linear vectors), reverse
        # and forward mode, matrix-free components, on the root or on the sub-groups
        for _ in range(12 if tier == 'quick' else 200):
            cyc = rng.random() < 0.6
            sub = (not cyc) and rng.random() < 0.4
            yield {'gen_seed': rng.randrange(10 ** 9),
                   'opts': {'safe_indices': True, 'implicit': rng.random() < 0.6,
                            'n_comps': (4, 7), 'cycles': 'converging' if cyc else False},
                   'cfg': {'mode': rng.choice(['rev', 'rev', 'rev', 'fwd']),
                           'linear': rng.choice([None, 'runonce', 'lbgs']) if sub else 'krylov',
                           'sub_linear': 'krylov' if sub else None,
                           'nonlinear': 'nlbgs' if cyc else None, 'jac': None,
                           'partials': rng.choice(['matfree', 'matfree', None]),
                           'krylov_restart': rng.choice([3, 4, 6, 8]), 'driver': False}}
        # family: semi-total derivatives (approx_totals on the sub-groups) and components with
        # fd/cs-approximated partials: which approximations are carried out is chosen by relevance,
        # and the choice made for one compute_totals must not survive into the next one
        for _ in range(8 if tier == 'quick' else 150):
            sub_approx = rng.choice(['cs', 'cs', None])
            # (a group that approximates its own jacobian treats its outputs as explicit functions
            # of its inputs, so no implicit components there)
            yield {'gen_seed': rng.randrange(10 ** 9),
                   'opts': {'safe_indices': True, 'implicit': (not sub_approx) and rng.random() < 0.7,
                            'n_comps': (4, 8), 'cycles': False},
                   'cfg': {'mode': rng.choice(['fwd', 'rev']),
                           'linear': rng.choice([None, 'runonce', 'direct', 'lbgs']),
                           'sub_linear': None, 'nonlinear': None, 'jac': None,
                           # (a DirectSolver above an approximating group that holds matrix-free
                           # components reports a singular jacobian with and without relevance)
                           'partials': rng.choice(['cs', 'dense']) if sub_approx
                           else rng.choice([None, None, 'cs']),
                           'sub_approx': sub_approx, 'driver': False}}
        # family: assembled jacobians (csc / dense) at the root and in the sub-groups: the matrix is
        # assembled from the sub-jacobians that relevance kept for the current compute_totals
        for _ in range(8 if tier == 'quick' else 200):
            cyc = rng.random() < 0.2
            yield {'gen_seed': rng.randrange(10 ** 9),
                   'opts': {'safe_indices': True, 'implicit': rng.random() < 0.6,
                            'n_comps': (3, 7), 'cycles': 'converging' if cyc else False},
                   'cfg': {'mode': rng.choice(['fwd', 'rev']),
                           'linear': rng.choice(['direct_asm', 'direct_asm', 'krylov']),
                           'sub_linear': rng.choice([None, None, 'direct_asm']),
                           'nonlinear': rng.choice(['nlbgs', 'newton']) if cyc else None,
                           'jac': rng.choice(['csc', 'dense']),
                           'partials': rng.choice([None, 'dense', 'cs']), 'driver': False}}
        # family: optimizer runs with group_by_pre_opt_post on models with pre / post components and
        # design variables of both kinds, each with its own branch (harness/c24_prepost.py)
        for _ in range(10 if tier == 'quick' else 300):
            yield {'kind': 'prepost', 'gen_seed': rng.randrange(10 ** 9)}
        # family: one component with a mix of analytic / fd / cs partials and a history of
        # compute_totals calls with varying of/wrt (harness/c24_approx.py)
        for _ in range(12 if tier == 'quick' else 400):
            yield {'kind': 'approx_seq', 'gen_seed': rng.randrange(10 ** 9)}
        for _ in range(n):
            cyc = rng.random() < 0.25
            cfg = {'mode': rng.choice(['fwd', 'rev']),
                   'linear': rng.choice(['direct', 'krylov', 'lbgs']) if cyc
                   else rng.choice([None, 'runonce', 'direct', 'krylov', 'lbgs']),
                   'nonlinear': rng.choice(['nlbgs', 'newton']) if cyc else None,
                   'sub_linear': rng.choice([None, None, 'lbgs']),
                   'jac': None, 'partials': rng.choice([None, None, 'dense', 'matfree']),
                   'driver': rng.random() < 0.25}
            opts = {'safe_indices': True, 'implicit': rng.random() < 0.6,
                    'n_comps': (3, 6), 'cycles': 'converging' if cyc else False}
            if cfg['driver']:
                # an optimizer amplifies solver-tolerance noise discontinuously (active-set
                # decisions): iterates are compared only with direct (non-iterative) linear solves
                cfg['linear'] = 'direct' if cyc else rng.choice([None, 'runonce', 'direct'])
                cfg['sub_linear'] = None
                if rng.random() < 0.6:
                    cfg['auto_dv'] = True
                    opts['auto_ivc_p'] = 0.4
            yield {'gen_seed': rng.randrange(10 ** 9), 'opts': opts, 'cfg': cfg}

    def _md(self, case):
        rng = random.Random(case['gen_seed'])
        md = gm.gen_md(rng, **case['opts'])
        voi = gm.gen_voi(rng, md, units=False, scaling=False)
        return md, voi

    def _run(self, md, voi, cfg, no_rel):
        import openmdao.api as om
        import openmdao.utils.relevance as R
        saved = R._no_relevance
        R._no_relevance = bool(no_rel)
        approx_log, restore_add = install_approx_log()
        try:
            res = {}
            v = copy.deepcopy(voi)
            p, info = gm.build_problem(md, cfg=cfg)
            gm.add_voi(p, md, v)
            p.setup(mode=cfg['mode'])
            gm.set_auto_ivc_values(p, md)
            p.run_model()
            res['resp'] = {r['name']: np.asarray(p.get_val(r['name'])).ravel().tolist()
                           for r in v['responses']}
            res['J'] = np.atleast_2d(p.compute_totals(return_format='array')).tolist()
            # one response / one design variable at a time (different seed sets)
            single = {}
            for r in v['responses']:
                for d in v['desvars']:
                    single[r['name'] + '|' + d['name']] = np.atleast_2d(p.compute_totals(
                        of=[r['name']], wrt=[d['name']], return_format='array')).tolist()
            res['single'] = single
            # other of/wrt than the driver's: variables that were irrelevant for every declared pair
            # may be needed now (nothing pruned for the first queries may stay pruned)
            dv = {d['name'] for d in v['desvars']}
            rs = {r['name'] for r in v['responses']}
            wrts = [gm.out_root_name(md, ci, od['name']) for ci, c in enumerate(md['comps'])
                    if c['kind'] == 'ivc' for od in c['outs']]
            ofs = [gm.out_root_name(md, ci, od['name']) for ci, c in enumerate(md['comps'])
                   if c['kind'] != 'ivc' for od in c['outs']]
            wrts = [w for w in wrts if w not in dv][:2] or wrts[:1]
            ofs = [o for o in ofs if o not in rs][-2:] or ofs[-1:]
            foreign = {}
            for o in ofs:
                for w in wrts:
                    foreign[o + '|' + w] = np.atleast_2d(p.compute_totals(
                        of=[o], wrt=[w], return_format='array')).tolist()
            res['foreign'] = foreign
            if not no_rel:
                rel = p.model._relevance
                relv = {}
                a2m = p.model._var_allprocs_abs2meta['output']
                prom2abs = p.model._resolver
                for r in v['responses']:
                    for d in v['desvars']:
                        rs = p.model.get_source(r['name']) if hasattr(p.model, 'get_source') else r['name']
                        ds = p.model.get_source(d['name']) if hasattr(p.model, 'get_source') else d['name']
                        with rel.seeds_active(fwd_seeds=(ds,), rev_seeds=(rs,)):
                            relv[r['name'] + '|' + d['name']] = {
                                n: bool(rel.is_relevant(n)) for n in a2m if not n.startswith('_auto_ivc')}
                res['relevant'] = relv
                res['approx_log'] = approx_log
            return res
        finally:
            R._no_relevance = saved
            restore_add()

    def _run_driver(self, md, voi, cfg, no_rel):
        import openmdao.api as om
        import openmdao.utils.relevance as R
        saved = R._no_relevance
        R._no_relevance = bool(no_rel)
        try:
            v = copy.deepcopy(voi)
            p, info = gm.build_problem(md, cfg=cfg)
            # build_problem creates the Problem; options must be set before setup
            p.options['group_by_pre_opt_post'] = True
            model = p.model
            for d in v['desvars']:
                name = gm.out_root_name(md, d['ci'], d['oname'])
                model.add_design_var(name, lower=-100., upper=100.)
                d['name'] = name
            if cfg.get('auto_dv'):
                # design variables of both kinds: outputs of IndepVarComps and inputs fed by the
                # automatic independent-variable component
                # (the one entering the model latest, so that components between the IndepVarComp
                # design variables and it lie on the IndepVarComp branch only)
                for cn in sorted(md['conns'], key=lambda cn: -cn['tgt'][0]):
                    if cn['src'] is None and cn.get('tgt_root'):
                        model.add_design_var(cn['tgt_root'], lower=-100., upper=100.)
                        v['desvars'].append({'name': cn['tgt_root']})
                        break
            r0 = v['responses'][0]
            n0 = gm.out_root_name(md, r0['ci'], r0['oname'])
            model.add_objective(n0, index=0)
            for r in v['responses'][1:]:
                model.add_constraint(gm.out_root_name(md, r['ci'], r['oname']), upper=1e6)
            p.driver = om.ScipyOptimizeDriver(optimizer='SLSQP', maxiter=3, disp=False)
            p.setup(mode=cfg['mode'])
            gm.set_auto_ivc_values(p, md)
            p.run_driver()
            out = {d['name']: np.asarray(p.get_val(d['name'])).ravel().tolist() for d in v['desvars']}
            out['__obj'] = np.asarray(p.get_val(n0)).ravel().tolist()[:1]
            # every output of the model after the run (post components must have run)
            for c in md['comps']:
                for od in c['outs']:
                    nm = gm.comp_path(c) + '.' + od['name']
                    out[nm] = np.asarray(p.get_val(nm)).ravel().tolist()
            return out
        finally:
            R._no_relevance = saved

    # -- family approx_seq ------------------------------------------------------------------------
    def _aq_run_impl(self, case):
        spec = aq.gen(case['gen_seed'])
        res = {}

        def wrap(body):
            log, restore = install_approx_log()
            try:
                return body(), log
            finally:
                restore()
        try:
            res['off'] = {'Js': aq.run(spec, True, wrap)[0]}
            Js, log = aq.run(spec, False, wrap)
            res['on'] = {'Js': Js, 'approx_log': log}
        except Exception as e:
            res['error'] = type(e).__name__
            res['msg'] = str(e)[:300]
        return res

    def _aq_oracle(self, case, impl):
        if 'error' in impl:
            return {'what': 'approx_seq: setup/run_model/compute_totals raised %s' % impl['error'],
                    'msg': impl.get('msg')}
        spec = aq.gen(case['gen_seed'])
        for k, q in enumerate(spec['hist']):
            ex = aq.expected(spec, q)
            for key in ('off', 'on'):
                if not self._close(impl[key]['Js'][k], ex, 1e-6):
                    return {'what': 'approx_seq: compute_totals differs from the exact derivative '
                                    'with relevance %s' % ('enabled' if key == 'on' else 'disabled'),
                            'query': k, 'got': impl[key]['Js'][k], 'exact': ex}
        return None

    def _aq_bucket(self, case, impl):
        spec = aq.gen(case['gen_seed'])
        b = ['approx_seq', 'approx_seq_implicit' if spec['implicit'] else 'approx_seq_explicit',
             'approx_seq_hist_len=%d' % len(spec['hist']), 'approx_seq_linear=%s' % spec['linear'],
             'approx_seq_methods=%s' % '+'.join(sorted(set(spec['meth'].values())))]
        for comp, calls in impl.get('on', {}).get('approx_log', {}).items():
            b.append('approx_history_compared_with_model')
            b.append('approx_seq_calls=%d' % len(calls))
            if any(not c.get('after') for c in calls[:-1]) and any(c.get('after') for c in calls[1:]):
                b.append('approx_scheme_emptied_then_needed_again')
            if any(len(c.get('after', {})) == 1 for c in calls) and \
                    any(len(c.get('after', {})) == 2 for c in calls):
                b.append('approx_seq_one_of_two_schemes_dropped_and_back')
        return b

    # -- family prepost ---------------------------------------------------------------------------
    def _pp_run_impl(self, case):
        import contextlib
        import io
        spec = pp.gen(case['gen_seed'])
        res = {}
        try:
            with warnings.catch_warnings(), contextlib.redirect_stdout(io.StringIO()):
                warnings.simplefilter('ignore')
                res['on'] = pp.run(spec, False)
                res['off'] = pp.run(spec, True)
        except Exception as e:
            res['error'] = type(e).__name__
            res['msg'] = str(e)[:300]
        return res

    def _pp_oracle(self, case, impl):
        if 'error' in impl:
            return {'what': 'prepost: setup/run_driver raised %s' % impl['error'], 'msg': impl.get('msg')}
        on, off = impl['on'], impl['off']
        if off['__failed'][0]:
            return None         # the optimizer did not converge without pruning either: no premise
        for k, v in off.items():
            if not k.startswith('__') and not self._close(on[k], v, 1e-5):
                return {'what': 'prepost: optimizer run differs with relevance enabled', 'var': k,
                        'on': on[k], 'off': v, 'pre': on['__pre'], 'post': on['__post']}
        for k, v in pp.optimum(pp.gen(case['gen_seed'])).items():
            if not self._close(on[k], v, 1e-4):
                return {'what': 'prepost: optimizer result with relevance enabled is not the optimum',
                        'var': k, 'on': on[k], 'optimum': v}
        return None

    def _pp_bucket(self, case, impl):
        spec = pp.gen(case['gen_seed'])
        b = ['prepost', 'prepost_ivc_dvs=%d' % len(spec['ivc']), 'prepost_auto_dvs=%d' % len(spec['auto'])]
        if spec['ivc'] and spec['auto']:
            b.append('prepost_both_kinds_of_design_variable')
        on = impl.get('on', {})
        if on.get('__pre'):
            b.append('prepost_has_pre_components')
        if on.get('__post'):
            b.append('prepost_has_post_components')
        return b

    def run_impl(self, case):
        if case.get('kind') == 'approx_seq':
            return self._aq_run_impl(case)
        if case.get('kind') == 'prepost':
            return self._pp_run_impl(case)
        md, voi = self._md(case)
        res = {}
        try:
            with warnings.catch_warnings():
                warnings.simplefilter('ignore')
                for key, no_rel in (('off', True), ('on', False)):
                    try:
                        res[key] = self._run(md, voi, case['cfg'], no_rel)
                    except Exception as e:
                        if type(e).__name__ != 'AnalysisError':
                            if not case['cfg'].get('sub_approx'):
                                raise
                            res[key + '_error'] = type(e).__name__ + ': ' + str(e)[:200]
                            continue
                        res[key + '_analysis_error'] = str(e)[:200]
                if case['cfg'].get('sub_approx') and res.get('on_error') and \
                        res.get('on_error') == res.get('off_error'):
                    # the same rejection with and without relevance (e.g. a design variable whose
                    # source lies inside an approximating group): nothing to compare
                    res['error'] = 'AnalysisError'
                    res['rejected_both'] = res['on_error']
                    return res
                if 'on_error' in res or 'off_error' in res:
                    raise RuntimeError('relevance %s: %s' % (
                        'enabled' if 'on_error' in res else 'disabled',
                        res.get('on_error') or res.get('off_error')))
                if 'on' not in res and 'off' in res:
                    # ScipyKrylov reported non-convergence only with relevance enabled (scipy's gmres
                    # returns info > 0 after an exact breakdown on the pruned, singular operator, and
                    # restarted GMRES can stagnate on it).  The property is about values: take them
                    # with un-restarted GMRES (exact after at most n steps on a consistent system) and
                    # the error flag off, and compare.
                    try:
                        res['on'] = self._run(md, voi, dict(case['cfg'], krylov_err=False,
                                                            krylov_restart=200), False)
                        res['on_reported_nonconvergence'] = True
                    except Exception as e:
                        if type(e).__name__ != 'AnalysisError':
                            raise
                if 'on' not in res or 'off' not in res:
                    res['error'] = 'AnalysisError'
                    return res
                if case['cfg']['driver']:
                    try:
                        res['drv_on'] = self._run_driver(md, voi, case['cfg'], False)
                        res['drv_off'] = self._run_driver(md, voi, case['cfg'], True)
                    except Exception as e:
                        res['drv_error'] = type(e).__name__ + ': ' + str(e)[:200]
        except Exception as e:
            res['error'] = type(e).__name__
            res['msg'] = str(e)[:300]
        return res

    def _tol(self, case):
        cfg = case['cfg']
        md, _ = self._md(case)
        cond = gm.system_cond(md, ('c24', case['gen_seed'], json.dumps(case['opts'], sort_keys=True)))
        if cfg['linear'] in ('krylov', 'lbgs') or cfg['sub_linear'] or cfg['nonlinear']:
            return max(1e-6, 1e-14 * cond)
        return max(RTOL, 1e-14 * cond)

    @staticmethod
    def _close(a, b, tol):
        a = np.asarray(a, dtype=float)
        b = np.asarray(b, dtype=float)
        if a.shape != b.shape:
            return False
        if not (np.all(np.isfinite(a)) and np.all(np.isfinite(b))):
            return bool(np.array_equal(np.isfinite(a), np.isfinite(b)))
        sc = max(1.0, float(np.max(np.abs(b))) if b.size else 1.0)
        return bool(np.all(np.abs(a - b) <= tol * sc))

    def oracle(self, case, impl):
        if case.get('kind') == 'approx_seq':
            return self._aq_oracle(case, impl)
        if case.get('kind') == 'prepost':
            return self._pp_oracle(case, impl)
        md, voi = self._md(case)
        tol = self._tol(case)
        if impl.get('error') == 'AnalysisError':
            return None     # a solver reported non-convergence: the property's premise is false
        if 'error' in impl:
            return {'what': 'setup/run_model/compute_totals raised %s' % impl['error'],
                    'msg': impl.get('msg')}
        on, off = impl['on'], impl['off']
        for k, v in off['resp'].items():
            if not self._close(on['resp'][k], v, tol):
                return {'what': 'response differs with relevance enabled', 'var': k,
                        'on': on['resp'][k], 'off': v}
        if not self._close(on['J'], off['J'], tol):
            return {'what': 'compute_totals differs with relevance enabled', 'on': on['J'],
                    'off': off['J']}
        for k, v in off['single'].items():
            if not self._close(on['single'][k], v, tol):
                return {'what': 'single-pair compute_totals differs with relevance enabled',
                        'pair': k, 'on': on['single'][k], 'off': v}
        for k, v in off.get('foreign', {}).items():
            if not self._close(on['foreign'][k], v, tol):
                return {'what': 'compute_totals for other of/wrt differs with relevance enabled',
                        'pair': k, 'on': on['foreign'][k], 'off': v}
        if 'drv_on' in impl and 'drv_off' in impl:
            for k, v in impl['drv_off'].items():
                if not self._close(impl['drv_on'][k], v, 1e-6):
                    return {'what': 'optimizer run differs with relevance enabled', 'var': k,
                            'on': impl['drv_on'][k], 'off': v}
        return None

    def signature(self, case, impl, failure):
        if case.get('kind') in ('approx_seq', 'prepost'):
            return {'what': failure.get('what'), 'family': case['kind']}
        sig = {'what': failure.get('what'), 'linear': case['cfg']['linear'],
               'mode': case['cfg']['mode'],
               'sub_krylov': case['cfg'].get('sub_linear') == 'krylov'}
        # which side is wrong?  (the relevance-disabled forward solve through a Krylov sub-group is a
        # recorded defect, see known_findings.d/C02.json)
        try:
            md, voi = self._md(case)
            ex = [[float(x) for x in r] for r in gm.exact_totals_linsolve(md, voi)]
            tol = max(self._tol(case), 1e-6)
            sig['off_wrong_on_right'] = bool(self._close(impl['on']['J'], ex, tol) and
                                             not self._close(impl['off']['J'], ex, tol))
        except Exception:
            sig['off_wrong_on_right'] = False
        return sig

    def nontrivial(self, case, impl):
        if case.get('kind') == 'prepost':
            on = impl.get('on', {})
            return bool(on.get('__pre') or on.get('__post'))
        if case.get('kind') == 'approx_seq':
            return any(set(c.get('relevant', [])) != {w for _, w, _ in c.get('decls', [])}
                       for calls in impl.get('on', {}).get('approx_log', {}).values() for c in calls)
        rel = impl.get('on', {}).get('relevant', {})
        return any(not v for d in rel.values() for v in d.values())

    def bucket(self, case, impl):
        if case.get('kind') == 'approx_seq':
            return self._aq_bucket(case, impl)
        if case.get('kind') == 'prepost':
            return self._pp_bucket(case, impl)
        md, voi = self._md(case)
        cfg = case['cfg']
        b = ['solver_reported_failure' if impl.get('error') == 'AnalysisError' else
             'krylov_reported_nonconvergence_only_with_relevance(values compared)'
             if impl.get('on_reported_nonconvergence') else 'impl_error' if 'error' in impl else 'impl_ok', 'cyclic' if md.get('cyclic') else 'acyclic']
        for k in ('mode', 'linear', 'nonlinear', 'partials', 'jac'):
            b.append('%s=%s' % (k, cfg[k]))
        if any(c['kind'] == 'implicit' and len(c['outs']) > 1 for c in md['comps']):
            b.append('implicit_with_coupled_outputs')
        if 'drv_on' in impl:
            b.append('driver_run_compared')
            if cfg.get('auto_dv'):
                b.append('driver_run_with_auto_ivc_and_ivc_design_vars')
        if 'drv_error' in impl:
            b.append('driver_run_error')
        if cfg.get('sub_approx'):
            b.append('semi_total_groups')
        for comp, calls in impl.get('on', {}).get('approx_log', {}).items():
            b.append('approx_history_compared_with_model')
            if any(not c.get('after') for c in calls[:-1]) and any(c.get('after') for c in calls[1:]):
                b.append('approx_scheme_emptied_then_needed_again')
        rel = impl.get('on', {}).get('relevant', {})
        for d in rel.values():
            b.append('pair_with_irrelevant_vars' if any(not v for v in d.values())
                     else 'pair_all_relevant')
        return b

    # -- model -----------------------------------------------------------------------------------
    def _pairs(self, md, voi):
        off, aoff, n = gm.flat_layout(md)
        for r in voi['responses']:
            rpos, _ = gm.voi_positions(md, r)
            for d in voi['desvars']:
                dpos, _ = gm.voi_positions(md, d)
                yield r, d, [off[(r['ci'], r['oname'])] + q for q in rpos], \
                    [off[(d['ci'], d['oname'])] + q for q in dpos]

    def model_requests(self, case, impl):
        if case.get('kind') == 'prepost':
            return []
        if case.get('kind') == 'approx_seq':
            return [] if 'error' in impl else [r for _, r, _ in self._approx_requests(impl)]
        md, voi = self._md(case)
        if 'error' in impl:
            return []
        if md.get('cyclic'):
            return [r for _, r, _ in self._approx_requests(impl)]
        A, off, n = gm._linearised(md)
        W = []
        for k in range(n):
            for j in range(k):
                if A[k][j] != 0:
                    W.append([k, j, rat(-A[k][j])])
            for j in range(k + 1, n):
                if A[k][j] != 0:
                    raise Infra('acyclic model whose flat layout is not lower triangular')
            if A[k][k] != 1:
                # implicit components carry their state coupling inside the block: the explicit
                # solution form used by flat_spec has unit diagonal
                raise Infra('non-unit diagonal')
        reqs = []
        for r, d, rp, dp in self._pairs(md, voi):
            for rr in rp[:2]:
                for dd in dp[:2]:
                    seed = ["0/1"] * n
                    seed[dd] = "1/1"
                    reqs.append({'op': 'relevance', 'n': n, 'W': W, 'seed': seed, 'r': rr})
        return reqs + [r for _, r, _ in self._approx_requests(impl)]

    METHOD_ID = {'fd': 1, 'cs': 2}

    def _approx_requests(self, impl):
        """One `approx_seq` request per component that went through `_add_approximations`: the
        history of calls (relevant wrt per call) logged from the real run with relevance enabled.
        Yields (component, request, variable names by id)."""
        out = []
        for comp, calls in sorted(impl.get('on', {}).get('approx_log', {}).items()):
            if any('log_error' in c for c in calls):
                raise Infra('approximation log failed: %s' % [c for c in calls if 'log_error' in c][:1])
            decls = calls[0]['decls']
            if any(c['decls'] != decls for c in calls):
                raise Infra('declared approximated partials changed between calls in %s' % comp)
            names = sorted({n for of, wrt, _ in decls for n in (of, wrt)})
            vid = {n: i for i, n in enumerate(names)}
            out.append((comp, {'op': 'approx_seq', 'fixed': True,
                               'decls': [[vid[of], vid[wrt], self.METHOD_ID[m]] for of, wrt, m in decls],
                               'live0': [self.METHOD_ID[m] for m in calls[0]['live']],
                               'rels': [[vid[w] for w in c['relevant']] for c in calls]}, names))
        return out

    def _compare_approx(self, impl, answers):
        reqs = self._approx_requests(impl)
        if not reqs:
            return None
        mname = {v: k for k, v in self.METHOD_ID.items()}
        for (comp, req, names), ans in zip(reqs, answers[len(answers) - len(reqs):]):
            calls = impl['on']['approx_log'][comp]
            for k, (call, step) in enumerate(zip(calls, ans['steps'])):
                model = {mname[m]: sorted(names[w] for w in wrts) for m, wrts in step}
                if model != call['after']:
                    return ('%s: approximations set up by call %d of _add_approximations differ from '
                            'the model (history-independent choice): code %s, model %s, relevant %s, '
                            'live before %s' % (comp, k, call['after'], model, call['relevant'],
                                                call['live']))
        return None

    def compare(self, case, impl, answers):
        if case.get('kind') == 'prepost':
            return None
        if case.get('kind') == 'approx_seq':
            return None if 'error' in impl or not answers else self._compare_approx(impl, answers)
        md, voi = self._md(case)
        if 'error' not in impl and answers:
            d = self._compare_approx(impl, answers)
            if d:
                return d
        if md.get('cyclic') or not answers:
            return None
        off, aoff, n = gm.flat_layout(md)
        var_of = {}
        for ci, c in enumerate(md['comps']):
            for od in c['outs']:
                s = off[(ci, od['name'])]
                for e in range(int(np.prod(od['shape']))):
                    var_of[s + e] = gm.comp_path(c) + '.' + od['name']
        k = 0
        J = gm.exact_totals_linsolve(md, voi)
        row0 = 0
        rows = {}
        for r in voi['responses']:
            rows[r['oname'], r['ci']] = row0
            row0 += len(gm.voi_positions(md, r)[0])
        col0 = 0
        cols = {}
        for d in voi['desvars']:
            cols[d['oname'], d['ci']] = col0
            col0 += len(gm.voi_positions(md, d)[0])
        for r, d, rp, dp in self._pairs(md, voi):
            name = gm.out_root_name(md, r['ci'], r['oname']) + '|' + gm.out_root_name(md, d['ci'], d['oname'])
            realrel = impl['on']['relevant'].get(name)
            for ir, rr in enumerate(rp[:2]):
                for idd, dd in enumerate(dp[:2]):
                    a = answers[k]
                    k += 1
                    if a['val_r'] != a['skip_r']:
                        raise Infra('Lean: pruned and full solves differ (contradicts C24_response_unchanged)')
                    if a['def_val_r'] is not None and (a['def_val_r'] != a['val_r'] or
                                                       a['def_skip_r'] != a['skip_r']):
                        raise Infra('Lean: memoised sweep differs from the definitions')
                    ex = J[rows[r['oname'], r['ci']] + ir][cols[d['oname'], d['ci']] + idd]
                    if unrat(a['val_r']) != ex:
                        raise Infra('Lean forward substitution %s != exact total %s' % (a['val_r'], ex))
                    if realrel is None:
                        continue
                    needed = set(var_of[i] for i in range(n) if a['reach'][i] and a['infl'][i])
                    for v in needed:
                        if v in realrel and not realrel[v]:
                            return ('relevance reports %s irrelevant for (%s), but the derivative '
                                    'flows through it' % (v, name))
        return None


PROP = C24()
