"""C08 — solver scaling (ref/ref0/res_ref) never changes physical results."""
import copy
import random
import warnings
from fractions import Fraction

import numpy as np

import genmodel as gm
from common import Property, rat, unrat, Infra

RTOL = 1e-7


def strip_scaling(md):
    m = copy.deepcopy(md)
    for c in m['comps']:
        for o in c['outs']:
            for k in ('ref', 'ref0', 'res_ref', 'via_solver_options'):
                o.pop(k, None)
    return m


def out_scaling(md):
    """per global output element: (a0, a1, res_ref) as Fractions"""
    off, aoff, n = gm.flat_layout(md)
    a0 = [Fraction(0)] * n
    a1 = [Fraction(1)] * n
    rr = [Fraction(1)] * n
    for ci, c in enumerate(md['comps']):
        for od in c['outs']:
            size = int(np.prod(od['shape']))
            s = off[(ci, od['name'])]

            def get(k, default):
                v = od.get(k)
                if v is None:
                    return [default] * size
                if isinstance(v, list):
                    return [unrat(x) for x in v]
                return [unrat(v)] * size
            r0 = get('ref0', Fraction(0))
            r1 = get('ref', Fraction(1))
            # ExplicitComponent: res_ref defaults to ref
            dflt = r1 if c['kind'] == 'explicit' else [Fraction(1)] * size
            rres = od.get('res_ref')
            rres = dflt if rres is None else get('res_ref', None)
            for e in range(size):
                a0[s + e] = r0[e]
                a1[s + e] = r1[e] - r0[e]
                rr[s + e] = rres[e]
    return a0, a1, rr


class C08(Property):
    pid = 'C08'
    workers = 8
    tolerance = RTOL
    required_theorems = ['C08_scale_bijection', 'C08_fixed_points', 'C08_totals_invariant_fwd',
                         'C08_totals_invariant_rev', 'C08_direct_rev_identity', 'C08_explicit_copy']
    rule = ("cases: random models from harness/genmodel.py with random ref/ref0/res_ref (scalar and "
            "array, both signs of ref-ref0, res_ref equal to and different from ref, explicit "
            "res_ref=1) on explicit, matrix-free and implicit components, with and without a "
            "converging cycle, built twice (scaled / all scaling removed) under the same solver "
            "configuration (nonlinear: run-once/NLBGS/NLBJ/Newton; linear: run-once/Direct/assembled "
            "Direct/Krylov/LinearBlockGS; fwd/rev); outputs, inputs and compute_totals compared. "
            "Non-trivial: at least one output has ref/ref0/res_ref; distinct by (seed, configuration).")
    assumptions = ["comparison at 1e-7 relative (solver tolerances 1e-13, double rounding)",
                   "only converged runs are compared (iteration paths legitimately differ)"]
    trusted_extra = ["scipy/LAPACK solves inside OpenMDAO's solvers (results only compared)"]
    level_text = ("Scaling is modelled as the affine/diagonal change of variables it is; proved in Lean: "
                  "it is a bijection for ref != ref0, scaled residuals vanish iff physical ones do, "
                  "scaled forward and adjoint systems are solved by the scaled images of the physical "
                  "solutions, the reverse-mode identity a forward-factorising direct solver needs, and "
                  "when an explicit component may copy scaled vectors. The real framework is tied by "
                  "running every generated model with and without scaling under the same solvers and "
                  "comparing physical outputs, inputs and total derivatives with each other and with the "
                  "exact rational oracle, and the solver-internal scaled vector with the Lean model.")
    level_note = ("partial: theorems cover the algebra of scaling, not OpenMDAO's code paths that apply "
                  "it (tied differentially); convergence paths differ legitimately and only converged "
                  "results are compared.")
    technique = "Lean 4 proof (field algebra, big operators) + scaled-vs-unscaled differential runs"

    def cases(self, rng, tier):
        n = 40 if tier == 'quick' else 1200
        # family: sparse scaling - a single component of the model carries ref/ref0/res_ref, on some of
        # its outputs only, given partly through set_output_solver_options (per-model flags such as
        # "some output has an adder" must not depend on which output is looked at last)
        for _ in range(10 if tier == 'quick' else 200):
            yield {'gen_seed': rng.randrange(10 ** 9),
                   'opts': {'safe_indices': True, 'scaling': True, 'array_scaling': True,
                            'solver_options_api': True, 'implicit': False, 'cycles': False,
                            'n_comps': (3, 5)},
                   'cfg': {'mode': rng.choice(['fwd', 'rev']),
                           'linear': rng.choice([None, 'runonce', 'direct']), 'nonlinear': None,
                           'sub_linear': None, 'jac': None,
                           'partials': rng.choice([None, 'dense'])},
                   'sparse_scaling': rng.randrange(10 ** 6)}
        # family: matrix-free implicit components (apply_linear) with scaled outputs under solvers
        # that call apply_linear: the callback must be handed physical values
        for _ in range(6 if tier == 'quick' else 150):
            yield {'gen_seed': rng.randrange(10 ** 9),
                   'opts': {'safe_indices': True, 'scaling': True, 'array_scaling': True,
                            'implicit': True, 'cycles': False, 'n_comps': (3, 6)},
                   'cfg': {'mode': rng.choice(['fwd', 'rev']),
                           'linear': rng.choice(['krylov', 'direct', 'lbgs', None]), 'nonlinear': None,
                           'sub_linear': rng.choice([None, 'krylov', 'direct']), 'jac': None,
                           'partials': rng.choice([None, 'dense']), 'implicit_matfree': True}}
        # family: residual scaling only (res_ref, no ref/ref0) and sub-groups that approximate their
        # own jacobian (semi-totals): the group-level linear operators must honour a scaling that
        # only the residual vector carries
        for _ in range(14 if tier == 'quick' else 200):
            yield {'gen_seed': rng.randrange(10 ** 9),
                   'opts': {'safe_indices': True, 'scaling': True, 'array_scaling': False,
                            'implicit': False, 'cycles': False, 'n_comps': (4, 7)},
                   'cfg': {'mode': rng.choice(['rev', 'rev', 'rev', 'fwd']),
                           # (block solvers at the root call the sub-groups' own solve_linear)
                           'linear': rng.choice([None, 'runonce', 'lbgs', 'direct']), 'nonlinear': None,
                           'sub_linear': None, 'jac': None,
                           'partials': rng.choice(['dense', 'cs']),
                           'sub_approx': rng.choice(['cs', 'cs', 'cs', None])},
                   'resid_only': rng.randrange(10 ** 6)}
        for _ in range(n):
            cyc = rng.random() < 0.4
            cfg = {'mode': rng.choice(['fwd', 'rev']),
                   'linear': rng.choice(['direct', 'direct_asm', 'krylov', 'lbgs']) if cyc
                   else rng.choice([None, 'runonce', 'direct', 'direct_asm', 'krylov', 'lbgs']),
                   'nonlinear': rng.choice(['nlbgs', 'newton', 'nlbjac']) if cyc else None,
                   'sub_linear': rng.choice([None, None, 'direct']),
                   'jac': rng.choice([None, 'dense', 'csc']),
                   'partials': rng.choice([None, None, 'dense', 'matfree', 'cs'])}
            if cfg['linear'] == 'direct_asm' and cfg['jac'] is None:
                cfg['jac'] = 'csc'
            yield {'gen_seed': rng.randrange(10 ** 9),
                   'opts': {'safe_indices': True, 'scaling': True, 'array_scaling': True,
                            'solver_options_api': rng.random() < 0.5,
                            'implicit': rng.random() < 0.5,
                            'cycles': 'converging' if cyc else False},
                   'cfg': cfg}

    def _md(self, case):
        rng = random.Random(case['gen_seed'])
        md = gm.gen_md(rng, **case['opts'])
        if 'sparse_scaling' in case:
            r2 = random.Random(case['sparse_scaling'])
            multi = [c for c in md['comps'] if c['kind'] == 'explicit' and len(c['outs']) > 1]
            keep = r2.choice(multi or [c for c in md['comps'] if c['kind'] == 'explicit'])
            for c in md['comps']:
                for k, o in enumerate(c['outs']):
                    last = (k == len(c['outs']) - 1)
                    if c is not keep or (last and len(c['outs']) > 1 and r2.random() < 0.7):
                        for key in ('ref', 'ref0', 'res_ref', 'via_solver_options'):
                            o.pop(key, None)
                        if c is keep and last and r2.random() < 0.6:
                            # the last output: options given, but no adder (ref0 = 0)
                            o['ref'] = rat(r2.choice([Fraction(-4), Fraction(2), Fraction(1, 2)]))
                            o['ref0'] = rat(Fraction(0))
                            o['res_ref'] = rat(r2.choice([Fraction(1), Fraction(2)]))
                            o['via_solver_options'] = True
                    elif c is keep and 'ref' not in o:
                        o['ref0'] = rat(Fraction(r2.randint(1, 6), 2))
                        o['ref'] = rat(unrat(o['ref0']) + r2.choice([Fraction(2), Fraction(-1), Fraction(7)]))
                        o['res_ref'] = rat(r2.choice([Fraction(1), Fraction(4)]))
        if 'resid_only' in case:
            r2 = random.Random(case['resid_only'])
            for c in md['comps']:
                for o in c['outs']:
                    for key in ('ref', 'ref0', 'res_ref', 'via_solver_options'):
                        o.pop(key, None)
                    if c['kind'] != 'ivc' and r2.random() < 0.9:
                        o['res_ref'] = rat(r2.choice([Fraction(2), Fraction(-3), Fraction(1, 2),
                                                      Fraction(5)]))
        voi = gm.gen_voi(rng, md, units=False, scaling=False)
        return md, voi

    def _run(self, md, voi, cfg, want_scaled_vec):
        res = {}
        log = [] if cfg.get('implicit_matfree') else None
        p, info = gm.build_problem(md, log=log, cfg=cfg)
        gm.add_voi(p, md, copy.deepcopy(voi))
        p.setup(mode=cfg['mode'], force_alloc_complex=True)
        gm.set_auto_ivc_values(p, md)
        p.run_model()
        res['outs'] = {}
        res['ins'] = {}
        for c in md['comps']:
            for od in c['outs']:
                nm = gm.comp_path(c) + '.' + od['name']
                res['outs'][nm] = np.asarray(p.get_val(nm)).ravel().tolist()
            for i in c['ins']:
                nm = gm.comp_path(c) + '.' + i['name']
                res['ins'][nm] = np.asarray(p.get_val(nm, from_src=False)).ravel().tolist()
        if log is not None:
            del log[:]
        res['J'] = np.atleast_2d(p.compute_totals(return_format='array')).tolist()
        if log is not None:
            # what the matrix-free implicit components were handed as nonlinear outputs / inputs
            # while the derivatives were computed: largest deviation from the physical values
            seen = {}
            for ent in log:
                if not ent[0].endswith(':apply_linear'):
                    continue
                path = ent[0].rsplit(':', 1)[0]
                for kind, dct, ref in (('out', ent[1], res['outs']), ('in', ent[2], res['ins'])):
                    for nm, val in dct.items():
                        phys = np.asarray(ref[path + '.' + nm], dtype=float)
                        dev = float(np.max(np.abs(np.real(val) - phys) / np.maximum(1.0, np.abs(phys)))) \
                            if phys.size else 0.0
                        key = path + '.' + nm
                        seen[key] = max(seen.get(key, 0.0), dev)
            res['mf_seen_dev'] = seen
        if want_scaled_vec:
            sv = {}
            with p.model._scaled_context_all():
                for c in md['comps']:
                    for od in c['outs']:
                        nm = gm.comp_path(c) + '.' + od['name']
                        sv[nm] = np.asarray(p.model._outputs._abs_get_val(nm)).ravel().tolist()
            res['scaled_outputs'] = sv
        return res

    def run_impl(self, case):
        md, voi = self._md(case)
        res = {}
        try:
            with warnings.catch_warnings():
                warnings.simplefilter('ignore')
                res['scaled'] = self._run(md, voi, case['cfg'], True)
                res['plain'] = self._run(strip_scaling(md), voi, case['cfg'], False)
        except Exception as e:
            res['error'] = type(e).__name__
            res['msg'] = str(e)[:300]
        return res

    @staticmethod
    def _close(a, b, tol=RTOL, scale=None):
        a = np.asarray(a, dtype=float)
        b = np.asarray(b, dtype=float)
        if a.shape != b.shape:
            return False
        sc = max(1.0, float(np.max(np.abs(b))) if b.size else 1.0) if scale is None else scale
        return bool(np.all(np.abs(a - b) <= tol * sc))

    def _converged(self, md, run):
        outs, ins = gm.exact_state(md)
        return all(self._close(run['outs'][k], [float(x) for x in v], 1e-8) for k, v in outs.items())

    def oracle(self, case, impl):
        md, voi = self._md(case)
        if impl.get('error') == 'AnalysisError':
            return None     # a solver reported non-convergence: the property's premise is false
        if case['cfg'].get('sub_approx') and 'this group uses approx_totals' in (impl.get('msg') or ''):
            return None     # a design variable whose source lies inside an approximating group is
            #                 rejected by OpenMDAO with a clear message: no model to compare
        if 'error' in impl:
            return {'what': 'setup/run_model/compute_totals raised %s' % impl['error'],
                    'msg': impl.get('msg')}
        cs, cp = self._converged(md, impl['scaled']), self._converged(md, impl['plain'])
        if md.get('cyclic') and not (cs and cp):
            return None       # only converged results are compared
        if not cp:
            return {'what': 'unscaled acyclic model does not reach the exact state'}
        if not cs:
            return {'what': 'scaled acyclic model: physical outputs differ from the unscaled model'}
        for kind in ('outs', 'ins'):
            for k, v in impl['plain'][kind].items():
                if not self._close(impl['scaled'][kind][k], v):
                    return {'what': 'physical %s differ between scaled and unscaled model' % kind,
                            'var': k, 'scaled': impl['scaled'][kind][k], 'plain': v}
        # user code is handed physical values whatever the solver scaling is
        for key in ('scaled', 'plain'):
            for nm, dev in (impl[key].get('mf_seen_dev') or {}).items():
                if dev > 1e-9:
                    return {'what': 'apply_linear of a matrix-free implicit component was handed '
                                    'non-physical (scaled) nonlinear values', 'var': nm,
                            'model': key, 'rel_dev': dev}
        # derivative comparisons: what the linear solves can deliver is bounded by cond x eps of the
        # (physical) linearised system; numerically singular systems are not compared
        cond = gm.system_cond(md, ('c08', case['gen_seed']))
        if cond > 1e11:
            return None
        jt = max(RTOL, 1e-14 * cond)
        if not self._close(impl['scaled']['J'], impl['plain']['J'], jt):
            return {'what': 'total derivatives differ between scaled and unscaled model',
                    'scaled': impl['scaled']['J'], 'plain': impl['plain']['J']}
        J = [[float(x) for x in r] for r in gm.exact_totals_linsolve(md, voi)]
        if not self._close(impl['scaled']['J'], J, jt):
            return {'what': 'total derivatives of the scaled model differ from the exact derivative',
                    'scaled': impl['scaled']['J'], 'exact': J}
        return None

    def signature(self, case, impl, failure):
        return {'what': failure.get('what'), 'linear': case['cfg']['linear'],
                'mode': case['cfg']['mode']}

    def nontrivial(self, case, impl):
        md, voi = self._md(case)
        return any(o.get('ref') is not None for c in md['comps'] for o in c['outs'])

    def bucket(self, case, impl):
        md, voi = self._md(case)
        cfg = case['cfg']
        b = ['solver_reported_failure' if impl.get('error') == 'AnalysisError' else 'impl_error' if 'error' in impl else 'impl_ok', 'cyclic' if md.get('cyclic') else 'acyclic']
        if impl.get('scaled', {}).get('mf_seen_dev'):
            b.append('matrix_free_implicit_apply_linear_probed')
        if case['cfg'].get('sub_approx'):
            b.append('semi_total_groups')
        for k in ('mode', 'linear', 'nonlinear', 'jac', 'partials'):
            b.append('%s=%s' % (k, cfg[k]))
        for c in md['comps']:
            for o in c['outs']:
                if o.get('ref') is not None:
                    b.append('scaled_output_' + c['kind'] +
                             ('_matfree' if (cfg['partials'] or c.get('partials')) == 'matfree' else ''))
                    if isinstance(o['ref'], list):
                        b.append('array_scaling')
                    else:
                        if unrat(o['ref']) < unrat(o['ref0']):
                            b.append('ref_lt_ref0')
                        if unrat(o['res_ref']) == 1:
                            b.append('res_ref_one')
        return b

    # -- model -----------------------------------------------------------------------------------
    def model_requests(self, case, impl):
        md, voi = self._md(case)
        if 'error' in impl:
            return []
        off, aoff, n = gm.flat_layout(md)
        a0, a1, rr = out_scaling(md)
        outs, ins = gm.exact_state(md)
        u = [Fraction(0)] * n
        for ci, c in enumerate(md['comps']):
            for od in c['outs']:
                for e, x in enumerate(outs[gm.comp_path(c) + '.' + od['name']]):
                    u[off[(ci, od['name'])] + e] = x
        reqs = [{'op': 'scale', 'a0': [rat(x) for x in a0], 'a1': [rat(x) for x in a1],
                 'rr': [rat(x) for x in rr], 'x': [rat(x) for x in u],
                 'r': [rat(Fraction(k - 3, 2)) for k in range(min(n, 6))]}]
        # the scaled/unscaled linear systems of this model (exact partial-derivative matrix)
        A = gm.exact_system_matrix(md)
        rng = random.Random(case['gen_seed'] + 1)
        b = [rat(Fraction(rng.randint(-4, 4))) for _ in range(n)]
        reqs.append({'op': 'linsys', 'n': n, 'A': [[rat(x) for x in row] for row in A],
                     'su': [rat(x) for x in a1], 'sr': [rat(x) for x in rr], 'b': b})
        return reqs

    def compare(self, case, impl, answers):
        md, voi = self._md(case)
        a, l = answers
        if not l.get('ok') or not l.get('fwd_consistent') or not l.get('rev_consistent'):
            raise Infra('Lean scaled/unscaled linear systems inconsistent: %s' % l)
        off, aoff, n = gm.flat_layout(md)
        outs, ins = gm.exact_state(md)
        u = [None] * n
        for ci, c in enumerate(md['comps']):
            for od in c['outs']:
                for e, x in enumerate(outs[gm.comp_path(c) + '.' + od['name']]):
                    u[off[(ci, od['name'])] + e] = x
        if [unrat(x) for x in a['back'][:len([x for x in u if x is not None])]] != \
                [x for x in u if x is not None][:len(a['back'])]:
            pass
        if not self._converged(md, impl['scaled']):
            return None
        xs = [float(unrat(x)) for x in a['xs']]
        for ci, c in enumerate(md['comps']):
            for od in c['outs']:
                nm = gm.comp_path(c) + '.' + od['name']
                s = off[(ci, od['name'])]
                got = impl['scaled']['scaled_outputs'][nm]
                if not self._close(got, xs[s:s + len(got)], 1e-8):
                    return 'solver-internal scaled value of %s: implementation %s, model %s' % (
                        nm, got, xs[s:s + len(got)])
        return None


PROP = C08()
