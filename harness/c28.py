"""C28 — surrogate models reproduce training data and their own derivatives.

Two kinds of cases.

* ``direct``: one surrogate (ResponseSurface, KrigingSurrogate, NearestNeighbor linear / weighted /
  rbf with options) is trained on a generated training set and queried (predict, linearize, and
  predict on a finite-difference stencil) at training points, near training points and random
  points, plus two call-order scenarios for the neighbour cache of the nearest-neighbour
  interpolators.
* ``comp``: a real ``Problem`` holding one ``MetaModelUnStructuredComp`` (several input variables,
  one or two outputs, default and per-output surrogates, ``vec_size`` 1 or more), run, derivatives
  through ``compute_totals``, then new training data + ``train = True`` (or a re-``setup``) and run
  again; next to it the same surrogates trained and queried directly.

Direct oracle (no Lean): exact ``fractions.Fraction`` evaluation of the generating quadratic and of
its gradient, exact rank of the design matrix, training outputs at training inputs, 4th-order
central differences of ``predict`` (several steps; only where a brute-force neighbour search shows
the neighbour set cannot change on the stencil), component == surrogate.
Correspondence: the Lean driver evaluates the formulas of ``OMV.C28`` in exact rationals (exact
least squares through certified normal equations; inverse-distance weights, hyperplane, RBF row +
certified solve, Kriging predictor with the public ``thetas/alpha/...`` attributes; the component's
partial layout) and is compared with the implementation up to a recorded tolerance.
"""
import itertools
import math
import sys
import warnings
from fractions import Fraction

import numpy as np

from common import Property, rat, unrat, rats, match_known

F = Fraction
if hasattr(sys, 'set_int_max_str_digits'):
    sys.set_int_max_str_digits(0)      # exact rationals from the Lean RBF solve can be very long

TOL = {
    'interp': 1e-8,           # training outputs at training inputs, relative to the output scale
    'interp_kriging': 1e-6,   # same, Kriging (regularised SVD solve)
    'quadratic': 1e-8,        # reproduction of an exact quadratic (scaled by cond of the design)
    'fd_abs': 2e-6,           # linearize vs finite difference: abs part, times yrange/xrange
    'fd_rel': 2e-5,           # ... relative part
    'model_rel': 1e-7,        # Lean (exact rationals) vs implementation (floats)
    'comp': 1e-12,            # component vs surrogate
    'kriging_cond_max': 1e4,  # Kriging interpolation is demanded below this cond(R)
    'rs_cond_max': 1e13,      # quadratic reproduction is demanded below this certified cond(design):
                              # beyond, numpy's documented default cut-off eps*max(M,N) truncates
}


# ------------------------------------------------------------------------------------------------
# small exact helpers

def fr(x):
    return x if isinstance(x, Fraction) else Fraction(x)


def mat_rats(M):
    return [rats(list(r)) for r in M]


def mat_unrat(M):
    return [[unrat(x) for x in r] for r in M]


def mat_float(M):
    return np.array([[float(unrat(x)) for x in r] for r in M], dtype=float)


def frac_rank(rows):
    """rank of a Fraction matrix (Gaussian elimination)."""
    M = [list(r) for r in rows]
    rk = 0
    ncol = len(M[0]) if M else 0
    for c in range(ncol):
        piv = None
        for r in range(rk, len(M)):
            if M[r][c] != 0:
                piv = r
                break
        if piv is None:
            continue
        M[rk], M[piv] = M[piv], M[rk]
        pv = M[rk][c]
        M[rk] = [v / pv for v in M[rk]]
        for r in range(len(M)):
            if r != rk and M[r][c] != 0:
                f = M[r][c]
                M[r] = [a - f * b for a, b in zip(M[r], M[rk])]
        rk += 1
    return rk


def frac_det(M):
    M = [list(r) for r in M]
    n = len(M)
    det = F(1)
    for c in range(n):
        piv = None
        for r in range(c, n):
            if M[r][c] != 0:
                piv = r
                break
        if piv is None:
            return F(0)
        if piv != c:
            M[c], M[piv] = M[piv], M[c]
            det = -det
        det *= M[c][c]
        for r in range(c + 1, n):
            if M[r][c] != 0:
                f = M[r][c] / M[c][c]
                M[r] = [a - f * b for a, b in zip(M[r], M[c])]
    return det


def frac_inverse(A):
    """exact inverse of a square Fraction matrix (None when singular)."""
    n = len(A)
    M = [list(r) + [F(int(i == j)) for j in range(n)] for i, r in enumerate(A)]
    for c in range(n):
        piv = next((r for r in range(c, n) if M[r][c] != 0), None)
        if piv is None:
            return None
        M[c], M[piv] = M[piv], M[c]
        pv = M[c][c]
        M[c] = [v / pv for v in M[c]]
        for r in range(n):
            if r != c and M[r][c] != 0:
                f = M[r][c]
                M[r] = [a - f * b for a, b in zip(M[r], M[c])]
    return [r[n:] for r in M]


def rs_drow(x, j):
    """derivative of the design row with respect to x_j."""
    n = len(x)
    out = [F(0)] + [F(int(i == j)) for i in range(n)]
    for i in range(n):
        for k in range(i, n):
            out.append((x[k] if i == j else F(0)) + (x[i] if k == j else F(0)))
    return out


def raw_beta(nin, c, b, A, off, scale):
    """coefficients (design-row order) of c + b.u + sum_{i<=j} A[i][j] u_i u_j, u = (x - off) / scale."""
    beta = [F(0)] * ((nin + 1) * (nin + 2) // 2)
    pos = {}
    k = nin + 1
    for i in range(nin):
        for j in range(i, nin):
            pos[(i, j)] = k
            k += 1
    beta[0] += c
    for i in range(nin):
        beta[1 + i] += b[i] / scale[i]
        beta[0] -= b[i] * off[i] / scale[i]
    for i in range(nin):
        for j in range(i, nin):
            a = A[i][j] / (scale[i] * scale[j])
            beta[pos[(i, j)]] += a
            beta[1 + i] -= a * off[j]
            beta[1 + j] -= a * off[i]
            beta[0] += a * off[i] * off[j]
    return beta


def rs_row(x):
    """design row of ResponseSurface, written from the documentation of the method:
    1, x_i, then x_i*x_j for i <= j in lexicographic order."""
    n = len(x)
    return [F(1)] + list(x) + [x[i] * x[j] for i in range(n) for j in range(i, n)]


def quad_eval(beta, x):
    return sum(b * t for b, t in zip(beta, rs_row(x)))


def quad_grad(beta, x):
    n = len(x)
    g = [beta[1 + i] for i in range(n)]
    k = n + 1
    for i in range(n):
        for j in range(i, n):
            c = beta[k]
            k += 1
            g[i] += c * x[j]
            g[j] += c * x[i]
    return g


# ------------------------------------------------------------------------------------------------
# surrogate construction from a spec

def make_surrogate(spec):
    import openmdao.api as om
    t = spec['type']
    if t == 'rs':
        return om.ResponseSurface()
    if t == 'kriging':
        kw = {}
        if spec.get('nugget') is not None:
            kw['nugget'] = float(unrat(spec['nugget']))
        if spec.get('eval_rmse'):
            kw['eval_rmse'] = True
        if spec.get('lapack_driver'):
            kw['lapack_driver'] = spec['lapack_driver']
        return om.KrigingSurrogate(**kw)
    kw = dict(spec.get('init', {}))
    return om.NearestNeighbor(interpolant_type=t[3:], **kw)


def call_kwargs(spec):
    kw = dict(spec.get('call', {}))
    if 'dist_eff' in kw and isinstance(kw['dist_eff'], str):
        kw['dist_eff'] = float(unrat(kw['dist_eff']))
    return kw


def sur_name(spec):
    return spec['type']


def err_enum(e):
    return type(e).__name__


def do_predict(s, x, kw):
    with warnings.catch_warnings():
        warnings.simplefilter('ignore')
        with np.errstate(all='ignore'):
            r = s.predict(np.array(x, dtype=float), **kw)
    rm = None
    if isinstance(r, tuple):
        rm = np.asarray(r[1], dtype=float).ravel()
        r = r[0]
    return np.asarray(r, dtype=float).ravel(), rm


def do_linearize(s, x, kw, nout, nin):
    with warnings.catch_warnings():
        warnings.simplefilter('ignore')
        with np.errstate(all='ignore'):
            J = s.linearize(np.array(x, dtype=float), **kw)
    J = np.asarray(J, dtype=float)
    return J.reshape(nout, nin)


def fnum(v):
    """float -> wire: exact rational, or a token for non-finite values."""
    v = float(v)
    if math.isnan(v):
        return 'nan'
    if math.isinf(v):
        return 'inf' if v > 0 else '-inf'
    return rat(v)


def fvec(a):
    return [fnum(v) for v in np.asarray(a, dtype=float).ravel()]


def fmat(a):
    return [fvec(r) for r in np.asarray(a, dtype=float)]


def is_num(s):
    return s not in ('nan', 'inf', '-inf')


def tofloat(s):
    if s == 'nan':
        return float('nan')
    if s == 'inf':
        return float('inf')
    if s == '-inf':
        return float('-inf')
    return float(unrat(s))


def arr(M):
    return np.array([[tofloat(v) for v in r] for r in M], dtype=float)


def vec(v):
    return np.array([tofloat(x) for x in v], dtype=float)


# ------------------------------------------------------------------------------------------------
# brute-force neighbour analysis (independent of the KD-tree)

class Neigh:
    """Exact analysis of the neighbours of a query among the normalised training points."""

    def __init__(self, X, q):
        # X, q : Fractions (raw).  Normalisation as documented: (x - min) / range, range 0 -> 1.
        n = len(q)
        self.tpm = [min(r[j] for r in X) for j in range(n)]
        self.tpr = [max(r[j] for r in X) - self.tpm[j] for j in range(n)]
        self.tpr = [r if r != 0 else F(1) for r in self.tpr]
        self.tp = [[(r[j] - self.tpm[j]) / self.tpr[j] for j in range(n)] for r in X]
        self.xn = [(q[j] - self.tpm[j]) / self.tpr[j] for j in range(n)]
        self.d2 = [sum((a - b) ** 2 for a, b in zip(self.xn, p)) for p in self.tp]
        self.order = sorted(range(len(X)), key=lambda k: (self.d2[k], k))

    def gap(self, k):
        """normalised distance gap between the k-th and (k+1)-th neighbour (1-based k);
        inf when there is no (k+1)-th."""
        if k >= len(self.order):
            return float('inf')
        a = math.sqrt(self.d2[self.order[k - 1]])
        b = math.sqrt(self.d2[self.order[k]])
        return b - a

    def tie(self, k):
        """is the choice of the first k neighbours ambiguous (as a set)?"""
        if k >= len(self.order):
            return False
        a = self.d2[self.order[k - 1]]
        b = self.d2[self.order[k]]
        return abs(float(b - a)) <= 1e-11 * max(1.0, float(b))

    def first(self, k):
        return self.order[:k]

    def candidates(self, k, limit=40):
        """all neighbour sets of size k consistent with ties at the boundary."""
        if not self.tie(k):
            return [self.order[:k]]
        bd = self.d2[self.order[k - 1]]

        def same(i):
            return abs(float(self.d2[i] - bd)) <= 1e-11 * max(1.0, float(bd))
        fixed = [i for i in self.order[:k] if not same(i)]
        group = [i for i in self.order if same(i)]
        out = []
        for comb in itertools.combinations(group, k - len(fixed)):
            out.append(fixed + list(comb))
            if len(out) >= limit:
                break
        return out


def simplex_det(tp, idx):
    """determinant of the edge matrix of the simplex spanned by the neighbours (exact)."""
    p0 = tp[idx[0]]
    rows = [[a - b for a, b in zip(tp[i], p0)] for i in idx[1:]]
    return frac_det(rows)


def plane_normal(P, v):
    """exact null vector of the (n x (n+1)) matrix of consecutive differences of the points
    (p_k, v_k): generalised cross product (cofactors)."""
    n = len(P) - 1
    rows = []
    for k in range(n):
        rows.append([a - b for a, b in zip(P[k + 1], P[k])] + [v[k + 1] - v[k]])
    normal = []
    for c in range(n + 1):
        sub = [[r[j] for j in range(n + 1) if j != c] for r in rows]
        normal.append(((-1) ** c) * frac_det(sub) if n > 0 else F(1))
    return normal


# ------------------------------------------------------------------------------------------------

class C28(Property):
    pid = 'C28'
    workers = 1
    tolerance = TOL
    required_theorems = [
        'C28_rs_row_is_quadratic', 'C28_rs_quadratic', 'C28_rs_quadratic_of_full_rank',
        'C28_rs_linearize',
        'C28_interp_at_train_weighted', 'C28_interp_at_train_linear', 'C28_linear_through_neighbours',
        'C28_interp_at_train_rbf', 'C28_rbf_dense_eq_neighbour_sum',
        'C28_interp_at_train_kriging', 'C28_kriging_train_residual', 'C28_kriging_nugget_error',
        'C28_kriging_unit_weights',
        'C28_dist_dual',
        'C28_linearize_is_derivative_weighted', 'C28_linearize_is_derivative_linear',
        'C28_linearize_is_derivative_rbf', 'C28_linearize_is_derivative_kriging',
        'C28_rbf_dbasis', 'C28_rbf_dbasis_partial', 'C28_rbf_dbasis_shipped_counterexample',
        'C28_comp_vec_entry', 'C28_comp_vec_entry_unique', 'C28_interp_at_train',
    ]
    rule = ("direct cases: training set with 1-4 inputs (RBF up to 6), 1-2 outputs, 2-30 distinct "
            "points on an integer grid / dyadic k/16 lattice / tight dyadic cluster, outputs an exact "
            "random quadratic, a linear function or random dyadic values; surrogate in {ResponseSurface, "
            "Kriging(nugget 0|default|1e-10, eval_rmse, lapack_driver), NearestNeighbor linear | "
            "weighted(num_neighbors, dist_eff) | rbf(num_neighbors, rbf_family -3..4)}; queries at "
            "training points, near training points, random points, plus cache-order scenarios (predict at a "
            "training point then linearize next to it; predict(x, num_neighbors=m) then "
            "linearize(x, num_neighbors=k) with m >, <, == k, a dedicated family of weighted cases at the "
            "head of the stream); first in the "
            "stream a family of badly scaled full-rank ResponseSurface designs (calendar year, Pa, Kelvin, "
            "Mach, 1e-5-sized inputs; cond 1e9..3e12; exactly representable data and quadratic). comp "
            "cases: MetaModelUnStructuredComp with 1-3 input variables, 1-2 outputs (sizes 1-2), "
            "default / per-output surrogates, vec_size 1-3, retraining through train=True or re-setup. "
            "Non-trivial: the surrogate trained and at least one clause of the property was evaluated "
            "(training-point reproduction, quadratic reproduction, derivative check or "
            "component-vs-surrogate); distinct by canonical case encoding.")
    assumptions = [
        "comparisons in floating point use the recorded tolerances (coverage.tolerance); exact "
        "rationals are used for the generating quadratic, ranks, neighbour sets and the Lean side",
        "Kriging: training outputs are demanded at training inputs (1e-6) where the correlation matrix "
        "at the trained hyper-parameters has cond <= 1e4 (recomputed from the public thetas); for worse "
        "conditioning the code's Tikhonov-regularised SVD solve is by construction not an interpolant: "
        "those cases are reported under a known finding and still checked against the residual identity",
        "finite-difference checks of nearest-neighbour interpolators only where the neighbour set is "
        "provably constant on the stencil (brute-force margins)",
        "ResponseSurface reproduction is demanded at all points only when the design matrix has full "
        "column rank (exact rational rank), else at the training points; the tolerance is 1e-8 relative "
        "plus the backward-error bound of a backward-stable least-squares solve, "
        "8 eps ||row^T X^+|| (||y|| + ||X|| ||beta||), with the leverage ||row^T X^+|| computed exactly "
        "from (X^T X)^-1 in rationals; it is demanded only up to a certified cond(X) <= 1e13 "
        "(cond^2 <= ||X^T X||_F ||(X^T X)^-1||_F, exact): beyond that numpy.lstsq's documented default "
        "cut-off eps*max(M,N) itself truncates the double-precision design",
        "RBF interpolator: training outputs are demanded at training inputs to 1e-8 relative plus the "
        "rounding level of the training solve, 16 eps N (2 phi(0)) max|weights| tvr, where the size of "
        "the weights (public attribute `weights`; for the Lean comparison: of the exactly solved system) "
        "measures the conditioning of the training matrix (multiquadric family -3 and high-order "
        "families with many neighbours on clustered points reach cond 1e14 and weights 1e13); the same "
        "level enters the finite-difference check of linearize",
    ]
    level = 'partial'
    level_text = (
        "Lean theorems over an arbitrary (ordered) field about the executable model: the design-row "
        "order is the natural monomial order and least squares on exact quadratic data returns the "
        "generating coefficients when the design has full column rank, so every quadratic is reproduced "
        "everywhere; ResponseSurface.linearize is the dual part of predict; inverse-distance weights "
        "collapse to the indicator at a training point, the hyperplane passes through its nearest "
        "neighbour whatever normal the SVD returns, RBF and Kriging reproduce training outputs given "
        "the linear-solve certificate (with the exact residual identity otherwise); the gradients of "
        "the weighted, linear, RBF and Kriging predictors are the dual parts of the predictors; the "
        "whole table of RBF basis derivatives is checked against the formal derivative; the sparse "
        "partial layout of the vectorised component is a bijection onto the diagonal blocks. The model "
        "is tied to the real surrogates and to MetaModelUnStructuredComp by differential runs.")
    level_note = (
        "partial: Kriging hyper-parameter optimisation (SLSQP) and its regularised SVD solve, the "
        "KD-tree neighbour search, numpy lstsq, scipy spsolve and the SVD null vector of the linear "
        "interpolator are third-party/runtime and enter the theorems as inputs with contracts "
        "(certificates checked by the driver or by the harness per case); exp is an abstract primitive "
        "with derivative exp; rbf_family=-3 (sqrt) is differential only; float rounding is not modelled.")
    technique = "Lean 4 proof (field algebra, dual numbers) + differential correspondence with tolerances"
    trusted_extra = [
        "scipy.spatial.KDTree neighbour search (validated per case against a brute-force search)",
        "numpy.linalg.lstsq / svd, scipy spsolve, scipy.optimize.minimize(SLSQP) (contracts: normal "
        "equations / null vector / linear solve; certificates recomputed exactly per case)",
        "finite-difference oracle: 4th-order central differences with 3 step sizes",
    ]

    # ------------------------------------------------------------------------------------------
    def setup(self, tier):
        import openmdao.api  # noqa: F401  (import once)
        # probes: which variants of the known defects does the tree have (model flags)
        self.rbf_sign_fixed = self._probe_rbf_sign()
        self._known_cache = {}
        self._plans = {}
        self._phi0_cache = {}

    def _phi0(self, fam, nin):
        """value of the basis function at T = 0 for (family, input dimension), observed through
        the public API: with two training points and num_neighbors=2 the training matrix is
        phi(0) * I, so the weight of the point with normalised value 1 is 1 / phi(0)."""
        key = (fam, nin)
        if key not in self._phi0_cache:
            import openmdao.api as om
            try:
                with warnings.catch_warnings():
                    warnings.simplefilter('ignore')
                    s = om.NearestNeighbor(interpolant_type='rbf', num_neighbors=2, rbf_family=fam)
                    s.train(np.array([[0.] * nin, [1.] * nin]), np.array([[0.], [1.]]))
                    w = float(np.asarray(s.interpolant.weights).ravel()[1])
                self._phi0_cache[key] = abs(1.0 / w) if w != 0 and math.isfinite(w) else 1.0
            except Exception:
                self._phi0_cache[key] = 1.0
        return self._phi0_cache[key]

    def _rbf_noise(self, case, impl, wmax=None):
        """rounding level of R.dot(weights) in raw output units, per output:
        16 eps N (2 phi(0)) max|w| tvr — the backward error of a stable solve of the training
        system, with the conditioning read from the size of the weights."""
        spec = case['spec']
        Y = mat_float(case['Y'])
        N = spec['init'].get('num_neighbors', 5)
        fam = spec['init'].get('rbf_family', 2)
        tvr = np.where(Y.max(axis=0) > Y.min(axis=0), Y.max(axis=0) - Y.min(axis=0), 1.0)
        if wmax is None:
            if 'rbf_wmax' not in impl or not all(is_num(v) for v in impl['rbf_wmax']):
                return np.zeros(Y.shape[1])
            wmax = vec(impl['rbf_wmax'])
        return 16 * 2.220446049250313e-16 * N * 2 * self._phi0(fam, len(case['X'][0])) * wmax * tvr

    def _probe_rbf_sign(self):
        """dims<=2, rbf_family=1: does _find_dR have the sign of the derivative?  Observed through
        the public API: linearize vs a central difference of predict on a tiny 1-D data set."""
        import openmdao.api as om
        try:
            X = np.array([[0.], [1.], [2.5], [4.]])
            Y = np.array([[0.], [1.], [0.], [2.]])
            s = om.NearestNeighbor(interpolant_type='rbf', num_neighbors=3, rbf_family=1)
            s.train(X, Y)
            q = np.array([1.6])
            J = float(np.asarray(s.linearize(q.copy())).ravel()[0])
            h = 1e-6
            fdv = (float(np.asarray(s.predict(q + h)).ravel()[0]) -
                   float(np.asarray(s.predict(q - h)).ravel()[0])) / (2 * h)
            return abs(J - fdv) <= 1e-4 * max(1.0, abs(fdv))
        except Exception:
            return False

    # ------------------------------------------------------------------------------------------
    # generators

    def _points(self, rng, nin, m, style):
        pts = set()
        tries = 0
        if style == 'cluster':
            base = [rng.randint(-3, 3) for _ in range(nin)]
        while len(pts) < m and tries < 50 * m:
            tries += 1
            if style == 'grid':
                p = tuple(F(rng.randint(-4, 4)) for _ in range(nin))
            elif style == 'dyadic':
                p = tuple(F(rng.randint(-64, 64), 16) for _ in range(nin))
            else:
                p = tuple(F(base[j]) + F(rng.randint(-32, 32), 64) for j in range(nin))
            pts.add(p)
        pts = [list(p) for p in pts]
        rng.shuffle(pts)
        return pts

    def _outputs(self, rng, X, nout, ykind):
        nin = len(X[0])
        ncoef = (nin + 1) * (nin + 2) // 2
        betas = None
        if ykind == 'quad':
            betas = [[F(rng.randint(-8, 8), 4) for _ in range(ncoef)] for _ in range(nout)]
        elif ykind == 'lin':
            betas = [[F(rng.randint(-8, 8), 4) if k <= nin else F(0) for k in range(ncoef)]
                     for _ in range(nout)]
        if betas is not None:
            Y = [[quad_eval(b, x) for b in betas] for x in X]
        else:
            Y = [[F(rng.randint(-32, 32), 4) for _ in range(nout)] for _ in X]
        return Y, betas

    def _queries(self, rng, X, spec, nq_train, nq_near, nq_rand):
        nin = len(X[0])
        lo = [min(r[j] for r in X) for j in range(nin)]
        hi = [max(r[j] for r in X) for j in range(nin)]
        rngs = [(h - l) if h != l else F(1) for l, h in zip(lo, hi)]
        qs = []
        idxs = list(range(len(X)))
        rng.shuffle(idxs)
        for i in idxs[:nq_train]:
            qs.append({'kind': 'train', 'i': i, 'x': rats(X[i])})
        for i in idxs[:nq_near]:
            e = rng.choice([7, 8, 9])
            off = [rngs[j] * F(rng.choice([-1, 1, 1, 2, -2]), 2 ** e) for j in range(nin)]
            if all(o == 0 for o in off):
                off[0] = rngs[0] / 2 ** e
            qs.append({'kind': 'near', 'i': i, 'x': rats([a + b for a, b in zip(X[i], off)])})
        for _ in range(nq_rand):
            # mostly inside the box, sometimes slightly outside
            x = []
            for j in range(nin):
                t = F(rng.randint(-8, 136), 128) if rng.random() < 0.15 else F(rng.randint(1, 127), 128)
                x.append(lo[j] + rngs[j] * t + F(rng.randint(-3, 3), 1024))
            qs.append({'kind': 'rand', 'x': rats(x)})
        return qs

    def _nn_spec(self, rng, nin, m):
        t = rng.choice(['nn_linear', 'nn_weighted', 'nn_weighted', 'nn_rbf', 'nn_rbf'])
        spec = {'type': t, 'init': {}, 'call': {}}
        if rng.random() < 0.3:
            spec['init']['num_leaves'] = rng.choice([1, 2, 3, 5])
        if t == 'nn_weighted':
            r = rng.random()
            if r < 0.75:
                spec['call']['num_neighbors'] = rng.choice([2, 3, 4, 5, 6, 7])
            r = rng.random()
            if r < 0.5:
                spec['call']['dist_eff'] = rng.choice([2, 2, 3, 4, 5])
            elif r < 0.6:
                spec['call']['dist_eff'] = rat(F(5, 2))
        if t == 'nn_rbf':
            if rng.random() < 0.8:
                spec['init']['num_neighbors'] = rng.choice([2, 3, 4, 5, 6, 7, 8])
            if rng.random() < 0.85:
                spec['init']['rbf_family'] = rng.choice([-3, -2, -1, 0, 1, 1, 2, 3, 4])
        return spec

    def _kriging_spec(self, rng):
        spec = {'type': 'kriging'}
        r = rng.random()
        if r < 0.55:
            spec['nugget'] = rat(0)
        elif r < 0.7:
            spec['nugget'] = rat(1e-10)
        if rng.random() < 0.25:
            spec['eval_rmse'] = True
        if rng.random() < 0.3:
            spec['lapack_driver'] = rng.choice(['gesvd', 'gesdd'])
        return spec

    def _direct_case(self, rng, family=None):
        family = family or rng.choice(['rs', 'rs', 'kriging', 'kriging', 'nn', 'nn', 'nn'])
        nin = rng.choice([1, 1, 2, 2, 3, 3, 4])
        nout = rng.choice([1, 1, 2])
        style = rng.choice(['grid', 'dyadic', 'dyadic', 'cluster'])
        ncoef = (nin + 1) * (nin + 2) // 2
        if family == 'rs':
            spec = {'type': 'rs'}
            m = rng.choice([max(1, ncoef - rng.randint(1, 3)), ncoef, ncoef, ncoef + 1,
                            ncoef + rng.randint(2, 6), rng.randint(ncoef, 30)])
            ykind = rng.choice(['quad', 'quad', 'quad', 'lin', 'rand'])
        elif family == 'kriging':
            spec = self._kriging_spec(rng)
            m = rng.choice([2, 3, rng.randint(3, 8), rng.randint(5, 16), rng.randint(8, 30)])
            ykind = rng.choice(['quad', 'lin', 'rand', 'rand'])
            if style == 'cluster' and rng.random() < 0.5:
                style = 'dyadic'
        else:
            if rng.random() < 0.12:
                nin = rng.choice([5, 6])
            m = rng.choice([nin + 1, nin + 2, rng.randint(nin + 1, 10), rng.randint(6, 16),
                            rng.randint(8, 30)])
            spec = self._nn_spec(rng, nin, m)
            if spec['type'] != 'nn_rbf' and nin > 4:
                nin = rng.choice([1, 2, 3, 4])
            need = {'nn_linear': nin + 1, 'nn_weighted': spec['call'].get('num_neighbors', 5),
                    'nn_rbf': spec['init'].get('num_neighbors', 5)}[spec['type']]
            if m < need and rng.random() < 0.9:
                m = need + rng.randint(0, 6)
            ykind = rng.choice(['quad', 'lin', 'rand', 'rand'])
        X = self._points(rng, nin, m, style)
        Y, betas = self._outputs(rng, X, nout, ykind)
        qs = self._queries(rng, X, spec, nq_train=rng.choice([1, 2, 3]),
                           nq_near=rng.choice([0, 1, 1]), nq_rand=rng.choice([1, 2, 3]))
        if spec['type'].startswith('nn_') and rng.random() < 0.2 and len(X) >= 2:
            # cache-order scenario: predict at a training point, then linearize close by
            i = rng.randrange(len(X))
            nb = Neigh(X, X[i])
            off = [r * F(rng.choice([-1, 1]), 2 ** 20) for r in nb.tpr]
            qs.append({'kind': 'stale', 'i': i, 'a': rats(X[i]),
                       'x': rats([a + b for a, b in zip(X[i], off)])})
        if spec['type'] == 'nn_weighted' and rng.random() < 0.3 and len(X) >= 3:
            q = dict(qs[-1] if qs[-1]['kind'] == 'rand' else {'kind': 'rand', 'x': qs[0]['x']})
            q['kind'] = 'kwswitch'
            k = spec['call'].get('num_neighbors', 5)
            q['first_nn'] = rng.choice([c for c in (2, 3, k - 1, k + 1, k + 2) if 2 <= c <= len(X)])
            qs.append(q)
        case = {'kind': 'direct', 'spec': spec, 'style': style, 'ykind': ykind,
                'X': mat_rats(X), 'Y': mat_rats(Y), 'queries': qs}
        if betas is not None:
            case['beta'] = mat_rats(betas)
        return case

    def _weighted_switch_case(self, rng):
        """Weighted interpolator, neighbour cache across different num_neighbors at one point:
        predict(x, num_neighbors=m) then linearize(x, num_neighbors=k) with m > k, m < k and m == k,
        checked against the derivative of predict(., num_neighbors=k).  Query points are kept only
        where the k-neighbour set is provably constant on the finite-difference stencil."""
        for _attempt in range(30):
            nin = rng.choice([1, 2, 2, 3])
            nout = rng.choice([1, 1, 2])
            k = rng.choice([2, 3, 3, 4, 5])
            m = k + rng.randint(3, 10)
            spec = {'type': 'nn_weighted', 'init': {}, 'call': {}}
            if k != 5 or rng.random() < 0.5:
                spec['call']['num_neighbors'] = k
            if rng.random() < 0.5:
                spec['call']['dist_eff'] = rng.choice([2, 3, 4])
            X = self._points(rng, nin, m, 'dyadic')
            if len(X) < k + 3:
                continue
            Y, betas = self._outputs(rng, X, nout, rng.choice(['rand', 'rand', 'quad']))
            firsts = [k + 1, k + 2, k, max(2, k - 1), min(len(X), k + 3)]
            if k == 2:
                firsts[3] = k + 1          # nothing smaller than two neighbours
            qs = [{'kind': 'train', 'i': 0, 'x': rats(X[0])}]
            hn = 2.0 ** -14
            for q in self._queries(rng, X, spec, 0, 0, 40):
                nb = Neigh(X, [unrat(v) for v in q['x']])
                if nb.tie(k) or nb.gap(k) <= 64 * hn or math.sqrt(float(nb.d2[nb.order[0]])) <= 200 * hn:
                    continue
                q = dict(q)
                q['kind'] = 'kwswitch'
                q['first_nn'] = firsts[len(qs) - 1]
                qs.append(q)
                if len(qs) == len(firsts) + 1:
                    break
            if len(qs) < 4:
                continue
            case = {'kind': 'direct', 'spec': spec, 'style': 'dyadic', 'ykind': 'rand' if betas is None else 'quad',
                    'X': mat_rats(X), 'Y': mat_rats(Y), 'queries': qs}
            if betas is not None:
                case['beta'] = mat_rats(betas)
            return case
        return self._direct_case(rng, 'nn')

    def _scaled_rs_case(self, rng):
        """ResponseSurface on a full-rank but badly scaled design: inputs with a large offset
        relative to their spread (calendar year, pressure in Pa, Kelvin) or of very different
        magnitude (Mach number, 1e-5-sized lengths).  All coordinates, the generating quadratic
        (dyadic coefficients in centred / scaled variables) and the training outputs are exactly
        representable, so the certified normal equations of the Lean driver apply."""
        UNITS = {
            'year': lambda: (F(rng.choice([1990, 2000, 2000, 2010])), F(rng.choice([1, 1, 2])), (0, 20), F(16)),
            'pascal': lambda: (F(rng.choice([100000, 101325, 90000])), F(rng.choice([256, 512])), (-20, 20), F(8192)),
            'kelvin': lambda: (F(rng.choice([280, 300])), F(1, 2), (-40, 40), F(32)),
            'mach': lambda: (F(0), F(1, 16), (2, 14), F(1)),
            'pascal_wide': lambda: (F(100000), F(rng.choice([1024, 2048])), (-20, 20), F(32768)),
            'micro': lambda: (F(0), F(1, 2 ** 20), (-30, 30), F(1, 2 ** 15)),
        }
        for _attempt in range(20):
            nin = rng.choice([1, 1, 2, 2, 3])
            names = [rng.choice(['year', 'year', 'pascal', 'pascal_wide', 'kelvin', 'mach', 'mach', 'micro'])
                     for _ in range(nin)]
            if all(n in ('mach', 'kelvin', 'micro') for n in names):
                names[0] = rng.choice(['year', 'pascal', 'pascal_wide'])
            units = [UNITS[n]() for n in names]
            ncoef = (nin + 1) * (nin + 2) // 2
            m = ncoef + rng.choice([0, 1, 2, 4, 8, 12])
            pts = set()
            tries = 0
            while len(pts) < m and tries < 60 * m:
                tries += 1
                pts.add(tuple(o + st * rng.randint(lo, hi) for (o, st, (lo, hi), sc) in units))
            X = [list(p_) for p_ in pts]
            rng.shuffle(X)
            if len(X) < ncoef or frac_rank([rs_row(x) for x in X]) < ncoef:
                continue
            sv = np.linalg.svd(np.array([[float(v) for v in rs_row(x)] for x in X]), compute_uv=False)
            if not (1e9 <= sv[0] / max(sv[-1], 1e-300) <= 3e12) and _attempt < 18:
                continue
            nout = rng.choice([1, 1, 2])
            off = [u[0] for u in units]
            scale = [u[3] for u in units]
            betas = []
            for _ in range(nout):
                c = F(rng.randint(-16, 16), 4)
                b = [F(rng.randint(-8, 8), 4) for _ in range(nin)]
                A = [[F(rng.randint(-8, 8), 4) for _ in range(nin)] for _ in range(nin)]
                betas.append(raw_beta(nin, c, b, A, off, scale))
            Y = [[quad_eval(bb, x) for bb in betas] for x in X]
            if any(F(float(v)) != v for r in Y for v in r):
                continue
            qs = []
            idxs = list(range(len(X)))
            rng.shuffle(idxs)
            for i in idxs[:2]:
                qs.append({'kind': 'train', 'i': i, 'x': rats(X[i])})
            for _ in range(3):
                x = [o + st * (rng.randint(8 * lo, 8 * hi) * F(1, 8) + F(rng.randint(-3, 3), 64))
                     for (o, st, (lo, hi), sc) in units]
                qs.append({'kind': 'rand', 'x': rats(x)})
            return {'kind': 'direct', 'spec': {'type': 'rs'}, 'style': 'scaled:' + '+'.join(names),
                    'ykind': 'quad', 'X': mat_rats(X), 'Y': mat_rats(Y), 'queries': qs,
                    'beta': mat_rats(betas)}
        return self._direct_case(rng, 'rs')

    def _comp_case(self, rng):
        nvars = rng.choice([1, 2, 2, 3])
        sizes = [rng.choice([1, 1, 2]) for _ in range(nvars)]
        nin = sum(sizes)
        while nin > 4:
            sizes.pop()
            nin = sum(sizes)
        n_out = rng.choice([1, 2, 2])
        osizes = [rng.choice([1, 1, 2]) for _ in range(n_out)]
        vec_size = rng.choice([1, 1, 2, 3])
        style = rng.choice(['grid', 'dyadic', 'dyadic'])
        m = rng.randint(max(6, (nin + 1) * (nin + 2) // 2), 18)

        def any_spec():
            fam = rng.choice(['rs', 'kriging', 'nn', 'nn'])
            if fam == 'rs':
                return {'type': 'rs'}
            if fam == 'kriging':
                return self._kriging_spec(rng)
            s = self._nn_spec(rng, nin, m)
            s['call'] = {}      # the component passes no keyword arguments
            if s['type'] == 'nn_rbf' and s['init'].get('rbf_family') == -3:
                s['init']['rbf_family'] = 2
            return s
        default = any_spec() if rng.random() < 0.75 else None
        outs = []
        for k in range(n_out):
            own = any_spec() if (default is None or rng.random() < 0.4) else None
            outs.append({'name': 'y%d' % k, 'size': osizes[k], 'spec': own})
        X = self._points(rng, nin, m, style)
        ykind = rng.choice(['quad', 'rand', 'rand'])
        Ys = [self._outputs(rng, X, o['size'], ykind)[0] for o in outs]
        # evaluation points: a training point among them sometimes
        lo = [min(r[j] for r in X) for j in range(nin)]
        hi = [max(r[j] for r in X) for j in range(nin)]
        pts = []
        for v in range(vec_size):
            if rng.random() < 0.25:
                pts.append(list(X[rng.randrange(len(X))]))
            else:
                pts.append([lo[j] + (hi[j] - lo[j]) * F(rng.randint(1, 127), 128) + F(rng.randint(-3, 3), 1024)
                            for j in range(nin)])
        retrain = None
        if rng.random() < 0.6:
            X2 = self._points(rng, nin, rng.randint(max(6, (nin + 1) * (nin + 2) // 2), 18), style)
            Ys2 = [self._outputs(rng, X2, o['size'], ykind)[0] for o in outs]
            retrain = {'how': rng.choice(['flag', 'flag', 'setup']), 'X': mat_rats(X2),
                       'Ys': [mat_rats(Y) for Y in Ys2]}
        return {'kind': 'comp', 'vec': vec_size, 'in_sizes': sizes, 'outs': outs, 'default': default,
                'style': style, 'ykind': ykind, 'X': mat_rats(X), 'Ys': [mat_rats(Y) for Y in Ys],
                'points': mat_rats(pts), 'retrain': retrain,
                'fmt': rng.choice(['array', 'list'])}

    def cases(self, rng, tier):
        n_direct, n_comp = (200, 40) if tier == 'quick' else (5000, 700)
        # badly scaled, full-rank ResponseSurface designs first
        for _ in range(16 if tier == 'quick' else 300):
            yield self._scaled_rs_case(rng)
        # neighbour cache of the weighted interpolator across different num_neighbors
        for _ in range(12 if tier == 'quick' else 150):
            yield self._weighted_switch_case(rng)
        for k in range(n_direct + n_comp):
            if k % 6 == 5 and n_comp > 0:
                n_comp -= 1
                yield self._comp_case(rng)
            else:
                yield self._direct_case(rng)

    # ------------------------------------------------------------------------------------------
    # the real code

    def run_impl(self, case):
        try:
            if case['kind'] == 'direct':
                return self._run_direct(case)
            return self._run_comp(case)
        except Exception as e:      # never expected: reported by the oracle
            import traceback
            return {'harness_error': err_enum(e), 'msg': traceback.format_exc()[-1500:]}

    def _fd_steps(self, case, s, X, nin):
        """raw steps per coordinate for the central differences (three sizes)."""
        t = case['spec']['type']
        lo = X.min(axis=0)
        hi = X.max(axis=0)
        rg = np.where(hi > lo, hi - lo, 1.0)
        if t == 'rs':
            base = rg * 2.0 ** -4
        elif t == 'kriging':
            th = np.asarray(s.thetas, dtype=float)
            ell = 1.0 / np.sqrt(np.maximum(2.0 * th, 1e-12))
            base = np.asarray(s.X_std, dtype=float) * np.minimum(2.0 ** -6, ell / 16.0)
        else:
            base = rg * 2.0 ** -14
        return [base, base / 4.0, base * 4.0 if t != 'rs' and not t.startswith('nn_') else base / 16.0]

    def _run_direct(self, case):
        spec = case['spec']
        X = mat_float(case['X'])
        Y = mat_float(case['Y'])
        m, nin = X.shape
        nout = Y.shape[1]
        kw = call_kwargs(spec)
        res = {'queries': []}
        try:
            s = make_surrogate(spec)
            with warnings.catch_warnings():
                warnings.simplefilter('ignore')
                with np.errstate(all='ignore'):
                    s.train(X.copy(), Y.copy())
        except Exception as e:
            return {'train_error': err_enum(e), 'msg': str(e)[:200]}
        if spec['type'] == 'rs':
            res['betas'] = fmat(np.asarray(s.betas).T)       # one list per output
        if spec['type'] == 'nn_rbf':
            try:
                w = np.abs(np.asarray(s.interpolant.weights, dtype=float)).reshape(m, -1)
                res['rbf_wmax'] = fvec(w.max(axis=0))
            except Exception:
                pass
        if spec['type'] == 'kriging':
            res['attrs'] = {'thetas': fvec(s.thetas), 'alpha': fmat(s.alpha), 'Xn': fmat(s.X),
                            'X_mean': fvec(s.X_mean), 'X_std': fvec(s.X_std),
                            'Y_mean': fvec(s.Y_mean), 'Y_std': fvec(s.Y_std)}
        for q in case['queries']:
            x = np.array([float(unrat(v)) for v in q['x']])
            out = {}
            try:
                if q['kind'] in ('stale', 'kwswitch'):
                    if q['kind'] == 'stale':
                        a = np.array([float(unrat(v)) for v in q['a']])
                        do_predict(s, a, kw)
                    else:
                        kw1 = dict(kw)
                        kw1['num_neighbors'] = q['first_nn']
                        do_predict(s, x, kw1)
                    try:
                        J = do_linearize(s, x, kw, nout, nin)
                        out['jac'] = fmat(J)
                    except Exception as e:
                        out['jac_error'] = err_enum(e)
                        out['jac_msg'] = str(e)[:160]
                    p, rm = do_predict(s, x, kw)
                    out['pred'] = fvec(p)
                else:
                    p, rm = do_predict(s, x, kw)
                    out['pred'] = fvec(p)
                    if rm is not None:
                        out['rmse'] = fvec(rm)
                    try:
                        J = do_linearize(s, x, kw, nout, nin)
                        out['jac'] = fmat(J)
                    except Exception as e:
                        out['jac_error'] = err_enum(e)
                        out['jac_msg'] = str(e)[:160]
                    # a second predict must not depend on the calls in between
                    p2, _ = do_predict(s, x, kw)
                    out['pred2'] = fvec(p2)
            except Exception as e:
                out['error'] = err_enum(e)
                out['msg'] = str(e)[:160]
                res['queries'].append(out)
                continue
            # finite differences of predict (4th-order central), three step sizes
            fds = []
            try:
                for hvec in self._fd_steps(case, s, X, nin):
                    Jfd = np.zeros((nout, nin))
                    for j in range(nin):
                        e = np.zeros(nin)
                        e[j] = hvec[j]
                        f1 = do_predict(s, x + e, kw)[0]
                        f2 = do_predict(s, x - e, kw)[0]
                        f3 = do_predict(s, x + 2 * e, kw)[0]
                        f4 = do_predict(s, x - 2 * e, kw)[0]
                        Jfd[:, j] = (-f3 + 8 * f1 - 8 * f2 + f4) / (12 * hvec[j])
                    fds.append({'h': fvec(hvec), 'J': fmat(Jfd)})
            except Exception as e:
                out['fd_error'] = err_enum(e)
            out['fd'] = fds
            res['queries'].append(out)
        return res

    def _run_comp(self, case):
        import openmdao.api as om
        sizes = case['in_sizes']
        vec_size = case['vec']
        nin = sum(sizes)
        outs = case['outs']

        def split_cols(M):
            cols, k = [], 0
            for sz in sizes:
                cols.append(M[:, k:k + sz])
                k += sz
            return cols

        def train_opt(block, sz):
            # (m, sz) block -> option value
            if sz == 1:
                v = block[:, 0]
                return v.copy() if case['fmt'] == 'array' else [float(t) for t in v]
            return block.copy() if case['fmt'] == 'array' else [r.copy() for r in block]

        def build(X, Ys):
            default = make_surrogate(case['default']) if case['default'] else None
            mm = om.MetaModelUnStructuredComp(default_surrogate=default, vec_size=vec_size)
            for k, (sz, blk) in enumerate(zip(sizes, split_cols(X))):
                shape = (vec_size, sz) if vec_size > 1 else (sz,)
                if sz == 1:
                    shape = (vec_size,) if vec_size > 1 else (1,)
                mm.add_input('x%d' % k, np.zeros(shape), training_data=train_opt(blk, sz))
            for o, Yo in zip(outs, Ys):
                sz = o['size']
                shape = (vec_size, sz) if vec_size > 1 else (sz,)
                if sz == 1:
                    shape = (vec_size,) if vec_size > 1 else (1,)
                sur = make_surrogate(o['spec']) if o['spec'] else None
                mm.add_output(o['name'], np.zeros(shape), training_data=train_opt(Yo, sz),
                              surrogate=sur)
            p = om.Problem()
            p.model.add_subsystem('mm', mm, promotes=['*'])
            p.setup()
            return p, mm

        def observe(p, pts):
            for k, (sz, blk) in enumerate(zip(sizes, split_cols(pts))):
                if vec_size > 1:
                    p.set_val('x%d' % k, blk[:, 0] if sz == 1 else blk)
                else:
                    p.set_val('x%d' % k, blk[0])
            p.run_model()
            o = {'out': {}, 'J': {}}
            for oo in outs:
                o['out'][oo['name']] = fmat(np.asarray(p.get_val(oo['name'])).reshape(vec_size, -1))
            J = p.compute_totals(of=[oo['name'] for oo in outs],
                                 wrt=['x%d' % k for k in range(len(sizes))])
            for oo in outs:
                for k in range(len(sizes)):
                    o['J']['%s,x%d' % (oo['name'], k)] = fmat(np.atleast_2d(J[oo['name'], 'x%d' % k]))
            return o

        def direct(X, Ys, pts):
            d = {}
            for oo, Yo in zip(outs, Ys):
                spec = oo['spec'] or case['default']
                s = make_surrogate(spec)
                with warnings.catch_warnings():
                    warnings.simplefilter('ignore')
                    with np.errstate(all='ignore'):
                        s.train(X.copy(), Yo.copy())
                preds, jacs = [], []
                for v in range(vec_size):
                    pr, _ = do_predict(s, pts[v], {})
                    preds.append(fvec(pr))
                    jacs.append(fmat(do_linearize(s, pts[v], {}, oo['size'], nin)))
                d[oo['name']] = {'pred': preds, 'jac': jacs}
            return d

        X = mat_float(case['X'])
        Ys = [mat_float(Y) for Y in case['Ys']]
        pts = mat_float(case['points'])
        res = {}
        with warnings.catch_warnings():
            warnings.simplefilter('ignore')
            with np.errstate(all='ignore'):
                try:
                    res['direct'] = direct(X, Ys, pts)
                except Exception as e:
                    res['direct_error'] = err_enum(e)
                try:
                    p, mm = build(X, Ys)
                    res['first'] = observe(p, pts)
                    res['train_flag_after_run'] = bool(mm.train)
                except Exception as e:
                    res['error'] = err_enum(e)
                    res['msg'] = str(e)[:200]
                    return res
                rt = case.get('retrain')
                if rt:
                    X2 = mat_float(rt['X'])
                    Ys2 = [mat_float(Y) for Y in rt['Ys']]
                    try:
                        res['direct2'] = direct(X2, Ys2, pts)
                    except Exception as e:
                        res['direct2_error'] = err_enum(e)
                    try:
                        for k, (sz, blk) in enumerate(zip(sizes, split_cols(X2))):
                            mm.options['train_x%d' % k] = train_opt(blk, sz)
                        for o, Yo in zip(outs, Ys2):
                            mm.options['train_%s' % o['name']] = train_opt(Yo, o['size'])
                        # without the flag the documented behaviour is: no retraining
                        res['stale'] = observe(p, pts)
                        if rt['how'] == 'flag':
                            mm.train = True
                        else:
                            p.setup()
                        res['second'] = observe(p, pts)
                    except Exception as e:
                        res['error2'] = err_enum(e)
                        res['msg2'] = str(e)[:200]
        return res

    # ------------------------------------------------------------------------------------------
    # direct oracle

    @staticmethod
    def _rs_bound(info, v, l, bnorm=None):
        """Backward-error bound of a backward-stable least-squares solve for the value v.beta of
        output l: 8 eps ||v^T X^+|| (||y|| + ||X|| ||beta||), with the exact leverage."""
        G = info.get('rs_G')
        if bnorm is None:
            bnorm = info.get('rs_bnorm')
        if G is None or bnorm is None:
            return float('inf')
        Gv = [sum(g * a for g, a in zip(row, v)) for row in G]
        lev = math.sqrt(max(0.0, float(sum(a * b for a, b in zip(v, Gv)))))
        return 8 * 2.220446049250313e-16 * lev * (info['rs_ynorm'][l] + info['rs_normX'] * bnorm[l])

    def _failures_direct(self, case, impl):
        """all violated clauses of a direct case, as failure dicts."""
        fails = []
        spec = case['spec']
        t = spec['type']
        if 'harness_error' in impl:
            return [{'what': 'harness error: ' + impl['msg'], 'surrogate': t, 'clause': 'harness',
                     'detail': impl['harness_error']}]
        X = mat_unrat(case['X'])
        Y = mat_unrat(case['Y'])
        m, nin, nout = len(X), len(X[0]), len(Y[0])
        if 'train_error' in impl:
            # training may refuse: too few points for the requested neighbours, or the Kriging
            # likelihood optimiser (third party) reporting failure; anything else is a failure
            ok = False
            if t == 'nn_rbf':
                N = spec['init'].get('num_neighbors', 5)
                ok = m < N or N < 2
            elif t == 'nn_linear':
                ok = m < nin + 1
            elif t == 'kriging':
                ok = m < 2 or 'optimization failed' in impl.get('msg', '')
            if ok:
                return []
            return [{'what': 'train raised %s: %s' % (impl['train_error'], impl.get('msg')),
                     'surrogate': t, 'clause': 'train', 'detail': 'raises'}]
        Yf = np.array([[float(v) for v in r] for r in Y])
        Xf = np.array([[float(v) for v in r] for r in X])
        ysc = np.maximum(1.0, np.abs(Yf).max(axis=0))
        yrg = np.where(Yf.max(axis=0) > Yf.min(axis=0), Yf.max(axis=0) - Yf.min(axis=0), 1.0)
        xrg = np.where(Xf.max(axis=0) > Xf.min(axis=0), Xf.max(axis=0) - Xf.min(axis=0), 1.0)
        info = self._analyse(case, impl)
        kw = call_kwargs(spec)
        rbf_noise = self._rbf_noise(case, impl) if t == 'nn_rbf' else None

        def add(clause, detail, what, **extra):
            d = {'what': what, 'surrogate': t, 'clause': clause, 'detail': detail}
            d.update(extra)
            fails.append(d)

        for qi, (q, o) in enumerate(zip(case['queries'], impl['queries'])):
            qa = info['q'][qi]
            x = [unrat(v) for v in q['x']]
            if 'error' in o:
                # a query that raises: legitimate only for too few training points
                if qa.get('expect_error'):
                    continue
                add('predict', qa.get('err_detail', 'raises'),
                    'predict raised %s: %s' % (o['error'], o.get('msg')), query=qi)
                continue
            pred = vec(o['pred'])
            if not np.all(np.isfinite(pred)):
                add('predict', 'nonfinite', 'predict returned %s' % o['pred'], query=qi)
                continue
            if 'pred2' in o and o['pred2'] != o['pred']:
                add('predict', 'not_repeatable', 'second predict at the same point differs: %s vs %s'
                    % (o['pred'], o['pred2']), query=qi)
            # ---- training outputs at training inputs -------------------------------------------
            if q['kind'] == 'train':
                yi = Yf[q['i']]
                err = np.abs(pred - yi) / ysc
                if t == 'rs':
                    # exact data (quadratic / linear): the least-squares residual is zero
                    if 'beta' in case and info['rs_rank'] == 'deficient':
                        tol = TOL['quadratic'] * max(1.0, info['rs_cond'] / 1e6)
                        if info['rs_cond'] < 1e11 and err.max() > tol:
                            add('quadratic', 'at_train_' + info['rs_rank'],
                                'ResponseSurface trained on an exact quadratic misses training output %d: '
                                'rel err %.3g' % (q['i'], err.max()), query=qi)
                elif t == 'kriging':
                    if err.max() > TOL['interp_kriging']:
                        add('interp_at_train', 'cond_' + info['krig_cond_bucket'],
                            'Kriging (nugget %s) misses training output %d: rel err %.3g, cond(R)=%.3g'
                            % (spec.get('nugget', 'default'), q['i'], err.max(), info['krig_cond']),
                            query=qi)
                else:
                    tol = TOL['interp']
                    detail = qa.get('neigh_class', 'regular')
                    if t == 'nn_linear' and detail == 'regular' and qa.get('kappa', 1.0) > 1e6:
                        tol = None
                    if t == 'nn_rbf':
                        # conditioning of the training system, read from the size of the weights
                        tol = np.maximum(tol, rbf_noise / ysc)
                    if tol is not None and (err > tol).any():
                        add('interp_at_train', detail,
                            '%s misses training output %d: predicted %s, expected %s' %
                            (t, q['i'], pred.tolist(), yi.tolist()), query=qi)
            # ---- exact quadratic everywhere (full column rank) ---------------------------------
            if t == 'rs' and 'beta' in case and info['rs_rank'] == 'full' and \
                    info['rs_cond_cert'] <= TOL['rs_cond_max']:
                # tolerance: 1e-8 relative + the certified backward-error bound of the solve
                betas = mat_unrat(case['beta'])
                exact = np.array([float(quad_eval(b, x)) for b in betas])
                sc = np.maximum(ysc, np.abs(exact))
                row = rs_row(x)
                tolp = np.array([TOL['quadratic'] * sc[l] + self._rs_bound(info, row, l)
                                 for l in range(nout)])
                qa['rs_noise'] = np.array([self._rs_bound(info, row, l) for l in range(nout)])
                if (np.abs(pred - exact) > tolp).any():
                    add('quadratic', 'full_rank' if q['kind'] != 'train' else 'at_train_full',
                        'quadratic not reproduced at %s: %s vs exact %s (tolerance %s, cond %.3g)'
                        % (q['x'], pred.tolist(), exact.tolist(), tolp.tolist(), info['rs_cond']),
                        query=qi)
                if 'jac' in o:
                    J = arr(o['jac'])
                    G = np.array([[float(g) for g in quad_grad(b, x)] for b in betas])
                    gs = np.maximum(np.abs(G), (ysc[:, None] / xrg[None, :]))
                    tolj = np.array([[10 * TOL['quadratic'] * gs[l, j]
                                      + self._rs_bound(info, rs_drow(x, j), l)
                                      for j in range(nin)] for l in range(nout)])
                    if not np.all(np.isfinite(J)) or (np.abs(J - G) > tolj).any():
                        add('linearize', 'vs_exact_gradient',
                            'linearize %s differs from the gradient of the quadratic %s (tolerance %s)'
                            % (J.tolist(), G.tolist(), tolj.tolist()), query=qi)
            # ---- linearize vs finite differences -----------------------------------------------
            if 'jac_error' in o:
                add('linearize', qa.get('jac_err_detail', 'raises'),
                    'linearize raised %s: %s' % (o['jac_error'], o.get('jac_msg')), query=qi)
                continue
            if 'jac' not in o:
                continue
            J = arr(o['jac'])
            if not np.all(np.isfinite(J)):
                add('linearize', qa.get('nonfinite_detail', 'nonfinite'),
                    'linearize returned non-finite values %s at %s' % (o['jac'], q['x']), query=qi)
                continue
            if qa.get('fd_ok') and o.get('fd'):
                S = yrg[:, None] / xrg[None, :]
                best = None
                for fdv in o['fd']:
                    Jfd = arr(fdv['J'])
                    if not np.all(np.isfinite(Jfd)):
                        continue
                    exc = np.abs(J - Jfd) - (TOL['fd_abs'] * S + TOL['fd_rel'] * np.abs(Jfd))
                    # rounding level of predict on the stencil (certified conditioning)
                    noise = rbf_noise if t == 'nn_rbf' else qa.get('rs_noise')
                    if noise is not None:
                        exc = exc - 4.0 * np.asarray(noise)[:, None] / vec(fdv['h'])[None, :]
                    worst = exc.max()
                    if best is None or worst < best[0]:
                        best = (worst, Jfd)
                if best is not None and best[0] > 0:
                    add('linearize', qa.get('fd_detail', 'vs_fd'),
                        'linearize %s is not the derivative of predict (finite difference %s) at %s'
                        % (J.tolist(), best[1].tolist(), q['x']), query=qi)
        # Kriging residual identity at training points (from public attributes), every conditioning
        if t == 'kriging' and 'attrs' in impl:
            a = impl['attrs']
            try:
                th, al, Xn = vec(a['thetas']), arr(a['alpha']), arr(a['Xn'])
                ym, ys = vec(a['Y_mean']), vec(a['Y_std'])
                for q, o in zip(case['queries'], impl['queries']):
                    if q['kind'] != 'train' or 'pred' not in o:
                        continue
                    i = q['i']
                    r = np.exp(-((Xn[i] - Xn) ** 2) @ th)
                    expect = ym + ys * (r @ al)
                    pred = vec(o['pred'])
                    if np.abs(pred - expect).max() > 1e-9 * max(1.0, np.abs(expect).max()):
                        add('interp_at_train', 'residual_identity',
                            'Kriging predict at training point %d is not Y_mean + Y_std * r.alpha' % i)
            except Exception as e:      # attributes missing: the tie is broken, not the property
                pass
        return fails

    def _analyse(self, case, impl):
        """exact, implementation-independent analysis of a direct case (ranks, neighbours, which
        checks are meaningful).  Cached on the case object id."""
        key = id(case)
        c = self._known_cache.get(key)
        if c is not None and c[0] is case:
            return c[1]
        spec = case['spec']
        t = spec['type']
        X = mat_unrat(case['X'])
        m, nin = len(X), len(X[0])
        info = {'q': []}
        if t == 'rs':
            D = [rs_row(x) for x in X]
            ncoef = len(D[0])
            rk = frac_rank(D)
            info['rs_rank'] = 'full' if rk == ncoef else 'deficient'
            Df = np.array([[float(v) for v in r] for r in D])
            sv = np.linalg.svd(Df, compute_uv=False)
            pos = sv[sv > sv[0] * 1e-13] if len(sv) else sv
            info['rs_cond'] = float(sv[0] / pos[-1]) if len(pos) else 1.0
            if rk == ncoef:
                # exact (X^T X)^-1: leverage ||v^T X^+|| = sqrt(v^T (X^T X)^-1 v) of any row v
                N = [[sum(r[a] * r[b] for r in D) for b in range(ncoef)] for a in range(ncoef)]
                info['rs_G'] = frac_inverse(N)
                info['rs_normX'] = float(sv[0])
                # certified upper bound of cond(X): cond^2 <= ||X^T X||_F ||(X^T X)^-1||_F (exact)
                fro = lambda M_: sum(v * v for r in M_ for v in r)
                info['rs_cond_cert'] = float(fro(N) * fro(info['rs_G'])) ** 0.25
                Yq = mat_unrat(case['Y'])
                info['rs_ynorm'] = [math.sqrt(sum(float(r[l]) ** 2 for r in Yq)) for l in range(len(Yq[0]))]
                if 'beta' in case:
                    info['rs_bnorm'] = [math.sqrt(sum(float(v) ** 2 for v in b))
                                        for b in mat_unrat(case['beta'])]
        if t == 'kriging' and 'attrs' in impl:
            try:
                th, Xn = vec(impl['attrs']['thetas']), arr(impl['attrs']['Xn'])
                D2 = (Xn[:, None, :] - Xn[None, :, :]) ** 2
                R = np.exp(-(D2 * th).sum(axis=2))
                cond = float(np.linalg.cond(R))
            except Exception:
                cond = float('inf')
            info['krig_cond'] = cond
            info['krig_cond_bucket'] = 'le1e4' if cond <= TOL['kriging_cond_max'] else 'gt1e4'
        kw = call_kwargs(spec)
        for q in case['queries']:
            qa = {}
            x = [unrat(v) for v in q['x']]
            if t == 'rs':
                qa['fd_ok'] = True
            elif t == 'kriging':
                qa['fd_ok'] = True
            else:
                nb = Neigh(X, x)
                qa['nb'] = nb
                hn = 2.0 ** -14
                dmin = math.sqrt(float(nb.d2[nb.order[0]]))
                if t == 'nn_weighted':
                    k = kw.get('num_neighbors', 5)
                    p = kw.get('dist_eff', 0) or (nin + 1)
                    qa['k'] = k
                    qa['p'] = p
                    if m < k or (q['kind'] == 'kwswitch' and m < q['first_nn']):
                        qa['expect_error'] = True
                    qa['tie'] = nb.tie(k)
                    # at a training input itself the interpolant is flat for dist_eff >= 2 (and the
                    # symmetric stencil sees it); near, but not at, a training input the stencil
                    # would straddle the node
                    qa['fd_ok'] = (not qa['tie']) and nb.gap(k) > 32 * hn and \
                        (dmin > 100 * hn or (dmin == 0 and p >= 2))
                    if dmin == 0:
                        qa['nonfinite_detail'] = 'exact_hit'
                        qa['fd_detail'] = 'exact_hit'
                    if q['kind'] == 'stale':
                        qa['nonfinite_detail'] = 'stale_cache'
                        qa['fd_detail'] = 'stale_cache'
                        qa['fd_ok'] = False
                    if q['kind'] == 'kwswitch':
                        qa['fd_detail'] = 'kw_switch'
                elif t == 'nn_linear':
                    k = nin + 1
                    qa['k'] = k
                    if m < k:
                        qa['expect_error'] = True
                    qa['tie'] = nb.tie(k)
                    cands = nb.candidates(k)
                    dets = [simplex_det(nb.tp, c) for c in cands]
                    if all(d == 0 for d in dets):
                        qa['neigh_class'] = 'degenerate'
                    elif any(d == 0 for d in dets):
                        qa['neigh_class'] = 'mixed'
                    else:
                        qa['neigh_class'] = 'regular'
                    qa['fd_ok'] = (not qa['tie']) and qa['neigh_class'] == 'regular' and \
                        nb.gap(k) > 32 * hn
                    if qa['neigh_class'] != 'regular':
                        qa['err_detail'] = 'degenerate_neighbours'
                    if nin == 1 and len(case['Y'][0]) >= 2:
                        qa['jac_err_detail'] = 'nin=1,nout>=2'
                    if q['kind'] == 'stale':
                        qa['fd_detail'] = 'stale_cache'
                    # conditioning of the plane: 1 / |unit normal z|, per output (worst)
                    if qa['neigh_class'] == 'regular' and not qa['tie']:
                        idx = nb.first(k)
                        P = [nb.tp[i] for i in idx]
                        kap = 1.0
                        Y = mat_unrat(case['Y'])
                        for l in range(len(Y[0])):
                            col = [Y[i][l] for i in range(m)]
                            lo_, hi_ = min(col), max(col)
                            rg_ = (hi_ - lo_) if hi_ != lo_ else F(1)
                            v = [(Y[i][l] - lo_) / rg_ for i in idx]
                            nrm = plane_normal(P, v)
                            nn = math.sqrt(sum(float(c) ** 2 for c in nrm))
                            if nn > 0 and nrm[-1] != 0:
                                kap = max(kap, nn / abs(float(nrm[-1])))
                        qa['kappa'] = kap
                        if kap > 1e5:
                            qa['fd_ok'] = False
                else:   # rbf
                    N = spec['init'].get('num_neighbors', 5)
                    fam = spec['init'].get('rbf_family', 2)
                    qa['k'] = N
                    qa['tie'] = nb.tie(N) or (N >= 2 and nb.tie(N - 1))
                    qa['fd_ok'] = (not qa['tie']) and nb.gap(N) > 32 * hn and \
                        (N < 2 or nb.gap(N - 1) > 32 * hn) and dmin > 100 * hn
                    if fam == -3:
                        qa['fd_detail'] = 'family=-3'
                        qa['nonfinite_detail'] = 'family=-3'
                    elif fam == 1 and nin == 1:
                        qa['fd_detail'] = 'family=1,nin=1'
                    if q['kind'] == 'stale':
                        qa['fd_detail'] = qa.get('fd_detail', 'stale_cache')
                        qa['fd_ok'] = False
            info['q'].append(qa)
        self._known_cache = {key: (case, info)}
        return info

    def _failures_comp(self, case, impl):
        fails = []

        def add(clause, detail, what):
            fails.append({'what': what, 'surrogate': 'comp', 'clause': clause, 'detail': detail})
        if 'harness_error' in impl:
            return [{'what': 'harness error: ' + impl['msg'], 'surrogate': 'comp', 'clause': 'harness',
                     'detail': impl['harness_error']}]
        sizes = case['in_sizes']
        vs = case['vec']

        def cmp(tag, obs, direct):
            # nan/inf in the partials of any output spreads through the linear solve of compute_totals
            jac_finite = all(is_num(v) for oo in case['outs'] for Jv in direct[oo['name']]['jac']
                             for r in Jv for v in r)
            for oo in case['outs']:
                d = direct[oo['name']]
                out = arr(obs['out'][oo['name']])
                want = np.array([[tofloat(v) for v in r] for r in d['pred']])
                fin = np.isfinite(want)
                if out.shape != want.shape or not np.array_equal(np.isfinite(out), fin) or \
                        (np.abs(out - want)[fin] > TOL['comp'] * np.maximum(1.0, np.abs(want[fin]))).any():
                    add('comp_outputs', tag, 'component output %s = %s, surrogate predicts %s'
                        % (oo['name'], out.tolist(), want.tolist()))
                k0 = 0
                if not jac_finite:
                    continue
                for k, sz in enumerate(sizes):
                    Jc = arr(obs['J']['%s,x%d' % (oo['name'], k)])
                    want = np.zeros((vs * oo['size'], vs * sz))
                    for v in range(vs):
                        Jd = arr(d['jac'][v])
                        want[v * oo['size']:(v + 1) * oo['size'], v * sz:(v + 1) * sz] = Jd[:, k0:k0 + sz]
                    k0 += sz
                    fin = np.isfinite(want)
                    if Jc.shape != want.shape or not np.array_equal(np.isfinite(Jc), fin) or \
                            (np.abs(Jc - want)[fin] > TOL['comp'] * np.maximum(1.0, np.abs(want[fin]))).any():
                        add('comp_partials', tag, 'd%s/dx%d through compute_totals = %s, surrogate '
                            'linearize gives %s' % (oo['name'], k, Jc.tolist(), want.tolist()))
        if 'error' in impl:
            if 'direct_error' in impl:
                return []          # the surrogate itself refuses these data: nothing to compare
            types = [(oo['spec'] or case['default'] or {}).get('type', '') for oo in case['outs']]
            detail = 'raises'
            if impl['error'] == 'IndexError' and any(
                    a.startswith('nn_') and 'rs' in types[i + 1:] for i, a in enumerate(types)):
                detail = 'nn_before_rs'
            add('comp_outputs', detail, 'component raised %s (%s) although the surrogates work '
                'directly' % (impl['error'], impl.get('msg')))
            return fails
        if 'direct_error' in impl:
            add('comp_outputs', 'direct_raises', 'surrogate raised %s directly but the component ran'
                % impl['direct_error'])
            return fails
        cmp('first', impl['first'], impl['direct'])
        if impl.get('train_flag_after_run'):
            add('retrain', 'flag_not_cleared', 'train flag still set after a run')
        if case.get('retrain'):
            if 'error2' in impl:
                if 'direct2_error' not in impl:
                    add('retrain', 'raises', 'retraining raised %s (%s)' % (impl['error2'], impl.get('msg2')))
            elif 'direct2_error' not in impl:
                cmp('retrained_' + case['retrain']['how'], impl['second'], impl['direct2'])
                # documented: no retraining without the flag / a new setup
                cmp('not_retrained_without_flag', impl['stale'], impl['direct'])
        return fails

    def _failures(self, case, impl):
        if case['kind'] == 'direct':
            return self._failures_direct(case, impl)
        return self._failures_comp(case, impl)

    def oracle(self, case, impl):
        fails = self._failures(case, impl)
        if not fails:
            return None
        # report an unknown failure first, so that a known finding never hides another violation
        for f in fails:
            if match_known(self.pid, self._sig(f)) is None:
                return f
        return fails[0]

    @staticmethod
    def _sig(failure):
        return {'surrogate': failure.get('surrogate'), 'clause': failure.get('clause'),
                'detail': failure.get('detail')}

    def signature(self, case, impl, failure):
        return self._sig(failure)

    def nontrivial(self, case, impl):
        if case['kind'] == 'comp':
            return 'first' in impl
        return 'queries' in impl and any('pred' in o for o in impl['queries'])

    def bucket(self, case, impl):
        b = ['kind=' + case['kind']]
        if case['kind'] == 'direct':
            spec = case['spec']
            t = spec['type']
            b.append('sur=' + t)
            nin, nout, m = len(case['X'][0]), len(case['Y'][0]), len(case['X'])
            b += ['nin=%d' % nin, 'nout=%d' % nout, 'm=%s' % ('<=5' if m <= 5 else '6-12' if m <= 12 else '13-30'),
                  'style=' + case['style'], 'y=' + case['ykind']]
            if t == 'kriging':
                b.append('nugget=%s' % ('default' if spec.get('nugget') is None else
                                        ('0' if unrat(spec['nugget']) == 0 else '1e-10')))
                if spec.get('eval_rmse'):
                    b.append('eval_rmse')
                if spec.get('lapack_driver'):
                    b.append('lapack=' + spec['lapack_driver'])
            if t == 'nn_weighted':
                b.append('weighted:k=%s,p=%s' % (spec['call'].get('num_neighbors', 'dflt'),
                                                 spec['call'].get('dist_eff', 'dflt')))
            if t == 'nn_rbf':
                b.append('rbf:family=%s' % spec['init'].get('rbf_family', 'dflt'))
                b.append('rbf:N=%s' % spec['init'].get('num_neighbors', 'dflt'))
            if 'train_error' in impl:
                b.append('train_error=' + impl['train_error'])
                return b
            if 'harness_error' in impl:
                return b + ['harness_error']
            info = self._analyse(case, impl)
            if t == 'rs':
                b.append('rs_rank=' + info['rs_rank'])
                c_ = info['rs_cond']
                c_ = info.get('rs_cond_cert', c_)
                b.append('rs_cond=%s' % ('<1e6' if c_ < 1e6 else '1e6-1e10' if c_ < 1e10 else
                                         '1e10-1e13' if c_ <= 1e13 else '>1e13(no claim)'))
            if t == 'kriging' and 'krig_cond_bucket' in info:
                b.append('krig_cond=' + info['krig_cond_bucket'])
            for q, o, qa in zip(case['queries'], impl['queries'], info['q']):
                b.append('query=' + q['kind'])
                if q['kind'] == 'kwswitch' and 'k' in qa:
                    b.append('kwswitch:first%sk' % ('>' if q['first_nn'] > qa['k'] else
                                                    '<' if q['first_nn'] < qa['k'] else '=='))
                if 'error' in o:
                    b.append('query_error=' + o['error'])
                if qa.get('fd_ok') and o.get('fd') and 'jac' in o:
                    b.append('fd_checked')
                elif 'jac' in o:
                    b.append('fd_skipped')
                if qa.get('tie'):
                    b.append('neighbour_tie')
                if 'neigh_class' in qa:
                    b.append('linear_neighbours=' + qa['neigh_class'])
        else:
            b.append('vec=%d' % case['vec'])
            b.append('nvars=%d' % len(case['in_sizes']))
            b.append('default=' + (case['default']['type'] if case['default'] else 'none'))
            for o in case['outs']:
                b.append('out_sur=' + (o['spec']['type'] if o['spec'] else 'default'))
                b.append('out_size=%d' % o['size'])
            if case.get('retrain'):
                b.append('retrain=' + case['retrain']['how'])
            b.append('fmt=' + case['fmt'])
            if 'error' in impl:
                b.append('comp_error=' + impl['error'])
        return b

    # ------------------------------------------------------------------------------------------
    # Lean model

    def model_requests(self, case, impl):
        reqs = []
        plan = []
        self._plans[id(case)] = (case, plan)
        if 'harness_error' in impl or 'train_error' in impl:
            return reqs
        if case['kind'] == 'comp':
            if 'first' not in impl or 'direct' not in impl:
                return reqs
            for tag, dkey in (('first', 'direct'), ('second', 'direct2')):
                if tag not in impl or dkey not in impl:
                    continue
                if any(not is_num(v) for oo in case['outs'] for J in impl[dkey][oo['name']]['jac']
                       for r in J for v in r):
                    continue        # nan/inf spreads through the linear solve of compute_totals
                for oo in case['outs']:
                    d = impl[dkey][oo['name']]
                    inputs = []
                    for p in case['points']:
                        vars_, k = [], 0
                        for sz in case['in_sizes']:
                            vars_.append(p[k:k + sz])
                            k += sz
                        inputs.append(vars_)
                    reqs.append({'op': 'comp', 'vec': case['vec'], 'nOf': oo['size'],
                                 'sizes': case['in_sizes'], 'derivs': d['jac'], 'inputs': inputs})
                    plan.append(('comp', tag, oo['name']))
            return reqs
        spec = case['spec']
        t = spec['type']
        info = self._analyse(case, impl)
        X = mat_unrat(case['X'])
        Y = mat_unrat(case['Y'])
        m, nin, nout = len(X), len(X[0]), len(Y[0])
        Q = [q['x'] for q in case['queries']]
        if t == 'rs':
            if m <= 24:
                reqs.append({'op': 'rs', 'X': case['X'], 'Y': case['Y'], 'Q': Q})
                plan.append(('rs_fit',))
            if all(is_num(v) for r in impl['betas'] for v in r):
                reqs.append({'op': 'rs', 'beta': impl['betas'], 'Q': Q})
                plan.append(('rs_formula',))
            return reqs
        if t == 'kriging':
            a = impl['attrs']
            flat = a['thetas'] + a['X_mean'] + a['X_std'] + a['Y_mean'] + a['Y_std'] + \
                [v for r in a['alpha'] for v in r] + [v for r in a['Xn'] for v in r]
            if not all(is_num(v) for v in flat):
                return reqs
            th, Xn = vec(a['thetas']), arr(a['Xn'])
            xm, xs = vec(a['X_mean']), vec(a['X_std'])
            for qi, q in enumerate(case['queries']):
                x = np.array([float(unrat(v)) for v in q['x']])
                xn = (x - xm) / xs
                r = np.exp(-((xn - Xn) ** 2) @ th)
                reqs.append({'op': 'kriging', 'ymean': a['Y_mean'], 'ystd': a['Y_std'],
                             'xmean': a['X_mean'], 'xstd': a['X_std'], 'theta': a['thetas'],
                             'Xn': a['Xn'], 'alpha': a['alpha'], 'x': q['x'], 'r': rats(r.tolist())})
                plan.append(('kriging', qi))
            return reqs
        # nearest neighbour: normalisation constants (exact)
        nb0 = Neigh(X, X[0])
        tpm, tpr = nb0.tpm, nb0.tpr
        tvm = [min(r[l] for r in Y) for l in range(nout)]
        tvr = [max(r[l] for r in Y) - tvm[l] for l in range(nout)]
        tvr = [v if v != 0 else F(1) for v in tvr]
        base = {'tvm': rats(tvm), 'tvr': rats(tvr), 'tpr': rats(tpr)}
        if t == 'nn_weighted':
            for qi, (q, qa) in enumerate(zip(case['queries'], info['q'])):
                if qa.get('expect_error') or qa['tie'] or q['kind'] in ('stale', 'kwswitch'):
                    continue
                if not isinstance(qa['p'], int):
                    continue
                nb = qa['nb']
                idx = nb.first(qa['k'])
                # distances as the doubles numpy computes (sqrt is not rational)
                ds = [math.sqrt(float(nb.d2[i])) if nb.d2[i] != 0 else 0.0 for i in idx]
                r = dict(base)
                r.update({'op': 'weighted', 'p': qa['p'], 'ds': rats(ds),
                          'diffs': [rats([a - b for a, b in zip(nb.xn, nb.tp[i])]) for i in idx],
                          'ys': [rats(Y[i]) for i in idx]})
                reqs.append(r)
                plan.append(('weighted', qi, min(ds)))
            return reqs
        if t == 'nn_linear':
            for qi, (q, qa) in enumerate(zip(case['queries'], info['q'])):
                if qa.get('expect_error') or qa['tie'] or qa['neigh_class'] != 'regular':
                    continue
                if q['kind'] in ('stale', 'kwswitch'):
                    continue        # what linearize returns there depends on the neighbour cache
                if qa.get('kappa', 1.0) > 1e5:
                    continue
                nb = qa['nb']
                idx = nb.first(qa['k'])
                P = [nb.tp[i] for i in idx]
                normals = []
                for l in range(nout):
                    v = [(Y[i][l] - tvm[l]) / tvr[l] for i in idx]
                    normals.append(rats(plane_normal(P, v)))
                r = dict(base)
                r.update({'op': 'linear', 'tpm': rats(tpm), 'P': [rats(X[i]) for i in idx],
                          'Y': [rats(Y[i]) for i in idx], 'normals': normals, 'x': q['x']})
                reqs.append(r)
                plan.append(('linear', qi))
            return reqs
        # rbf
        N = spec['init'].get('num_neighbors', 5)
        fam = spec['init'].get('rbf_family', 2)
        if fam == -3 or m < N or N < 2 or m > 16:
            return reqs

        def row(nb):
            idx = nb.first(N)
            ds = [math.sqrt(float(nb.d2[i])) for i in idx]
            return idx, ds
        train_rows = []
        for i in range(m):
            nb = Neigh(X, X[i])
            if nb.tie(N) and False:
                return reqs
            idx, ds = row(nb)
            if ds[-1] == 0:
                return reqs
            train_rows.append({'idx': idx[:-1], 'ds': rats(ds[:-1]), 'dN': rat(ds[-1])})
        qreqs, qidx = [], []
        for qi, (q, qa) in enumerate(zip(case['queries'], info['q'])):
            if q['kind'] == 'stale':
                continue
            nb = qa['nb']
            idx, ds = row(nb)
            if ds[-1] == 0:
                continue
            qreqs.append({'idx': idx[:-1], 'ds': rats(ds[:-1]), 'dN': rat(ds[-1]),
                          'xpi': [rats([a - b for a, b in zip(nb.xn, nb.tp[i])]) for i in idx[:-1]],
                          'xpm': rats([a - b for a, b in zip(nb.xn, nb.tp[idx[-1]])])})
            qidx.append(qi)
        r = dict(base)
        r.update({'op': 'rbf', 'fam': fam, 'signFixed': bool(self.rbf_sign_fixed),
                  'tiny': rat(F(1, 10 ** 11)), 'Y': case['Y'], 'train': train_rows, 'queries': qreqs})
        reqs.append(r)
        plan.append(('rbf', qidx))
        return reqs

    def compare(self, case, impl, answers):
        ent = self._plans.get(id(case))
        if ent is None or ent[0] is not case:
            self.model_requests(case, impl)
            ent = self._plans[id(case)]
        plan = ent[1]
        if len(plan) != len(answers):
            return 'plan/answer mismatch'
        rel = TOL['model_rel']

        def close(a, b, scale=1.0, tol=rel):
            a = np.asarray(a, dtype=float)
            b = np.asarray(b, dtype=float)
            if a.shape != b.shape:
                return False
            if not (np.all(np.isfinite(a)) and np.all(np.isfinite(b))):
                return False
            return bool((np.abs(a - b) <= tol * np.maximum(scale, np.abs(b))).all())

        def U(v):
            return np.array([float(unrat(x)) for x in v])

        def UM(M):
            return np.array([[float(unrat(x)) for x in r] for r in M])
        if case['kind'] == 'comp':
            for (_, tag, name), a in zip(plan, answers):
                obs = impl[tag]
                k = 0
                for kk, sz in enumerate(case['in_sizes']):
                    Jm = a['J'][kk]
                    Jc = obs['J']['%s,x%d' % (name, kk)]
                    if [[unrat(v) for v in r] for r in Jm] != \
                            [[unrat(v) if is_num(v) else None for v in r] for r in Jc]:
                        return 'component partial d%s/dx%d: model layout %s != compute_totals %s' % (
                            name, kk, Jm, Jc)
                # _vec_to_array
                want = [[v for v in p] for p in case['points']]
                if [[unrat(v) for v in r] for r in a['flat']] != [[unrat(v) for v in r] for r in want]:
                    return 'flattened inputs differ'
            return None
        info = self._analyse(case, impl)
        Y = mat_float(case['Y'])
        X = mat_float(case['X'])
        ysc = np.maximum(1.0, np.abs(Y).max(axis=0))
        yrg = np.where(Y.max(axis=0) > Y.min(axis=0), Y.max(axis=0) - Y.min(axis=0), 1.0)
        xrg = np.where(X.max(axis=0) > X.min(axis=0), X.max(axis=0) - X.min(axis=0), 1.0)
        S = yrg[:, None] / xrg[None, :]
        for step, a in zip(plan, answers):
            kind = step[0]
            if kind == 'rs_fit':
                if not a.get('ok'):
                    if info['rs_rank'] == 'full':
                        return 'Lean normal equations singular although the design has full rank'
                    continue
                if info['rs_rank'] != 'full':
                    return 'Lean solved the normal equations uniquely although the design is rank deficient'
                if info['rs_cond_cert'] > TOL['rs_cond_max']:
                    continue
                # tolerance: 1e-9 relative + the certified backward-error bound of the solve, with
                # the exact least-squares coefficients the driver returned
                bnorm = [math.sqrt(sum(float(unrat(v)) ** 2 for v in b)) for b in a['beta']]
                nout_ = len(bnorm)
                for qi, o in enumerate(impl['queries']):
                    if 'pred' not in o:
                        continue
                    xq = [unrat(v) for v in case['queries'][qi]['x']]
                    pm = U(a['pred'][qi])
                    bp = np.array([self._rs_bound(info, rs_row(xq), l, bnorm) for l in range(nout_)])
                    if (np.abs(vec(o['pred']) - pm) > 1e-9 * np.maximum(ysc, np.abs(pm)) + bp).any():
                        return 'rs predict: exact least squares %s vs implementation %s' % (
                            pm.tolist(), o['pred'])
                    if 'jac' in o:
                        Jm = UM(a['jac'][qi])
                        bj = np.array([[self._rs_bound(info, rs_drow(xq, j), l, bnorm)
                                        for j in range(len(xq))] for l in range(nout_)])
                        if (np.abs(arr(o['jac']) - Jm) > 1e-9 * np.maximum(S, np.abs(Jm)) + bj).any():
                            return 'rs linearize: exact least squares %s vs implementation %s' % (
                                a['jac'][qi], o['jac'])
                if 'beta' in case:
                    if [[unrat(v) for v in r] for r in a['beta']] != mat_unrat(case['beta']):
                        return 'exact least squares on exact quadratic data did not return the coefficients'
            elif kind == 'rs_formula':
                for qi, o in enumerate(impl['queries']):
                    if 'pred' not in o:
                        continue
                    pm = U(a['pred'][qi])
                    big = np.abs(np.array([[tofloat(v) for v in r] for r in impl['betas']])).max()
                    sc = np.maximum(ysc, big * max(1.0, np.abs(X).max()) ** 2)
                    if not close(vec(o['pred']), pm, sc, 1e-10):
                        return 'rs predict formula: model %s vs implementation %s' % (pm.tolist(), o['pred'])
                    if 'jac' in o and not close(arr(o['jac']), UM(a['jac'][qi]), sc[:, None] * np.ones_like(S), 1e-10):
                        return 'rs linearize formula: model %s vs implementation %s' % (a['jac'][qi], o['jac'])
            elif kind == 'kriging':
                qi = step[1]
                o = impl['queries'][qi]
                if 'pred' not in o:
                    continue
                # the correlations supplied to the model are exp() of the exponents it computed itself
                req_r = np.exp(np.array([float(unrat(v)) for v in a['expo']]))
                th_, Xn_ = vec(impl['attrs']['thetas']), arr(impl['attrs']['Xn'])
                x_ = np.array([float(unrat(v)) for v in case['queries'][qi]['x']])
                xn_ = (x_ - vec(impl['attrs']['X_mean'])) / vec(impl['attrs']['X_std'])
                if not np.allclose(req_r, np.exp(-((xn_ - Xn_) ** 2) @ th_), rtol=1e-9, atol=1e-300):
                    return 'kriging: exponents of the model differ from the harness correlations'
                al = np.abs(arr(impl['attrs']['alpha'])).sum(axis=0) * vec(impl['attrs']['Y_std'])
                sc = np.maximum(ysc, al)
                if not close(vec(o['pred']), U(a['pred']), sc, 1e-8):
                    return 'kriging predict: model %s vs implementation %s' % (a['pred'], o['pred'])
                if 'jac' in o:
                    th = vec(impl['attrs']['thetas'])
                    js = sc[:, None] * (np.sqrt(np.maximum(th, 1.0)) / vec(impl['attrs']['X_std']))[None, :]
                    if not close(arr(o['jac']), UM(a['jac']), js, 1e-8):
                        return 'kriging linearize: model %s vs implementation %s' % (a['jac'], o['jac'])
            elif kind == 'weighted':
                qi = step[1]
                o = impl['queries'][qi]
                if 'pred' not in o:
                    return 'weighted: implementation raised %s, model predicts' % o.get('error')
                if not close(vec(o['pred']), U(a['pred']), ysc, 1e-9):
                    return 'weighted predict: model %s vs implementation %s' % (a['pred'], o['pred'])
                if 'jac' in o and not a['hit']:
                    J = arr(o['jac'])
                    Jm = UM(a['jac'])
                    dmin = step[2]
                    if dmin > 2.0 ** -10 and not close(J, Jm, np.maximum(S, np.abs(Jm).max()), 1e-7):
                        return 'weighted linearize: model %s vs implementation %s' % (a['jac'], o['jac'])
            elif kind == 'linear':
                qi = step[1]
                o = impl['queries'][qi]
                if not all(a['contract']):
                    return 'harness normal does not satisfy the plane contract (infrastructure)'
                if 'pred' not in o:
                    return 'linear: implementation raised %s, model predicts' % o.get('error')
                kap = info['q'][qi].get('kappa', 1.0)
                if not close(vec(o['pred']), U(a['pred']), ysc, 1e-10 * max(10.0, kap)):
                    return 'linear predict: model %s vs implementation %s' % (a['pred'], o['pred'])
                if 'jac' in o and not close(arr(o['jac']), UM(a['jac']), np.maximum(S, np.abs(UM(a['jac']))),
                                            1e-10 * max(10.0, kap)):
                    return 'linear linearize: model %s vs implementation %s' % (a['jac'], o['jac'])
            elif kind == 'rbf':
                if not a.get('ok'):
                    continue        # singular training matrix in exact arithmetic: no comparison
                for k, qi in enumerate(step[1]):
                    o = impl['queries'][qi]
                    qa = info['q'][qi]
                    if 'pred' not in o:
                        continue
                    am = a['q'][k]
                    # conditioning of the (exactly solved) training system: size of the weights
                    noise = self._rbf_noise(case, impl, wmax=U(a['wmax']))
                    pm = U(am['pred'])
                    if (np.abs(vec(o['pred']) - pm) > 1e-6 * np.maximum(ysc, np.abs(pm)) + noise).any():
                        return 'rbf predict: model %s vs implementation %s' % (am['pred'], o['pred'])
                    if 'jac' in o and not qa['tie'] and case['queries'][qi]['kind'] != 'train':
                        Jm = UM(am['jac'])
                        tolj = 1e-5 * np.maximum(S, np.abs(Jm).max()) + 500 * noise[:, None] / xrg[None, :]
                        if (np.abs(arr(o['jac']) - Jm) > tolj).any():
                            return 'rbf linearize: model %s vs implementation %s' % (am['jac'], o['jac'])
        return None


PROP = C28()
