"""C30 — complex-step-safe helpers agree with NumPy and differentiate exactly.

Real code: openmdao.utils.cs_safe.{abs, norm, arctan2} (NumPy) and
openmdao.jax_funcs.{act_tanh, smooth_max, smooth_min, smooth_abs, smooth_round} (jax).
Every case is run three ways: the real function (on a real input, or on `x + 1j*H*d`, or through
`jax.jvp` / `jax.grad`), the direct oracle (NumPy's own function for the value, an analytic derivative
written here with exact fractions / NumPy for the imaginary part or tangent) and the Lean model
(`drv_c30`, dual numbers over Rat with IEEE `sqrt/atan2/tanh` as primitives).
"""
import math
import warnings
from fractions import Fraction

import numpy as np

from common import Property, rat, unrat

H = 1e-40                     # the complex step (OpenMDAO's default)
HF = Fraction(H)
TOL = 1e-11                   # relative tolerance of the float comparisons (scaled, see _close)

SMOOTH = ('act_tanh', 'smooth_max', 'smooth_min', 'smooth_abs', 'smooth_round')


# ------------------------------------------------------------------------------------------------
# encoding

def enc(v):
    v = float(v)
    if math.isnan(v):
        return 'nan'
    if math.isinf(v):
        return 'inf' if v > 0 else '-inf'
    return rat(v)


def dec(s):
    """Fraction, or float nan/inf for the special strings."""
    if s == 'nan':
        return float('nan')
    if s == 'inf':
        return float('inf')
    if s == '-inf':
        return float('-inf')
    return unrat(s)


def special(s):
    return s in ('nan', 'inf', '-inf')


def fl(xs):
    return [float(dec(v)) for v in xs]


def shape_size(shape):
    n = 1
    for s in shape:
        n *= s
    return n


def _close(got, exp, scale, tol=TOL):
    """|got - exp| <= tol * max(|exp|, scale); all arguments Fractions / floats (finite)."""
    got = float(got)
    exp = float(exp)
    return abs(got - exp) <= tol * max(abs(exp), float(scale)) + 1e-300


def canon_out(r):
    """Canonical form of a NumPy / jax result: dtype class, shape, real and imaginary parts."""
    a = np.asarray(r)
    out = {'shape': list(a.shape), 'scalar_type': type(r).__name__ if not isinstance(r, np.ndarray)
           else 'ndarray'}
    if np.iscomplexobj(a):
        out['dtype'] = 'complex'
        out['re'] = [enc(v) for v in a.real.ravel().tolist()]
        out['im'] = [enc(v) for v in a.imag.ravel().tolist()]
    else:
        out['dtype'] = 'int' if a.dtype.kind in 'iu' else 'float'
        out['re'] = [enc(v) for v in a.astype(float).ravel().tolist()]
        out['im'] = None
    return out


ERRS = {'ZeroDivisionError': 'ZeroDivisionError', 'AxisError': 'AxisError', 'TypeError': 'TypeError',
        'ValueError': 'ValueError', 'AttributeError': 'AttributeError'}


def err_enum(e):
    return ERRS.get(type(e).__name__, 'Other:' + type(e).__name__)


# ------------------------------------------------------------------------------------------------
# value pools

def _mag(rng, lo=-60, hi=60):
    return math.ldexp(rng.choice([1.0, 1.5, 1.25, 1.75, rng.uniform(1, 2)]), rng.randint(lo, hi))


def real_value(rng, zero_p=0.18):
    r = rng.random()
    if r < zero_p:
        return 0.0 if rng.random() < 0.8 else -0.0
    if r < 0.45:
        return rng.choice([-1, 1]) * rng.randint(1, 12) / 4.0
    if r < 0.8:
        return rng.uniform(-3, 3)
    return rng.choice([-1, 1]) * _mag(rng)


def pert_value(rng):
    r = rng.random()
    if r < 0.15:
        return 0.0
    if r < 0.45:
        return float(rng.choice([-2, -1, 1, 2, 3]))
    if r < 0.85:
        return rng.uniform(-2, 2)
    return rng.choice([-1, 1]) * _mag(rng, -10, 10)


def rand_shape(rng):
    return rng.choice([[], [1], [2], [3], [5], [2, 3], [3, 2], [1, 4], [2, 2]])


def values(rng, n, gen):
    xs = [gen(rng) for _ in range(n)]
    # ties: copy an earlier entry (possibly with flipped sign)
    if n > 1 and rng.random() < 0.3:
        i, j = rng.randrange(n), rng.randrange(n)
        xs[j] = xs[i] * rng.choice([1, 1, -1])
    return xs


class C30(Property):
    pid = 'C30'
    required_theorems = [
        'C30_abs_real_agrees', 'C30_abs_dual', 'C30_abs_kink', 'C30_abs_scalar_eq_array',
        'C30_abs_scalar_array_differ_at_kink', 'C30_abs_masked_elementwise',
        'C30_abs_array_elementwise', 'C30_abs_derivative',
        'C30_norm_real_agrees', 'C30_norm_dual', 'C30_norm_sq', 'C30_norm_zero',
        'C30_norm_hasDerivAt',
        'C30_arctan2_real_agrees', 'C30_arctan2_dual', 'C30_arctan2_origin',
        'C30_arctan2_hasDerivAt',
        'C30_act_tanh_dual', 'C30_act_tanh_range', 'C30_smooth_max_dual', 'C30_smooth_min_dual',
        'C30_smooth_max_add_min', 'C30_smooth_max_between', 'C30_smooth_max_ge_mean',
        'C30_smooth_max_symm', 'C30_smooth_abs_dual', 'C30_smooth_abs_range',
        'C30_smooth_round_dual',
        'C30_act_tanh_hasDerivAt', 'C30_smooth_max_hasDerivAt', 'C30_smooth_min_hasDerivAt',
        'C30_smooth_abs_hasDerivAt', 'C30_smooth_round_hasDerivAt',
        'C30_real_primitives_meet_hypotheses',
    ]
    rule = ("cases: cs_safe.abs / norm / arctan2 on scalars (python and NumPy scalars), 0-d, 1-D and 2-D "
            "arrays of real values (zeros and signed zeros, dyadic values, uniform floats, magnitudes "
            "2^-60..2^60, ties) either as real input (float, int or complex dtype with zero imaginary "
            "part) or as x + 1e-40j*d with d from {0, small integers, uniform floats, magnitudes "
            "2^-10..2^10}; norm with axis None/0/1/-1/-2/out-of-range; arctan2 in all four quadrants, "
            "on the axes and at the origin; a near-kink stream for abs with 0 < |x| <= 1e4*|1e-40*d|; "
            "jax smooth helpers on 0-d / (4,) / (2,3) inputs with ties, integers, half-integers and "
            "mu in {default, 1e-3, 1e-2, 0.1, 0.5, 1}, evaluated directly, through jax.jvp, jax.grad "
            "and under the complex step. Non-trivial: at least one non-zero perturbation or a real "
            "input with a negative or zero element; distinct by canonical case encoding.")
    assumptions = [
        "complex step h = 1e-40 > 0; |x| is either 0 or >= 2^-60 (except the near-kink stream), so "
        "terms of relative size (h*d/x)^2 are below double precision",
        "float comparisons use a recorded relative tolerance 1e-11 scaled by the magnitude of the "
        "terms that cancel (sum |x_i d_i| / norm, (|c b| + |a d|)/(a^2+c^2), 1 + |x-y|/mu); abs is "
        "compared exactly",
    ]
    tolerance = {'relative': TOL, 'abs_exact': True}
    level_text = (
        "cs_safe.abs (scalar branch, ndarray branch with the NumPy-2 masked sign assignments), norm "
        "(flat and per-axis, including the zero vector) and arctan2 (complex-dtype branch, real "
        "branch, origin) and the five jax smooth helpers are modelled literally over dual numbers "
        "a + eps*b (= a + i*h*b to first order). Proved for every input over any linearly ordered "
        "field: real inputs give the NumPy value with zero imaginary part; abs has dual part "
        "sign(a)*b off the kink, |b| (ndarray) or b (scalar) at the kink, is exactly the directional "
        "derivative of |.|, and the masked NumPy-2 code equals the NumPy-1.x sign rule; norm "
        "satisfies n^2 = sum a^2, n*du = sum a_i b_i and returns ||b|| at the zero vector; arctan2 "
        "has dual part (c*b - a*d)/(a^2+c^2) (zero radially, k for a rotation by k) and is undefined "
        "at the origin; closed forms, ranges, symmetry and max+min = x+y for the smooth helpers. "
        "At K = R with Mathlib's sqrt / arctan / tanh / floor the dual part is proved to be the "
        "derivative (HasDerivAt) of the real function along the perturbation for norm, arctan2 and "
        "all five smooth helpers. Tied to the real code by differential runs (exact for abs, "
        "tolerance 1e-11 otherwise) plus a direct NumPy / analytic-derivative oracle.")
    level_note = (
        "Trusted: Lean kernel + standard axioms; Mathlib; the Python harness; NumPy's abs/linalg.norm/"
        "arctan2/tanh/floor as reference. Modelled, not verified: second-order terms in the step h "
        "(the dual model is first order; the one second-order term the code relies on, "
        "sqrt(-h^2 sum b^2) at the zero vector, is written into the model), IEEE rounding, overflow "
        "of x**2 beyond 1e150, NaN/inf inputs under perturbation, jax's tracing/AD (jvp and grad are "
        "compared differentially with the model's dual part), NumPy < 2 (the other sign branch is "
        "not executed in this environment; the theorem shows both compute the same rule), np.arctan2 "
        "itself (an abstract function of the model; its relation to arctan(a/c) up to a constant is "
        "cited in the docstring, not proved).")
    technique = ("Lean 4 proof over ordered fields (dual numbers) + Mathlib HasDerivAt bridge + "
                 "differential correspondence with direct oracle")
    trusted_extra = [
        "jax 0.11 jit / jvp / grad (the tangent they return is compared with the model's dual part)",
        "NumPy 2.x np.abs, np.linalg.norm, np.arctan2, np.tanh, np.floor as reference values",
        "libm sqrt/atan2/tanh used by the Lean driver as primitives (compared within 1e-11)",
    ]
    workers = 1

    # -- set-up ------------------------------------------------------------------------------------
    def setup(self, tier):
        import jax
        jax.config.update('jax_enable_x64', True)
        from openmdao.utils import cs_safe
        import openmdao.jax_funcs as jf
        self.cs = cs_safe
        self.jf = jf
        self.jax = jax
        self._jit = {}

    # -- generator ---------------------------------------------------------------------------------
    def cases(self, rng, tier):
        n = 1 if tier == 'quick' else 40
        for _ in range(500 * n):
            yield self.gen_abs(rng)
        for _ in range(60 * n):
            yield self.gen_abs_near_kink(rng)
        for _ in range(450 * n):
            yield self.gen_norm(rng)
        for _ in range(450 * n):
            yield self.gen_arctan2(rng)
        for _ in range(500 * n):
            yield self.gen_smooth(rng)

    def gen_abs(self, rng):
        form = rng.choice(['array', 'array', 'array', 'pyscalar', 'npscalar'])
        shape = rand_shape(rng) if form == 'array' else []
        n = shape_size(shape)
        mode = rng.choice(['cs', 'cs', 'cs', 'real', 'complex0', 'int'])
        if mode == 'int':
            x = [float(rng.randint(-3, 3)) for _ in range(n)]
        else:
            x = values(rng, n, lambda r: real_value(r, 0.25))
            if mode == 'real' and rng.random() < 0.1:
                x[rng.randrange(n)] = rng.choice([float('inf'), float('-inf')])
        d = values(rng, n, pert_value) if mode == 'cs' else None
        return {'kind': 'abs', 'form': form, 'shape': shape, 'mode': mode,
                'x': [enc(v) for v in x], 'd': None if d is None else [enc(v) for v in d]}

    def gen_abs_near_kink(self, rng):
        form = rng.choice(['array', 'array', 'pyscalar'])
        shape = rng.choice([[1], [3], [2, 2]]) if form == 'array' else []
        n = shape_size(shape)
        d = [rng.choice([-1, 1]) * rng.choice([1.0, 2.0, rng.uniform(0.5, 2)]) for _ in range(n)]
        x = [rng.choice([-1, 1]) * abs(H * dd) * rng.choice([1.0, 3.0, 10.0, 100.0, 1e3, 1e4])
             for dd in d]
        return {'kind': 'abs', 'form': form, 'shape': shape, 'mode': 'cs', 'regime': 'near_kink',
                'x': [enc(v) for v in x], 'd': [enc(v) for v in d]}

    def gen_norm(self, rng):
        form = rng.choice(['array'] * 6 + ['pyscalar'])
        shape = rand_shape(rng) if form == 'array' else []
        n = shape_size(shape)
        mode = rng.choice(['cs', 'cs', 'cs', 'real', 'complex0', 'int'])
        r = rng.random()
        if mode == 'int':
            x = [float(rng.randint(-3, 3)) for _ in range(n)]
        elif r < 0.12:
            x = [0.0] * n                                   # the zero vector
        elif r < 0.3 and len(shape) == 2:
            x = values(rng, n, lambda q: real_value(q, 0.1))
            row = rng.randrange(shape[0])                   # one zero row / column
            if rng.random() < 0.5:
                for j in range(shape[1]):
                    x[row * shape[1] + j] = 0.0
            else:
                col = rng.randrange(shape[1])
                for i in range(shape[0]):
                    x[i * shape[1] + col] = 0.0
        elif r < 0.45:
            # one common magnitude (so that no element is swamped)
            m = _mag(rng, -60, 60)
            x = [m * rng.choice([0.0, 1.0, -1.0, 0.5, rng.uniform(-2, 2)]) for _ in range(n)]
        else:
            x = values(rng, n, lambda q: real_value(q, 0.2))
        d = values(rng, n, pert_value) if mode == 'cs' else None
        if form != 'array':
            axis = None
        else:
            nd = len(shape)
            axis = rng.choice([None, None, None, 0, -1, 1, -2, rng.choice([2, -3, 3])])
            if nd == 0:
                axis = None
        return {'kind': 'norm', 'form': form, 'shape': shape, 'mode': mode, 'axis': axis,
                'x': [enc(v) for v in x], 'd': None if d is None else [enc(v) for v in d]}

    def gen_arctan2(self, rng):
        form = rng.choice(['array', 'array', 'array', 'pyscalar', 'npscalar'])
        shape = rand_shape(rng) if form == 'array' else []
        n = shape_size(shape)

        def pt():
            r = rng.random()
            if r < 0.06:
                return 0.0, 0.0                               # origin
            if r < 0.2:
                v = real_value(rng, 0.0)
                return (0.0, v) if rng.random() < 0.5 else (v, 0.0)   # on an axis
            if r < 0.3:
                v = real_value(rng, 0.0)
                return v, v * rng.choice([1, -1])             # diagonals (ties)
            if r < 0.4:
                m = _mag(rng, -60, 60)
                return m * rng.uniform(-2, 2), m * rng.uniform(-2, 2)
            return real_value(rng, 0.0), real_value(rng, 0.0)
        pts = [pt() for _ in range(n)]
        y = [p[0] for p in pts]
        x = [p[1] for p in pts]
        cy, cx = rng.choice([(True, True), (True, False), (False, True), (False, False),
                             (True, True)])
        dy = values(rng, n, pert_value) if cy else None
        dx = values(rng, n, pert_value) if cx else None
        if (cy or cx) and rng.random() < 0.1:
            # complex dtype but no imaginary part
            dy = [0.0] * n if cy else None
            dx = [0.0] * n if cx else None
        return {'kind': 'arctan2', 'form': form, 'shape': shape,
                'y': [enc(v) for v in y], 'x': [enc(v) for v in x],
                'dy': None if dy is None else [enc(v) for v in dy],
                'dx': None if dx is None else [enc(v) for v in dx]}

    def gen_smooth(self, rng):
        func = rng.choice(SMOOTH)
        shape = rng.choice([[], [4], [2, 3]])
        n = shape_size(shape)
        mode = rng.choice(['value', 'jvp', 'jvp', 'cs', 'cs', 'grad'])
        if mode == 'grad':
            shape, n = [], 1
        mu = rng.choice([None, None, 1e-3, 1e-2, 0.1, 0.5, 1.0])     # None = the default

        def sval(r):
            q = r.random()
            if q < 0.12:
                return 0.0
            if q < 0.3:
                return r.randint(-8, 8) / 2.0                 # integers and half-integers
            if q < 0.4:
                return r.randint(-4, 4) + r.choice([-1, 1]) * r.choice([1e-3, 1e-6, 0.02, 0.3])
            if q < 0.9:
                return r.uniform(-3, 3)
            return r.choice([-1, 1]) * _mag(r, -20, 8)
        x = values(rng, n, sval)
        case = {'kind': 'smooth', 'func': func, 'shape': shape, 'mode': mode,
                'mu': None if mu is None else enc(mu), 'x': [enc(v) for v in x]}
        need_d = mode in ('jvp', 'cs')
        if need_d:
            case['dx'] = [enc(v) for v in values(rng, n, pert_value)]
        if func in ('smooth_max', 'smooth_min'):
            y = []
            for xv in x:
                q = rng.random()
                eff_mu = 1e-2 if mu is None else mu
                if q < 0.2:
                    y.append(xv)                               # tie
                elif q < 0.5:
                    y.append(xv + rng.uniform(-3, 3) * eff_mu)  # inside the blending zone
                else:
                    y.append(sval(rng))
            case['y'] = [enc(v) for v in y]
            if need_d:
                case['dy'] = [enc(v) for v in values(rng, n, pert_value)]
        if func == 'act_tanh':
            full = rng.random() < 0.7
            case['full'] = full
            if full:
                # z, a, b given (scalars broadcast over x), perturbed in jvp / cs mode
                z = x[0] + rng.uniform(-2, 2) * (1e-2 if mu is None else mu) if rng.random() < 0.5 \
                    else sval(rng)
                a = rng.choice([-1.0, 0.0, rng.uniform(-3, 3)])
                b = rng.choice([1.0, a, rng.uniform(-3, 3)])
                case['z'], case['a'], case['b'] = enc(z), enc(a), enc(b)
                if need_d:
                    case['dz'] = enc(pert_value(rng))
                    case['da'] = enc(pert_value(rng))
                    case['db'] = enc(pert_value(rng))
        return case

    # -- real code ---------------------------------------------------------------------------------
    def _input(self, form, shape, x, d, mode):
        """Build the Python object handed to the real function."""
        xs = fl(x)
        if mode == 'int':
            arr = np.array([int(v) for v in xs], dtype=int)
        elif mode in ('cs', 'complex0'):
            ds = fl(d) if d is not None else [0.0] * len(xs)
            arr = np.array(xs, dtype=float) + 1j * (H * np.array(ds, dtype=float))
        else:
            arr = np.array(xs, dtype=float)
        if form == 'array':
            return arr.reshape(shape)
        v = arr.reshape(())
        if form == 'npscalar':
            return v[()]
        return v.item()            # python int / float / complex

    def run_impl(self, case):
        with warnings.catch_warnings():
            warnings.simplefilter('ignore')
            with np.errstate(all='ignore'):
                try:
                    return getattr(self, 'impl_' + case['kind'])(case)
                except Exception as e:        # exceptions of the real code are results
                    return {'error': err_enum(e), 'msg': str(e)[:160]}

    def impl_abs(self, case):
        z = self._input(case['form'], case['shape'], case['x'], case['d'], case['mode'])
        return canon_out(self.cs.abs(z))

    def impl_norm(self, case):
        z = self._input(case['form'], case['shape'], case['x'], case['d'], case['mode'])
        if case['axis'] is None and case['form'] != 'array':
            return canon_out(self.cs.norm(z))
        return canon_out(self.cs.norm(z, axis=case['axis']))

    def impl_arctan2(self, case):
        y = self._input(case['form'], case['shape'], case['y'], case['dy'],
                        'cs' if case['dy'] is not None else 'real')
        x = self._input(case['form'], case['shape'], case['x'], case['dx'],
                        'cs' if case['dx'] is not None else 'real')
        return canon_out(self.cs.arctan2(y, x))

    def _smooth_args(self, case):
        """(names, primal values, tangent values) as float arrays / scalars in call order."""
        shape = case['shape']

        def arr(key):
            return np.array(fl(case[key]), dtype=float).reshape(shape)

        def tan(key):
            if key in case:
                v = case[key]
                if isinstance(v, list):
                    return np.array(fl(v), dtype=float).reshape(shape)
                return np.float64(float(dec(v)))
            return None
        f = case['func']
        names = ['x']
        prim = [arr('x')]
        tans = [tan('dx')]
        if f in ('smooth_max', 'smooth_min'):
            names.append('y')
            prim.append(arr('y'))
            tans.append(tan('dy'))
        if f == 'act_tanh' and case.get('full'):
            for k in ('z', 'a', 'b'):
                names.append(k)
                prim.append(np.float64(float(dec(case[k]))))
                tans.append(tan('d' + k))
        return names, prim, tans

    def _call(self, f, names, prim, mu):
        """Call the helper with its documented signature."""
        if f.__name__ == 'act_tanh' and len(prim) == 4:
            if mu is None:
                return f(prim[0], z=prim[1], a=prim[2], b=prim[3])
            return f(prim[0], mu, prim[1], prim[2], prim[3])
        if mu is None:
            return f(*prim)
        return f(*prim, mu)

    def impl_smooth(self, case):
        jax = self.jax
        f = getattr(self.jf, case['func'])
        names, prim, tans = self._smooth_args(case)
        mu = None if case['mu'] is None else float(dec(case['mu']))
        mode = case['mode']
        if mode == 'value':
            return {'val': canon_out(np.asarray(self._call(f, names, prim, mu)))}
        if mode == 'cs':
            zs = [p + 1j * (H * t) for p, t in zip(prim, tans)]
            return {'val': canon_out(np.asarray(self._call(f, names, zs, mu)))}
        key = (case['func'], mode, len(prim))
        if mode == 'jvp':
            if key not in self._jit:
                self._jit[key] = jax.jit(lambda p, t, m: jax.jvp(
                    lambda *a: self._call(f, names, list(a), m), tuple(p), tuple(t)))
            v, tv = self._jit[key](tuple(prim), tuple(tans), mu)
            return {'val': canon_out(np.asarray(v)), 'tan': canon_out(np.asarray(tv))}
        if mode == 'grad':
            if key not in self._jit:
                self._jit[key] = jax.jit(lambda p, m: jax.value_and_grad(
                    lambda *a: self._call(f, names, list(a), m),
                    argnums=tuple(range(len(names))))(*p))
            v, g = self._jit[key](tuple(np.float64(p.reshape(())) if isinstance(p, np.ndarray)
                                        else p for p in prim), mu)
            return {'val': canon_out(np.asarray(v)),
                    'grad': {k: enc(float(gv)) for k, gv in zip(names, g)}}
        raise ValueError(mode)

    # -- direct oracle -----------------------------------------------------------------------------
    def oracle(self, case, impl):
        with warnings.catch_warnings():
            warnings.simplefilter('ignore')
            with np.errstate(all='ignore'):
                return getattr(self, 'oracle_' + case['kind'])(case, impl)

    def _expect_shape(self, impl, shape, what):
        if impl.get('shape') != list(shape):
            return {'what': '%s: result shape %s, expected %s' % (what, impl.get('shape'), shape)}
        return None

    def oracle_abs(self, case, impl):
        if 'error' in impl:
            return {'what': 'abs raised %s' % impl['error'], 'msg': impl.get('msg')}
        bad = self._expect_shape(impl, case['shape'], 'abs')
        if bad:
            return bad
        xs = [dec(v) for v in case['x']]
        ref = np.abs(np.array([float(v) for v in xs])).tolist()     # NumPy's own function
        for i, (g, r) in enumerate(zip(impl['re'], ref)):
            if enc(r) != g and not (dec(g) == 0 and r == 0):
                return {'what': 'abs: real part differs from np.abs', 'index': i, 'got': g,
                        'expected': enc(r)}
        if case['mode'] in ('real', 'int'):
            if impl['im'] is not None and any(dec(v) != 0 for v in impl['im']):
                return {'what': 'abs: real input gave an imaginary part', 'got': impl['im']}
            return None
        if impl['im'] is None:
            return {'what': 'abs: complex input gave a real result'}
        ds = [0.0] * len(xs) if case['d'] is None else fl(case['d'])
        for i, (x, d, g) in enumerate(zip(xs, ds, impl['im'])):
            him = Fraction(H * d)                  # the imaginary part that was fed in
            g = dec(g)
            if x != 0:
                exp = him if x > 0 else -him       # step * sign(x) * d
                if g != exp:
                    return {'what': 'abs: imaginary part is not step*sign(x)*d', 'index': i,
                            'got': rat(g) if isinstance(g, Fraction) else str(g), 'expected': rat(exp)}
            elif abs(g) != abs(him):               # kink: either one-sided derivative
                return {'what': 'abs: imaginary part at the kink is not +-step*d', 'index': i,
                        'got': rat(g) if isinstance(g, Fraction) else str(g), 'expected': rat(abs(him))}
        return None

    def _slices(self, shape, axis):
        """Index lists of the slices reduced by np.sum(axis=axis), in output order."""
        n = shape_size(shape)
        if axis is None or len(shape) <= 1:
            return [list(range(n))]
        r, c = shape
        ax = axis % 2
        if ax == 0:
            return [[i * c + j for i in range(r)] for j in range(c)]
        return [[i * c + j for j in range(c)] for i in range(r)]

    def oracle_norm(self, case, impl):
        shape, axis = case['shape'], case['axis']
        xs = np.array(fl(case['x']), dtype=float).reshape(shape)
        try:
            ref = np.linalg.norm(xs, axis=axis) if len(shape) else np.linalg.norm(xs)
            ref_err = None
        except Exception as e:
            ref, ref_err = None, err_enum(e)
        if 'error' in impl:
            if ref_err is not None:
                return None                        # both reject the axis
            return {'what': 'norm raised %s where np.linalg.norm returns' % impl['error'],
                    'msg': impl.get('msg')}
        if ref_err is not None:
            return {'what': 'norm returned where np.linalg.norm raises %s' % ref_err}
        ref = np.asarray(ref)
        bad = self._expect_shape(impl, ref.shape, 'norm')
        if bad:
            return bad
        X = [dec(v) for v in case['x']]
        D = None if case['d'] is None else [dec(v) for v in case['d']]
        sl = self._slices(shape, axis)
        for k, (idx, r) in enumerate(zip(sl, ref.ravel().tolist())):
            g = dec(impl['re'][k])
            if special(impl['re'][k]) or not _close(g, r, 0.0, 1e-12):
                return {'what': 'norm: real part differs from np.linalg.norm', 'slice': k,
                        'got': impl['re'][k], 'expected': enc(r)}
            if case['mode'] in ('real', 'int'):
                if impl['im'] is not None and dec(impl['im'][k]) != 0:
                    return {'what': 'norm: real input gave an imaginary part'}
                continue
            if impl['im'] is None:
                return {'what': 'norm: complex input gave a real result'}
            gi = impl['im'][k]
            if special(gi):
                return {'what': 'norm: imaginary part is %s' % gi, 'slice': k}
            gi = dec(gi) / HF
            ss = sum(X[i] * X[i] for i in idx)
            if D is None:
                exp, scale = Fraction(0), 0.0
            elif ss == 0:
                # zero vector: one-sided directional derivative +-||d||
                exp = math.sqrt(float(sum(D[i] * D[i] for i in idx)))
                if not _close(abs(gi), exp, 0.0):
                    return {'what': 'norm: imaginary part at the zero vector is not +-step*||d||',
                            'slice': k, 'got': float(gi), 'expected': exp}
                continue
            else:
                nrm = math.sqrt(float(ss)) if ss > 0 else 0.0
                exp = float(sum(X[i] * D[i] for i in idx)) / nrm
                scale = float(sum(abs(X[i] * D[i]) for i in idx)) / nrm
            if not _close(gi, exp, scale):
                return {'what': 'norm: imaginary part is not step * sum(x d)/||x||', 'slice': k,
                        'got': float(gi), 'expected': float(exp)}
        return None

    def oracle_arctan2(self, case, impl):
        if 'error' in impl and impl['error'] != 'ZeroDivisionError':
            return {'what': 'arctan2 raised %s' % impl['error'], 'msg': impl.get('msg')}
        A = [dec(v) for v in case['y']]
        C = [dec(v) for v in case['x']]
        n = len(A)
        cplx = case['dy'] is not None or case['dx'] is not None
        B = [dec(v) for v in case['dy']] if case['dy'] is not None else [Fraction(0)] * n
        Dd = [dec(v) for v in case['dx']] if case['dx'] is not None else [Fraction(0)] * n
        if 'error' in impl:
            # only a complex-dtype scalar call at the origin may divide by zero (the angle is
            # not differentiable there; the property says nothing)
            if cplx and n == 1 and A[0] == 0 and C[0] == 0:
                return None
            return {'what': 'arctan2 raised ZeroDivisionError away from the origin'}
        bad = self._expect_shape(impl, case['shape'], 'arctan2')
        if bad:
            return bad
        ref = np.arctan2(np.array([float(v) for v in A]), np.array([float(v) for v in C])).tolist()
        if not cplx and impl['im'] is not None:
            return {'what': 'arctan2: real input gave a complex result'}
        if cplx and impl['im'] is None:
            return {'what': 'arctan2: complex input gave a real result'}
        for i in range(n):
            origin = A[i] == 0 and C[i] == 0
            if origin and cplx:
                continue                           # undefined point, see above
            if impl['re'][i] != enc(ref[i]) and not (dec(impl['re'][i]) == 0 and ref[i] == 0):
                return {'what': 'arctan2: real part differs from np.arctan2', 'index': i,
                        'got': impl['re'][i], 'expected': enc(ref[i])}
            if not cplx:
                continue
            gi = impl['im'][i]
            if special(gi):
                return {'what': 'arctan2: imaginary part is %s' % gi, 'index': i}
            gi = dec(gi) / HF
            den = A[i] * A[i] + C[i] * C[i]
            exp = (C[i] * B[i] - A[i] * Dd[i]) / den
            scale = (abs(C[i] * B[i]) + abs(A[i] * Dd[i])) / den
            if not _close(gi, exp, scale):
                return {'what': 'arctan2: imaginary part is not step*(c b - a d)/(a^2+c^2)',
                        'index': i, 'got': float(gi), 'expected': float(exp)}
        return None

    # reference formulas of the smooth helpers (NumPy) and their analytic derivatives ---------------
    @staticmethod
    def _sech2(u):
        c = np.cosh(np.clip(u, -350, 350))
        return 1.0 / (c * c)

    def smooth_ref(self, case):
        """(value, tangent or None, dict of partials) as float arrays, straight from the docstring
        formulas; derivative by hand (sech^2 = 1/cosh^2)."""
        f = case['func']
        shape = case['shape']
        names, prim, tans = self._smooth_args(case)
        mu = 1e-2 if case['mu'] is None else float(dec(case['mu']))
        x = prim[0]
        part = {}
        if f == 'act_tanh':
            if case.get('full'):
                z, a, b = prim[1], prim[2], prim[3]
            else:
                z, a, b = 0.0, -1.0, 1.0
            u = (x - z) / mu
            t = np.tanh(u)
            val = 0.5 * (b - a) * (1 + t) + a
            dxx = 0.5 * (b - a) * self._sech2(u) / mu
            part = {'x': dxx, 'z': -dxx, 'a': 1 - 0.5 * (1 + t), 'b': 0.5 * (1 + t)}
            mag = np.abs(b - a)
        elif f in ('smooth_max', 'smooth_min'):
            y = prim[1]
            u = (x - y) / mu
            w = 0.5 * (1 + np.tanh(u))
            wp = 0.5 * self._sech2(u) / mu
            if f == 'smooth_max':
                val = w * x + (1 - w) * y
                part = {'x': w + (x - y) * wp, 'y': (1 - w) - (x - y) * wp}
            else:
                val = w * y + (1 - w) * x
                part = {'x': (1 - w) - (x - y) * wp, 'y': w + (x - y) * wp}
            mag = np.abs(x - y)
        elif f == 'smooth_abs':
            u = x / mu
            t = np.tanh(u)
            val = x * t
            part = {'x': t + x * self._sech2(u) / mu}
            mag = np.abs(x)
        else:
            fx = np.floor(x)
            u = (x - fx - 0.5) / mu
            val = fx + 0.5 * (1 + np.tanh(u))
            part = {'x': 0.5 * self._sech2(u) / mu}
            mag = np.ones_like(x)
        tan = None
        if all(t is not None for t in tans):
            tan = sum(part[k] * t for k, t in zip(names, tans))
        vscale = 1.0
        for p in prim:
            vscale = np.maximum(vscale, np.abs(p))
        dscale = (1.0 + mag / mu)
        return (np.broadcast_to(val, shape), None if tan is None else np.broadcast_to(tan, shape),
                part, names, tans, np.broadcast_to(vscale, shape), np.broadcast_to(dscale, shape))

    def oracle_smooth(self, case, impl):
        f, mode = case['func'], case['mode']
        if 'error' in impl:
            return {'what': '%s raised %s (%s)' % (f, impl['error'], mode), 'msg': impl.get('msg')}
        val, tan, part, names, tans, vscale, dscale = self.smooth_ref(case)
        out = impl['val']
        bad = self._expect_shape(out, case['shape'], f)
        if bad:
            return bad
        vs = vscale.ravel().tolist()
        for i, (g, r) in enumerate(zip(out['re'], val.ravel().tolist())):
            if special(g) or not _close(dec(g), r, vs[i]):
                return {'what': '%s: value differs from the NumPy reference formula' % f, 'index': i,
                        'got': g, 'expected': enc(r), 'mode': mode}
        if mode == 'value':
            if out['im'] is not None:
                return {'what': '%s: real input gave a complex result' % f}
            return None
        tmax = max([1e-300] + [float(np.max(np.abs(t))) for t in tans if t is not None])
        ds = dscale.ravel().tolist()
        if mode in ('jvp', 'cs'):
            if mode == 'cs':
                if out['im'] is None:
                    return {'what': '%s: complex input gave a real result' % f}
                got = [None if special(v) else float(dec(v) / HF) for v in out['im']]
            else:
                got = [None if special(v) else float(dec(v)) for v in impl['tan']['re']]
            for i, (g, r) in enumerate(zip(got, tan.ravel().tolist())):
                if g is None or not _close(g, r, ds[i] * tmax, 1e-9):
                    return {'what': '%s: %s differs from the analytic derivative' % (
                        f, 'imag/step' if mode == 'cs' else 'jvp tangent'), 'index': i, 'got': g,
                        'expected': r, 'mode': mode}
            return None
        for k in names:                                   # grad
            g = impl['grad'][k]
            r = float(np.asarray(part[k]).ravel()[0])
            if special(g) or not _close(dec(g), r, ds[0], 1e-9):
                return {'what': '%s: jax.grad differs from the analytic derivative' % f, 'arg': k,
                        'got': g, 'expected': r, 'mode': mode}
        return None

    # -- known-finding signature / evidence labels --------------------------------------------------
    def regime(self, case):
        k = case['kind']
        if case.get('regime'):
            return case['regime']
        if k == 'abs':
            if case['d'] is None:
                return 'real_input'
            return 'kink' if any(dec(v) == 0 for v in case['x']) else 'off_kink'
        if k == 'norm':
            if case['d'] is None:
                return 'real_input'
            X = [dec(v) for v in case['x']]
            sl = self._slices(case['shape'], case['axis'] if case['axis'] in (None, 0, 1, -1, -2)
                              else None)
            return 'zero_slice' if any(all(X[i] == 0 for i in idx) for idx in sl) else 'nonzero'
        if k == 'arctan2':
            if case['dy'] is None and case['dx'] is None:
                return 'real_input'
            A = [dec(v) for v in case['y']]
            C = [dec(v) for v in case['x']]
            if any(a == 0 and c == 0 for a, c in zip(A, C)):
                return 'origin'
            if any(a == 0 or c == 0 for a, c in zip(A, C)):
                return 'on_axis'
            return 'generic'
        return case['mode']

    def signature(self, case, impl, failure):
        sig = {'kind': case['kind'], 'form': case.get('form'), 'regime': self.regime(case),
               'error': impl.get('error')}
        if case['kind'] == 'smooth':
            sig['func'] = case['func']
            sig['mode'] = case['mode']
        return sig

    def nontrivial(self, case, impl):
        for k in ('d', 'dx', 'dy'):
            v = case.get(k)
            if v is not None and any(dec(t) != 0 for t in v):
                return True
        return any((not special(v)) and dec(v) <= 0 for v in case.get('x', []))

    def bucket(self, case, impl):
        k = case['kind']
        out = ['kind=' + k, '%s:ndim=%d' % (k, len(case['shape'])),
               ('%s:raised=%s' % (k, impl['error'])) if 'error' in impl else 'impl_ok']
        if k != 'smooth':
            out.append('%s:regime=%s' % (k, self.regime(case)))
        if k != 'smooth':
            out.append('%s:form=%s' % (k, case['form']))
        if k in ('abs', 'norm'):
            out.append('%s:input=%s' % (k, case['mode']))
        if k == 'norm':
            out.append('norm:axis=%s' % case['axis'])
        if k == 'arctan2':
            out.append('arctan2:complex=%s%s' % ('y' if case['dy'] is not None else '',
                                                 'x' if case['dx'] is not None else ''))
        if k == 'smooth':
            out.append('smooth:%s' % case['func'])
            out.append('smooth:mode=%s' % case['mode'])
            out.append('smooth:mu=%s' % ('default' if case['mu'] is None else float(dec(case['mu']))))
            X = fl(case['x'])
            if 'y' in case and any(a == b for a, b in zip(X, fl(case['y']))):
                out.append('smooth:tie')
            if case['func'] == 'smooth_round' and any(v == math.floor(v) for v in X):
                out.append('smooth_round:integer')
            if case['func'] == 'smooth_round' and any(v - math.floor(v) == 0.5 for v in X):
                out.append('smooth_round:half_integer')
        return out

    # -- model -------------------------------------------------------------------------------------
    @staticmethod
    def _duals(x, d):
        if d is None:
            return [[v, "0/1"] for v in x]
        return [[v, w] for v, w in zip(x, d)]

    def model_requests(self, case, impl):
        if case['kind'] == 'smooth' and case['mode'] == 'grad':
            return self.grad_requests(case, impl)
        return self.plain_requests(case, impl)

    def plain_requests(self, case, impl):
        k = case['kind']
        if any(special(v) for v in case.get('x', [])):
            return []                                   # inf inputs: oracle only
        if k == 'abs':
            z = self._duals(case['x'], case['d'])
            if case['form'] == 'array':
                return [{'op': 'abs_array', 'z': z}]
            return [{'op': 'abs_scalar', 'z': z[0]}]
        if k == 'norm':
            z = self._duals(case['x'], case['d'])
            shape = case['shape']
            if len(shape) == 2:
                rows = [z[i * shape[1]:(i + 1) * shape[1]] for i in range(shape[0])]
            else:
                rows = [z]
            return [{'op': 'norm', 'ndim': len(shape), 'rows': rows, 'axis': case['axis']}]
        if k == 'arctan2':
            ys = self._duals(case['y'], case['dy'])
            xs = self._duals(case['x'], case['dx'])
            c = case['dy'] is not None or case['dx'] is not None
            return [{'op': 'arctan2', 'y': y, 'x': x, 'complex': c} for y, x in zip(ys, xs)]
        f = case['func']
        n = len(case['x'])
        mu = case['mu'] if case['mu'] is not None else rat(1e-2)
        req = {'op': f, 'mu': mu, 'x': self._duals(case['x'], case.get('dx'))}
        if f in ('smooth_max', 'smooth_min'):
            req['y'] = self._duals(case['y'], case.get('dy'))
        if f == 'act_tanh':
            if case.get('full'):
                for key in ('z', 'a', 'b'):
                    req[key] = [[case[key], case.get('d' + key, "0/1")]] * n
            else:
                req['z'] = [["0/1", "0/1"]] * n
                req['a'] = [["-1/1", "0/1"]] * n
                req['b'] = [["1/1", "0/1"]] * n
        return [req]

    def compare(self, case, impl, answers):
        with np.errstate(all='ignore'):
            return getattr(self, 'compare_' + case['kind'])(case, impl, answers)

    def compare_abs(self, case, impl, answers):
        if 'error' in impl:
            return 'abs raised %s, model returns a value' % impl['error']
        a = answers[0]
        v = a['v'] if case['form'] == 'array' else [a['v']]
        if case['form'] == 'array' and not (a['v'] == a['masked'] == a['elem']):
            return 'model: absArray / absArrayMasked / elementwise rule disagree (theorem violated?)'
        ds = None if case['d'] is None else fl(case['d'])
        for i, m in enumerate(v):
            if unrat(m[0]) != dec(impl['re'][i]):
                return 'abs[%d]: model re %s, implementation %s' % (i, m[0], impl['re'][i])
            im = Fraction(0) if impl['im'] is None else dec(impl['im'][i])
            # the model's dual part is +-d or 0: the imaginary part must be the same multiple of H*d
            mdu = unrat(m[1])
            exp = Fraction(0)
            if ds is not None and mdu != 0:
                exp = Fraction(H * ds[i]) * (1 if mdu == Fraction(ds[i]) else -1)
                if abs(mdu) != abs(Fraction(ds[i])):
                    return 'abs[%d]: model dual part %s is not +-d' % (i, m[1])
            if im != exp:
                return 'abs[%d]: model du %s -> imag %s, implementation %s' % (
                    i, m[1], rat(exp), rat(im))
        return None

    def compare_norm(self, case, impl, answers):
        a = answers[0]
        if 'error' in impl:
            if a.get('ok'):
                return 'norm raised %s, model returns %s' % (impl['error'], a['v'])
            return None
        if not a.get('ok'):
            return 'model rejects the axis, implementation returned shape %s' % impl['shape']
        if len(a['v']) != len(impl['re']):
            return 'norm: model has %d outputs, implementation %d' % (len(a['v']), len(impl['re']))
        X = [dec(v) for v in case['x']]
        D = None if case['d'] is None else [dec(v) for v in case['d']]
        sl = self._slices(case['shape'], case['axis'])
        for k, (m, ssq) in enumerate(zip(a['v'], a['ssq'])):
            g = dec(impl['re'][k])
            if not _close(g, unrat(m[0]), 0.0, 1e-12):
                return 'norm[%d]: model re %s, implementation %s' % (k, float(unrat(m[0])), float(g))
            # exact rational core: n^2 = sum a^2
            if not _close(Fraction(g) ** 2, unrat(ssq[0]), 0.0, 1e-12):
                return 'norm[%d]: implementation^2 %s, model sum of squares %s' % (
                    k, float(g) ** 2, float(unrat(ssq[0])))
            gi = Fraction(0) if impl['im'] is None else dec(impl['im'][k]) / HF
            idx = sl[k]
            scale = 0.0
            if D is not None and g != 0:
                scale = float(sum(abs(X[i] * D[i]) for i in idx)) / float(g)
            if not _close(gi, unrat(m[1]), scale):
                return 'norm[%d]: model du %s, implementation imag/h %s' % (
                    k, float(unrat(m[1])), float(gi))
            # 2 n du = d(sum a^2)
            if not _close(2 * Fraction(g) * gi, unrat(ssq[1]), 2 * scale * float(g)):
                return 'norm[%d]: 2*n*du %s, model d(sum of squares) %s' % (
                    k, float(2 * Fraction(g) * gi), float(unrat(ssq[1])))
        return None

    def compare_arctan2(self, case, impl, answers):
        n = len(answers)
        if 'error' in impl:
            if n == 1 and not answers[0].get('ok'):
                return None                              # both undefined at the origin
            return 'arctan2 raised %s, model returns a value' % impl['error']
        A = [dec(v) for v in case['y']]
        C = [dec(v) for v in case['x']]
        B = [dec(v) for v in case['dy']] if case['dy'] is not None else [Fraction(0)] * n
        Dd = [dec(v) for v in case['dx']] if case['dx'] is not None else [Fraction(0)] * n
        for i, a in enumerate(answers):
            if not a.get('ok'):
                if impl['re'][i] == 'nan':
                    continue
                return 'arctan2[%d]: model undefined (origin), implementation %s' % (i, impl['re'][i])
            if special(impl['re'][i]):
                return 'arctan2[%d]: implementation %s, model %s' % (i, impl['re'][i], a['v'])
            if not _close(dec(impl['re'][i]), unrat(a['v'][0]), 1e-3, 1e-13):
                return 'arctan2[%d]: model re %s, implementation %s' % (
                    i, float(unrat(a['v'][0])), float(dec(impl['re'][i])))
            gi = Fraction(0) if impl['im'] is None else dec(impl['im'][i]) / HF
            den = A[i] * A[i] + C[i] * C[i]
            scale = (abs(C[i] * B[i]) + abs(A[i] * Dd[i])) / den if den else 0
            if not _close(gi, unrat(a['v'][1]), scale):
                return 'arctan2[%d]: model du %s, implementation imag/h %s' % (
                    i, float(unrat(a['v'][1])), float(gi))
        return None

    def compare_smooth(self, case, impl, answers):
        f, mode = case['func'], case['mode']
        if mode == 'grad':
            return self.compare_grad(case, impl, answers)
        if 'error' in impl:
            return '%s (%s) raised %s, model returns a value' % (f, mode, impl['error'])
        v = answers[0]['v']
        _, _, part, names, tans, vscale, dscale = self.smooth_ref(case)
        vs = vscale.ravel().tolist()
        ds = dscale.ravel().tolist()
        out = impl['val']
        tmax = max([1e-300] + [float(np.max(np.abs(t))) for t in tans if t is not None])
        for i, m in enumerate(v):
            if not _close(dec(out['re'][i]), unrat(m[0]), vs[i]):
                return '%s[%d]: model value %s, implementation %s' % (
                    f, i, float(unrat(m[0])), float(dec(out['re'][i])))
            if mode == 'jvp':
                g = dec(impl['tan']['re'][i])
            elif mode == 'cs':
                g = dec(out['im'][i]) / HF
            else:
                continue
            if not _close(g, unrat(m[1]), ds[i] * tmax, 1e-9):
                return '%s[%d] (%s): model du %s, implementation %s' % (
                    f, i, mode, float(unrat(m[1])), float(g))
        return None

    def grad_requests(self, case, impl):
        """`grad` mode: the model is asked once per argument with a unit tangent on that argument."""
        names, _, _ = self._smooth_args(case)
        reqs = []
        for k in names:
            c = dict(case)
            c['mode'] = 'jvp'
            c['dx'] = [rat(1 if k == 'x' else 0)]
            if 'y' in c:
                c['dy'] = [rat(1 if k == 'y' else 0)]
            for kk in ('z', 'a', 'b'):
                if kk in c:
                    c['d' + kk] = rat(1 if k == kk else 0)
            reqs.extend(self.plain_requests(c, impl))
        return reqs

    def compare_grad(self, case, impl, answers):
        if 'error' in impl:
            return '%s (grad) raised %s, model returns a value' % (case['func'], impl['error'])
        _, _, part, names, tans, vscale, dscale = self.smooth_ref(case)
        ds = dscale.ravel().tolist()
        for k, a in zip(names, answers):
            m = a['v'][0]
            if not _close(dec(impl['val']['re'][0]), unrat(m[0]), vscale.ravel()[0]):
                return '%s: model value %s, implementation %s' % (
                    case['func'], float(unrat(m[0])), float(dec(impl['val']['re'][0])))
            if not _close(dec(impl['grad'][k]), unrat(m[1]), ds[0], 1e-9):
                return '%s: d/d%s model %s, jax.grad %s' % (
                    case['func'], k, float(unrat(m[1])), float(dec(impl['grad'][k])))
        return None


PROP = C30()
