"""C01 — total derivatives equal the exact derivative of the converged model."""
import random
import warnings
from fractions import Fraction

import numpy as np

import genmodel as gm
from common import Property, rat, unrat, Infra

RTOL = 1e-8

LINEAR = [None, 'runonce', 'direct', 'direct_asm', 'krylov', 'lbgs']


def rand_cfg(rng, cyclic=False):
    cfg = {'mode': rng.choice(['fwd', 'rev', 'auto']),
           'linear': rng.choice(['direct', 'direct_asm', 'krylov', 'lbgs']) if cyclic
           else rng.choice(LINEAR),
           'nonlinear': rng.choice(['nlbgs', 'newton', 'nlbgs', 'nlbjac']) if cyclic else None,
           'sub_linear': rng.choice([None, None, 'direct', 'lbgs', 'direct', 'krylov']),
           'rhs_checking': rng.choice([None, True, True, {'check_zero': True},
                                       {'max_cache_entries': 1, 'check_zero': True}]),
           'jac': rng.choice([None, None, 'dense', 'csc']),
           'partials': rng.choice([None, None, 'dense', 'sparse', 'cs', 'matfree']),
           'return_format': rng.choice(['array', 'flat_dict', 'dict']),
           'driver_scaling': rng.random() < 0.5}
    if cfg['linear'] == 'direct_asm' and cfg['jac'] is None:
        cfg['jac'] = rng.choice(['dense', 'csc'])
    if not cyclic and rng.random() < 0.2:
        # three levels: block solver at the root, Krylov on its children, assembled jacobians below
        cfg['linear'] = rng.choice([None, 'runonce', 'lbgs'])
        cfg['sub_by_depth'] = {'1': 'krylov', '2': rng.choice(['direct_asm', 'direct_asm', 'direct'])}
        cfg['jac'] = rng.choice(['dense', 'csc'])
        # the Krylov level mostly works matrix-free on the vectors of the assembled level below
        cfg['krylov_assemble'] = rng.random() < 0.3
    if cfg['linear'] != 'direct_asm' and cfg['linear'] != 'krylov':
        # an assembled jacobian is only used by solvers that ask for it
        pass
    return cfg


class C01(Property):
    pid = 'C01'
    _cond_cache = {}
    COND_MAX = 1e11
    workers = 8
    tolerance = RTOL
    required_theorems = ['C01_exact_derivative', 'C01_fwd_eq_rev', 'C01_unique', 'C01_scaled_entry',
                         'C01_gs_fixed_point', 'C01_runonce_triangular']
    rule = ("cases: random models from harness/genmodel.py (polynomial explicit components in nested "
            "groups, promotions/connect with src_indices chains, units, auto-IVC) x random design "
            "variables/responses (indices, units, scaler/adder/ref/ref0) x configuration (mode fwd/rev/"
            "auto, linear solver, assembled jacobian dense/csc, partials dense/sparse/cs/matrix-free, "
            "return format, driver_scaling); real Problem.compute_totals compared with the Lean "
            "driver's exact rational Jacobian and with an exact dual-number oracle. Non-trivial: the "
            "exact Jacobian has a nonzero entry; distinct by (seed, configuration).")
    assumptions = ["comparison tolerance 1e-8 relative to max(1,|J|) (double rounding through solves); "
                   "1e-6 when an iterative linear or nonlinear solver is part of the configuration; "
                   "widened to 1e-14 x cond(dR/du) and not compared at all above cond 1e11 (chained "
                   "polynomial components can make the exact system numerically singular; seen: 1e30)",
                   "models are polynomial with rational data so that the exact Jacobian is computable"]
    trusted_extra = ["NumPy indexing for src_indices and desvar/response indices",
                     "scipy/LAPACK linear solves inside OpenMDAO's solvers (results only compared)"]
    level_text = ("compute_totals is modelled as certified linear solves against the symbolic "
                  "partial-derivative matrix of the flat residual system. Proved in Lean for every "
                  "polynomial residual system: a solution of the linearised system is the exact "
                  "first-order change of the converged state (dual numbers), forward and reverse seeds "
                  "give the same entry (adjoint identity), the solution is unique given a left inverse, "
                  "unit/driver scaling of an entry is the affine chain rule, a fixed point of the block "
                  "Gauss-Seidel visit solves the linear system (LinearBlockGS) and one pass in an order "
                  "that makes the matrix triangular is an exact solve (LinearRunOnce, fwd on A and rev on "
                  "A^T). The Lean driver executes "
                  "these definitions in exact rationals on every generated model and the real "
                  "compute_totals must match it under the configuration cross product.")
    level_note = ("partial: theorems are about the flat ModelSpec; OpenMDAO's setup, vector layout, "
                  "relevance and solver implementations are tied only by differential runs; smooth "
                  "non-polynomial components are outside the model; floats by tolerance.")
    technique = "Lean 4 proof (dual numbers, big-operator algebra) + exact-rational differential oracle"

    def cases(self, rng, tier):
        n = 40 if tier == 'quick' else 1500
        # family: one response is a multiple of another, reverse mode, solvers with rhs_checking
        # inside sub-groups (redundant adjoint solves served from the LinearRHSChecker cache)
        for _ in range(8 if tier == 'quick' else 150):
            cfg = rand_cfg(rng, False)
            cfg.update(mode='rev', linear=rng.choice([None, 'runonce', 'lbgs', 'direct']),
                       sub_linear=rng.choice(['direct', 'direct', 'krylov']),
                       rhs_checking=rng.choice([True, True, {'check_zero': True}]))
            yield {'gen_seed': rng.randrange(10 ** 9),
                   'opts': {'safe_indices': True, 'scaling': rng.random() < 0.4,
                            'array_scaling': True, 'implicit': rng.random() < 0.3,
                            'cycles': False, 'resp_chain': True, 'n_comps': (3, 6)},
                   'cfg': cfg}
        # family: three solver levels — a block solver at the root, a matrix-free Krylov solver on
        # its child groups, assembled jacobians (DirectSolver) on the grandchildren: the assembled
        # level is applied under differently scoped vectors by the two levels above it
        for _ in range(4 if tier == 'quick' else 200):
            cfg = rand_cfg(rng, False)
            cfg.update(linear=rng.choice([None, 'runonce', 'lbgs']), sub_linear=None,
                       sub_by_depth={'1': 'krylov', '2': rng.choice(['direct_asm', 'direct_asm', 'direct'])},
                       jac=rng.choice(['dense', 'csc']), krylov_assemble=False)
            yield {'gen_seed': rng.randrange(10 ** 9),
                   'opts': {'safe_indices': True, 'scaling': rng.random() < 0.3,
                            'array_scaling': True, 'implicit': rng.random() < 0.3,
                            'cycles': False, 'n_comps': (5, 9)},
                   'cfg': cfg}
        for _ in range(n):
            cyc = rng.random() < 0.4
            yield {'gen_seed': rng.randrange(10 ** 9),
                   'opts': {'safe_indices': rng.random() < 0.6, 'scaling': rng.random() < 0.4,
                            'array_scaling': True, 'implicit': rng.random() < 0.5,
                            'cycles': 'converging' if cyc else False,
                            'resp_chain': rng.random() < 0.4},
                   'cfg': rand_cfg(rng, cyc)}

    def _md(self, case):
        rng = random.Random(case['gen_seed'])
        md = gm.gen_md(rng, **case['opts'])
        voi = gm.gen_voi(rng, md)
        return md, voi

    def run_impl(self, case):
        res = self._run_once(case, case['cfg'])
        if res.get('error') == 'AnalysisError' and 'SCIPY' in res.get('msg', ''):
            # ScipyKrylov reported non-convergence.  Do not let that hide wrong derivatives: solve
            # again with un-restarted GMRES and the error flag off; if the values are then wrong
            # although the same solver is right with relevance pruning disabled, the totals are
            # wrong for a reason other than convergence.
            import openmdao.utils.relevance as R
            cfg2 = dict(case['cfg'], krylov_err=False, krylov_restart=200)
            r2 = self._run_once(case, cfg2)
            if 'error' not in r2:
                saved = R._no_relevance
                R._no_relevance = True
                try:
                    r3 = self._run_once(case, cfg2)
                finally:
                    R._no_relevance = saved
                if 'error' not in r3:
                    res = dict(r2, krylov_reported_failure=True, J_no_relevance=r3['J'])
        return res

    def _run_once(self, case, cfg):
        md, voi = self._md(case)
        res = {}
        try:
            with warnings.catch_warnings():
                warnings.simplefilter('ignore')
                p, info = gm.build_problem(md, cfg=cfg)
                gm.add_voi(p, md, voi)
                p.setup(mode=cfg['mode'], force_alloc_complex=True)
                gm.set_auto_ivc_values(p, md)
                p.run_model()
                outs, ins = gm.exact_state(md)
                # compared relative to the largest value the same component produces: its
                # polynomial terms reach that size, and a small entry is then only known to that
                # many digits in doubles (seen: 1298.0 for 1298.2126 next to entries of 3e15)
                cscale = {}
                for k, v in outs.items():
                    comp = k.rpartition('.')[0]
                    cscale[comp] = max([cscale.get(comp, 1.0)] + [abs(float(x)) for x in v])
                res['converged_to_exact'] = all(
                    np.allclose(np.asarray(p.get_val(k)).ravel(), [float(x) for x in v], rtol=1e-9,
                                atol=1e-10 + 1e-13 * cscale[k.rpartition('.')[0]])
                    for k, v in outs.items())
                J = p.compute_totals(return_format=cfg['return_format'],
                                     driver_scaling=cfg['driver_scaling'])
                ofs = [v['name'] for v in voi['responses']]
                wrts = [v['name'] for v in voi['desvars']]
                rows = []
                if cfg['return_format'] == 'array':
                    A = np.atleast_2d(J)
                else:
                    blocks = []
                    for o in ofs:
                        brow = []
                        for w in wrts:
                            b = J[o, w] if cfg['return_format'] == 'flat_dict' else J[o][w]
                            brow.append(np.atleast_2d(b))
                        blocks.append(brow)
                    A = np.block(blocks)
                res['J'] = A.tolist()
                res['shape'] = list(A.shape)
                # second call must give the same matrix (no state leaks between calls)
                J2 = p.compute_totals(return_format='array', driver_scaling=cfg['driver_scaling'])
                res['repeat_equal'] = bool(np.array_equal(np.atleast_2d(J2), A)) \
                    if np.atleast_2d(J2).shape == A.shape else False
        except Exception as e:
            res['error'] = type(e).__name__
            res['msg'] = str(e)[:300]
        return res

    def _expected(self, case, Jmodel):
        """Scale an exact model-unit Jacobian to what the API should report."""
        md, voi = self._md(case)
        rs, cs = [], []
        for r in voi['responses']:
            tot, fac = gm.voi_scaler(md, r)
            pos, _ = gm.voi_positions(md, r)
            rs.extend([tot if case['cfg']['driver_scaling'] else fac] * len(pos))
        for v in voi['desvars']:
            tot, fac = gm.voi_scaler(md, v)
            pos, _ = gm.voi_positions(md, v)
            cs.extend([tot if case['cfg']['driver_scaling'] else fac] * len(pos))
        return [[Jmodel[i][l] * rs[i] / cs[l] for l in range(len(cs))] for i in range(len(rs))]

    def _cond(self, case):
        """2-norm condition number of the exact linearised system (doubles).  Chained polynomial
        components with unit conversions can make it astronomically large; what a solver of the real
        code (LU, GMRES, block relaxation) can then deliver is bounded by cond x eps, not by the
        property."""
        key = case['gen_seed']
        c = self._cond_cache.get(key)
        if c is None:
            md, _ = self._md(case)
            try:
                A = np.array([[float(x) for x in r] for r in gm.exact_system_matrix(md)])
                c = float(np.linalg.cond(A)) if A.size else 1.0
            except Exception:
                c = 1.0
            if not np.isfinite(c):
                c = 1e300
            self._cond_cache[key] = c
        return c

    def _tol(self, case):
        cfg = case['cfg']
        iterative = {'lbgs', 'lbjac', 'krylov'}
        if cfg.get('linear') in iterative or cfg.get('sub_linear') in iterative \
                or cfg.get('nonlinear'):
            tol = 1e-6      # iterative solves stop at their own tolerance
        else:
            tol = RTOL
        return max(tol, 1e-14 * self._cond(case))

    def _diff(self, got, exp, tol=RTOL):
        if len(got) != len(exp) or (exp and len(got[0]) != len(exp[0])):
            return 'shape %sx%s vs expected %sx%s' % (len(got), len(got[0]) if got else 0,
                                                    len(exp), len(exp[0]) if exp else 0)
        scale = max([1.0] + [abs(float(x)) for r in exp for x in r])
        for i, (gr, er) in enumerate(zip(got, exp)):
            for l, (g, e) in enumerate(zip(gr, er)):
                if not abs(g - float(e)) <= tol * scale:
                    return 'entry (%d,%d): got %r expected %r' % (i, l, g, float(e))
        return None

    def oracle(self, case, impl):
        md, voi = self._md(case)
        if impl.get('error') == 'AnalysisError':
            return None     # a solver reported non-convergence: the property's premise is false
        if 'error' in impl:
            return {'what': 'setup/run_model/compute_totals raised %s' % impl['error'],
                    'msg': impl.get('msg')}
        if not impl.get('converged_to_exact'):
            if md.get('cyclic'):
                # the property is conditional on convergence; an iterative nonlinear solve that
                # stopped elsewhere is not a C01 matter (C09 covers the solver contract)
                return None
            return {'what': 'acyclic model: outputs after run_model differ from the exact state'}
        if self._cond(case) > self.COND_MAX:
            return None     # numerically singular linearised system: no solver is held to it
        exp = self._expected(case, gm.exact_totals_linsolve(md, voi))
        d = self._diff(impl['J'], exp, self._tol(case))
        if d is not None and impl.get('krylov_reported_failure') and \
                self._diff(impl['J_no_relevance'], exp, self._tol(case)) is not None:
            return None     # the solver cannot solve this system either way: premise false
        if d is not None:
            return {'what': 'compute_totals differs from the exact derivative', 'detail': d,
                    'expected': [[float(x) for x in r] for r in exp], 'got': impl['J']}
        if not impl['repeat_equal']:
            return {'what': 'second compute_totals call returned a different matrix'}
        return None

    def signature(self, case, impl, failure):
        cfg = case['cfg']
        return {'what': failure.get('what'), 'error': impl.get('error'), 'mode': cfg['mode'],
                'driver_scaling': cfg['driver_scaling']}

    def nontrivial(self, case, impl):
        if self._cond(case) > self.COND_MAX:
            return False
        md, voi = self._md(case)
        return bool(impl.get('converged_to_exact')) and \
            any(x != 0 for r in gm.exact_totals_linsolve(md, voi) for x in r)

    def bucket(self, case, impl):
        cfg = case['cfg']
        md, voi = self._md(case)
        b = ['solver_reported_failure' if impl.get('error') == 'AnalysisError' else 'impl_error' if 'error' in impl else 'impl_ok',
             'cyclic' if md.get('cyclic') else 'acyclic',
             'converged' if impl.get('converged_to_exact') else 'not_converged_to_exact']
        if any(c['kind'] == 'implicit' for c in md['comps']):
            b.append('has_implicit_comp')
        cn = self._cond(case)
        b.append('cond>1e11(not compared)' if cn > self.COND_MAX else
                 'cond 1e6..1e11' if cn > 1e6 else 'cond<=1e6')
        for k in ('mode', 'linear', 'nonlinear', 'sub_linear', 'jac', 'partials', 'return_format',
                  'driver_scaling'):
            b.append('%s=%s' % (k, cfg[k]))
        for v in voi['desvars'] + voi['responses']:
            b.append('voi_indices' if v['indices'] is not None else 'voi_full')
            if v['units']:
                b.append('voi_units')
            if v['scaling']:
                b.append('voi_scaled')
        return b

    # -- model -----------------------------------------------------------------------------------
    def model_requests(self, case, impl):
        md, voi = self._md(case)
        return [gm.totals_spec(md, voi)]

    def compare(self, case, impl, answers):
        a = answers[0]
        md, voi = self._md(case)
        if not a.get('ok') or not a.get('resid_zero') or not a.get('fwd_eq_rev'):
            raise Infra('Lean totals: ok=%s resid_zero=%s fwd_eq_rev=%s' % (
                a.get('ok'), a.get('resid_zero'), a.get('fwd_eq_rev')))
        JL = [[unrat(x) for x in r] for r in a['J']]
        # the two exact computations (Lean linearised solve, Python dual numbers) must coincide
        if JL != gm.exact_totals_linsolve(md, voi):
            raise Infra('Lean exact Jacobian differs from the dual-number oracle')
        # feed-forward models of explicit components: the linearised system is triangular in
        # execution order and one run-once pass (fwd on A, rev on A^T) is the exact solve
        if not md.get('cyclic') and all(c['kind'] != 'implicit' for c in md['comps']):
            if not (a.get('tri') and a.get('runonce_fwd') and a.get('runonce_rev')):
                raise Infra('Lean run-once sweep: tri=%s fwd=%s rev=%s on a feed-forward model' % (
                    a.get('tri'), a.get('runonce_fwd'), a.get('runonce_rev')))
        if impl.get('error') == 'AnalysisError':
            return None
        if 'error' in impl:
            return 'implementation raised %s; the model returns a Jacobian' % impl['error']
        if not impl.get('converged_to_exact'):
            return None
        if self._cond(case) > self.COND_MAX:
            return None
        d = self._diff(impl['J'], self._expected(case, JL), self._tol(case))
        return None if d is None else 'compute_totals vs model: ' + d


PROP = C01()
