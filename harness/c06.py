"""C06 — unit conversion is a consistent affine algebra.

Every case is a *script* of public API calls (`is_compatible`, `unit_conversion`, `convert_units`,
`simplify_unit`, plus `_find_unit` to read factor / offset / powers) that is executed from the
pristine library state (`import_library(unit_library.ini)`), because `_find_unit` mutates
`unit_table` (prefixed units are added on demand) and what it accepts depends on that state.
The Lean driver executes the same script with the model of `_find_unit`, threading the table.
"""
import configparser
import math
import os
import re
import warnings
from fractions import Fraction

from common import Property, TieBroken, Infra, rat, unrat, LEAN

REL = 1e-13                 # recorded tolerance (relative, see `close`)
F = Fraction

# SI / IEC prefixes as the standards define them (golden, independent of the shipped table)
GOLDEN_PREFIX = {'Y': F(10) ** 24, 'Z': F(10) ** 21, 'E': F(10) ** 18, 'P': F(10) ** 15,
                 'T': F(10) ** 12, 'G': F(10) ** 9, 'M': F(10) ** 6, 'k': F(10) ** 3,
                 'h': F(10) ** 2, 'da': F(10), 'd': F(1, 10), 'c': F(1, 100), 'm': F(1, 1000),
                 'u': F(1, 10 ** 6), 'n': F(1, 10 ** 9), 'p': F(1, 10 ** 12), 'f': F(1, 10 ** 15),
                 'a': F(1, 10 ** 18), 'z': F(1, 10 ** 21), 'y': F(1, 10 ** 24),
                 'Ki': F(2) ** 10, 'Mi': F(2) ** 20, 'Gi': F(2) ** 30, 'Ti': F(2) ** 40,
                 'Pi': F(2) ** 50, 'Ei': F(2) ** 60}


def _units_mod():
    import openmdao.utils.units as U
    return U


def _ini_path():
    return os.path.join(os.path.dirname(_units_mod().__file__), 'unit_library.ini')


def reset_library():
    """Pristine state: the public `import_library` on the shipped ini file."""
    U = _units_mod()
    with open(_ini_path()) as fh:
        U.import_library(fh)
    return U


def close(a, b, scale=None, k=1.0):
    """|a-b| <= k*REL*scale, scale defaulting to max(|a|,|b|); exact Fractions."""
    a = F(a)
    b = F(b)
    if scale is None:
        scale = max(abs(a), abs(b))
    return abs(a - b) <= F(k) * F(REL) * F(scale)


def _finite(x):
    return isinstance(x, (int, float)) and math.isfinite(x)


# ------------------------------------------------------------------------------------------------
# translator

def lean_str(s):
    return '"' + s.replace('\\', '\\\\').replace('"', '\\"') + '"'


def lean_rat(x):
    f = F(x)
    if f.denominator == 1:
        return '(%d : Rat)' % f.numerator
    return '(mkRat (%d) %d)' % (f.numerator, f.denominator)


def extract_library():
    """(table, prefixes, base_names) of the pristine live library, validated structurally."""
    try:
        U = reset_library()
        lib = U._UNIT_LIB
        table = []
        nb = len(lib.base_names)
        for name, u in lib.unit_table.items():
            if not isinstance(name, str) or not re.fullmatch(r'[A-Za-z_][A-Za-z0-9_]*', name):
                raise TieBroken('unit name %r is not an identifier' % (name,))
            pw = list(u._powers)
            if len(pw) != nb or any(int(p) != p for p in pw):
                raise TieBroken('unit %s: powers %r' % (name, pw))
            if not (_finite(u._factor) and _finite(u._offset)):
                raise TieBroken('unit %s: non-finite factor/offset' % name)
            nm = dict(u._names)
            # `add_unit('degK', 'K')` renames the shared object: the key inside `_names` may be an
            # alias, which must denote the same unit
            if len(nm) != 1 or list(nm.values()) != [1] or list(nm)[0] not in lib.unit_table:
                raise TieBroken('unit %s: _names is %r' % (name, nm))
            alias = list(nm)[0]
            v = lib.unit_table[alias]
            if (v._factor, v._offset, list(v._powers)) != (u._factor, u._offset, pw) or \
                    dict(v._names) != nm:
                raise TieBroken('unit %s is named %s, which is a different unit' % (name, alias))
            table.append((name, F(u._factor), F(u._offset), [int(p) for p in pw], alias))
        prefixes = [(k, F(v)) for k, v in lib.prefixes.items()]
        for k, v in prefixes:
            if not re.fullmatch(r'[A-Za-z]{1,2}', k):
                raise TieBroken('prefix %r is not one or two letters' % (k,))
        return table, prefixes, list(lib.base_names)
    except TieBroken:
        raise
    except Exception as e:      # attribute gone, file unreadable, ...
        raise TieBroken('cannot extract the unit library: %s: %s' % (type(e).__name__, e))


def probe_prefix_guard():
    """Does the tree under test refuse to put a prefix on a unit that an earlier prefix scan added?
    ('dam' after 'am' had been used: decameter (guarded) or deci-attometer (pinned snapshot))."""
    U = reset_library()
    try:
        U._find_unit('am')
        u = U._find_unit('dam')
        guarded = u is not None and abs(float(u._factor) - 10.0) < 1e-9
    finally:
        reset_library()
    return bool(guarded)


def write_generated(table, prefixes, base_names, guard=True):
    offs = [n for n, f, o, p, al in table if o != 0]
    si = [(k, v) for k, v in prefixes if k in GOLDEN_PREFIX]
    L = []
    A = L.append
    A('/-')
    A('GENERATED by harness/c06.py:translate() from the live `openmdao.utils.units._UNIT_LIB` after')
    A('`import_library(unit_library.ini)`; every double is written as its exact rational value.')
    A('Do not edit: rewritten by every `./check C06` run, then re-checked by the kernel.')
    A('-/')
    A('import OMV.Model.C06')
    A('')
    A('namespace OMV.C06.Gen')
    A('open OMV.C06')
    A('')
    A('/-- `alias` is the key inside `_names` (`add_unit(\'degK\', \'K\')` renames the shared object) -/')
    A('def mk (name alias : String) (f o : Rat) (p : List Int) : String × PUnit Rat :=')
    A('  (name, { factor := f, offset := o, powers := p, names := [(Atom.sym alias, Pw.one)] })')
    A('')
    A('def baseNames : List String := [%s]' % ', '.join(lean_str(b) for b in base_names))
    A('')
    A('def unitTable : Table := [')
    for k, (n, f, o, p, al) in enumerate(table):
        A('  mk %s %s %s %s [%s]%s' % (lean_str(n), lean_str(al), lean_rat(f), lean_rat(o),
                                    ', '.join(str(x) for x in p), ',' if k + 1 < len(table) else ''))
    A(']')
    A('')
    A('def prefixes : List (String × Rat) := [')
    for k, (n, v) in enumerate(prefixes):
        A('  (%s, %s)%s' % (lean_str(n), lean_rat(v), ',' if k + 1 < len(prefixes) else ''))
    A(']')
    A('')
    A('def lib : Lib := { table := unitTable, prefixes := prefixes, baseNames := baseNames,')
    A('                   guardPrefixed := %s }' % ('true' if guard else 'false'))
    A('')
    A('/-- the units that carry an offset in the shipped library -/')
    A('def offsetUnits : List String := [%s]' % ', '.join(lean_str(b) for b in offs))
    A('')
    A('/-- SI / IEC prefixes as the standards define them (golden values of the harness) -/')
    A('def goldenPrefixes : List (String × Rat) := [')
    for k, (n, v) in enumerate(si):
        A('  (%s, %s)%s' % (lean_str(n), lean_rat(GOLDEN_PREFIX[n]), ',' if k + 1 < len(si) else ''))
    A(']')
    A('')
    A('theorem table_size : unitTable.length = %d ∧ baseNames.length = %d ∧ prefixes.length = %d := by'
      % (len(table), len(base_names), len(prefixes)))
    A('  decide +kernel')
    A('')
    A('/-- every factor of the shipped library is positive (in particular non-zero) -/')
    A('theorem factor_pos : unitTable.all (fun e => decide (0 < e.2.factor)) = true := by decide +kernel')
    A('')
    A('/-- an offset is present exactly on `offsetUnits` -/')
    A('theorem offset_iff : unitTable.all (fun e => decide (e.2.offset ≠ 0) == offsetUnits.contains e.1) = true := by')
    A('  decide +kernel')
    A('')
    A('/-- every `_powers` list has one entry per base unit -/')
    A('theorem powers_len : unitTable.all (fun e => e.2.powers.length == baseNames.length) = true := by')
    A('  decide +kernel')
    A('')
    A('/-- every table entry is named by one key of the table that denotes the very same unit -/')
    A('theorem names_alias : unitTable.all (fun e =>')
    A('    match e.2.names with')
    A('    | [(Atom.sym a, p)] => decide (p = Pw.one ∧ tlookup unitTable a = some e.2)')
    A('    | _ => false) = true := by decide +kernel')
    A('')
    A('/-- base unit `i` has factor 1, no offset and the `i`-th unit vector as powers -/')
    A('theorem base_units : (List.range baseNames.length).all (fun i =>')
    A('    match tlookup unitTable (baseNames.getD i "") with')
    A('    | some u => decide (u.factor = 1 ∧ u.offset = 0 ∧')
    A('        u.powers = (List.range baseNames.length).map (fun j => if j = i then (1 : Int) else 0))')
    A('    | none => false) = true := by decide +kernel')
    A('')
    A('/-- every prefix multiplier is positive -/')
    A('theorem prefix_pos : prefixes.all (fun e => decide (0 < e.2)) = true := by decide +kernel')
    A('')
    A('/-- the shipped prefix multipliers are the doubles nearest to the SI / IEC values')
    A('(relative distance at most 2^-52) -/')
    A('theorem prefix_golden : goldenPrefixes.all (fun g =>')
    A('    match plookup prefixes g.1 with')
    A('    | some v => decide (ratAbs (v - g.2) * 4503599627370496 ≤ g.2)')
    A('    | none => false) = true := by decide +kernel')
    A('')
    A('end OMV.C06.Gen')
    text = '\n'.join(L) + '\n'
    d = os.path.join(LEAN, 'OMV', 'Generated')
    os.makedirs(d, exist_ok=True)
    p = os.path.join(d, 'C06UnitLib.lean')
    old = open(p).read() if os.path.exists(p) else None
    if old != text:                      # keep the mtime (and lake's cache) when nothing changed
        tmp = p + '.tmp%d' % os.getpid()
        with open(tmp, 'w') as fh:
            fh.write(text)
        os.replace(tmp, p)
    return offs


# ------------------------------------------------------------------------------------------------
# exact "factor implied by the parts" oracle (independent of the Lean model: Python's own parser,
# Fraction arithmetic, the SI prefix rule as documented in unit_library.ini)

class QU(object):
    """(factor, powers) with exact rational arithmetic; `o` is the offset of an untouched library
    unit, any arithmetic yields offset 0."""
    __slots__ = ('f', 'p', 'approx', 'o')
    peak = 0.0          # largest |log10 factor| of any intermediate value since the last reset

    def __init__(self, f, p, approx=False, o=0):
        self.f = F(f)
        self.p = tuple(p)
        self.approx = approx
        self.o = F(o)
        if self.f > 0:
            QU.peak = max(QU.peak, abs(math.log10(self.f.numerator) - math.log10(self.f.denominator)))

    def __mul__(self, o):
        if isinstance(o, QU):
            return QU(self.f * o.f, [a + b for a, b in zip(self.p, o.p)], self.approx or o.approx)
        return QU(self.f * F(o), self.p, self.approx)

    __rmul__ = __mul__

    def __truediv__(self, o):
        if isinstance(o, QU):
            return QU(self.f / o.f, [a - b for a, b in zip(self.p, o.p)], self.approx or o.approx)
        return QU(self.f / F(o), self.p, self.approx)

    def __rtruediv__(self, o):
        return QU(F(o) / self.f, [-a for a in self.p], self.approx)

    def __pow__(self, e):
        if isinstance(e, bool):
            raise TypeError
        if isinstance(e, int):
            return QU(self.f ** e, [a * e for a in self.p], self.approx)
        if isinstance(e, float):
            n = int(round(1.0 / e))
            if n == 0 or abs(1.0 / e - n) > 1e-9:
                raise TypeError('not an inverse integer')
            p = [F(a, n) for a in self.p]
            if any(x.denominator != 1 for x in p):
                raise TypeError('fractional dimension')
            r, exact = frac_root(self.f, n)
            return QU(r, [int(x) for x in p], self.approx or not exact)
        raise TypeError


def int_root(v, n):
    if v < 0:
        return None
    if v < 2:
        return v
    lo, hi = 0, 1 << (v.bit_length() // n + 1)
    while hi - lo > 1:
        mid = (lo + hi) // 2
        if mid ** n <= v:
            lo = mid
        else:
            hi = mid
    return lo if lo ** n == v else None


def frac_root(f, n):
    """f ** (1/n) for n != 0: exact when f is a perfect power, else the double approximation."""
    m = abs(n)
    a = int_root(f.numerator, m)
    b = int_root(f.denominator, m)
    if a is not None and b is not None and f > 0:
        r = F(a, b)
        return (r if n > 0 else 1 / r), True
    return F(float(f) ** (1.0 / n)), False


IDENT = re.compile(r'(?<![0-9.\w])[A-Za-z_][A-Za-z0-9_]*')
AS_RE = re.compile(r'\bas\b')


class Spec(object):
    """Pristine library snapshot + the documented name resolution rule."""

    def __init__(self, table, prefixes, base_names):
        self.units = {n: (f, o, tuple(p)) for n, f, o, p, al in table}
        self.alias = {n: al for n, f, o, p, al in table}
        self.prefixes = dict(prefixes)
        self.base_names = list(base_names)
        self.names = [n for n, f, o, p, al in table]
        self.offset_names = [n for n, f, o, p, al in table if o != 0]
        self.plain_names = [n for n, f, o, p, al in table if o == 0]
        groups = {}
        for n, f, o, p, al in table:
            groups.setdefault(tuple(p), []).append(n)
        self.groups = groups

    def resolve(self, ident):
        """('lib', name) | ('prefixed', prefix, base) | None; whole name first, then a one letter
        prefix, then a two letter prefix ("Unit names are matched before prefix names")."""
        if ident in self.units:
            return ('lib', ident)
        base = ident[1:].rstrip('_')
        if ident[:1] in self.prefixes and base in self.units:
            return ('prefixed', ident[:1], base)
        if ident[:2] in self.prefixes and ident[2:] in self.units:
            return ('prefixed', ident[:2], ident[2:])
        return None

    def implied(self, expr):
        """(factor, powers, offset, approx) implied by the parts of `expr`, or None if the parts
        cannot be resolved / combined by the documented rules."""
        s = AS_RE.sub('as_', expr).strip()
        env = {}
        for ident in set(IDENT.findall(s)):
            r = self.resolve(ident)
            if r is None:
                return None
            if r[0] == 'lib':
                f, o, p = self.units[r[1]]
                env[ident] = QU(f, p, o=o)
            else:
                f, o, p = self.units[r[2]]
                if o != 0:
                    return None
                env[ident] = QU(self.prefixes[r[1]] * f, p)
        QU.peak = 0.0
        try:
            with warnings.catch_warnings():
                warnings.simplefilter('ignore')
                v = eval(s, {'__builtins__': {}}, env)   # nosec: our own generated strings
        except Exception:
            return None
        if not isinstance(v, QU):
            return None
        return v.f, tuple(int(x) for x in v.p), v.o, v.approx

    def base_expr(self, powers):
        num = ''
        den = ''
        for n, p in zip(self.base_names, powers):
            if p > 0:
                num += '*' + n + ('**%d' % p if p > 1 else '')
            elif p < 0:
                den += '/' + n + ('**%d' % -p if p < -1 else '')
        if not num and not den:
            return 'unitless'
        return (num[1:] if num else '1') + den


# ------------------------------------------------------------------------------------------------
# running the real code

def _res_err(e):
    if isinstance(e, ValueError):
        return {'ok': False, 'err': 'invalid', 'type': type(e).__name__}
    return {'ok': False, 'err': 'error', 'type': type(e).__name__}


def _num(x):
    """float -> exact rational string, or None for inf/nan/complex."""
    try:
        if isinstance(x, bool) or not isinstance(x, (int, float)) or not math.isfinite(x):
            return None
        return rat(x)
    except Exception:
        return None


def exec_step(U, st):
    op = st[0]
    try:
        with warnings.catch_warnings():
            warnings.simplefilter('ignore')
            if op == 'find':
                u = U._find_unit(st[1])
                if u is None:
                    return {'ok': False, 'err': 'invalid', 'type': 'None'}
                f, o = _num(u._factor), _num(u._offset)
                pw = list(u._powers)
                if f is None or o is None or any(int(p) != p for p in pw):
                    return {'ok': True, 'nonfinite': True}
                return {'ok': True, 'f': f, 'o': o, 'p': [int(p) for p in pw]}
            if op == 'compat':
                return {'ok': True, 'b': bool(U.is_compatible(st[1], st[2]))}
            if op == 'conv':
                s, d = U.unit_conversion(st[1], st[2])
                s, d = _num(s), _num(d)
                if s is None or d is None:
                    return {'ok': True, 'nonfinite': True}
                return {'ok': True, 's': s, 'd': d}
            if op == 'convert':
                v = _num(U.convert_units(float(unrat(st[1])), st[2], st[3]))
                if v is None:
                    return {'ok': True, 'nonfinite': True}
                return {'ok': True, 'v': v}
            if op == 'simplify':
                s = U.simplify_unit(st[1])
                if s is not None and re.search(r'\b(inf|nan)\b', s):
                    return {'ok': True, 'nonfinite': True}
                return {'ok': True, 's': s}
    except Exception as e:      # the exception is the result
        return _res_err(e)
    raise Infra('unknown step %r' % (st,))


class Runner(object):
    def __init__(self):
        self.U = reset_library()
        self.steps = []
        self.res = []
        self.laws = []

    def do(self, *st):
        st = list(st)
        r = exec_step(self.U, st)
        self.steps.append(st)
        self.res.append(r)
        return len(self.res) - 1, r

    def pair(self, x, a, b, back=True):
        """compat both ways, conversion tuple, convert and (if ok) convert back."""
        i1, _ = self.do('compat', a, b)
        i2, _ = self.do('compat', b, a)
        i3, _ = self.do('conv', a, b)
        i4, r = self.do('convert', x, a, b)
        self.laws.append(['decides', i1, i3, i4, a, b])
        self.laws.append(['symm', i1, i2])
        if back and r.get('ok') and 'v' in r:
            i5, _ = self.do('convert', r['v'], b, a)
            self.laws.append(['roundtrip', i4, i5])
        return i4, r


def program(spec, case):
    R = Runner()
    k = case['kind']
    x = case.get('x', '1/1')
    cold = case.get('cold', True)
    if k == 'pairs':
        a = case['a']
        if not cold:
            R.do('find', a)
            for b in case['bs']:
                R.do('find', b)
        i0, _ = R.do('compat', a, a)
        R.laws.append(['refl', i0])
        for b in case['bs']:
            R.pair(x, a, b)
        R.do('find', a)
        for b in case['bs']:
            R.do('find', b)
    elif k == 'triple':
        a, b, c = case['a'], case['b'], case['c']
        if not cold:
            for e in (a, b, c):
                R.do('find', e)
        i1, r1 = R.do('convert', x, a, b)
        i3, r3 = R.do('convert', x, a, c)
        if r1.get('ok') and 'v' in r1:
            i2, r2 = R.do('convert', r1['v'], b, c)
            R.laws.append(['compose', i1, i2, i3])
        j1, _ = R.do('compat', a, b)
        j2, _ = R.do('compat', b, c)
        j3, _ = R.do('compat', a, c)
        R.laws.append(['trans', j1, j2, j3])
        R.do('conv', a, b)
        R.do('conv', b, c)
        R.do('conv', a, c)
        for e in (a, b, c):
            R.do('find', e)
    elif k in ('expr', 'prefix', 'offset'):
        e = case['e']
        if not cold:
            R.do('find', e)
        i_s, rs = R.do('simplify', e)
        i_f, rf = R.do('find', e)
        i_r = None
        if rs.get('ok') and rs.get('s') is not None:
            i_r, _ = R.do('find', rs['s'])
            R.pair(x, e, rs['s'])
        R.laws.append(['simplify', i_s, i_f, i_r, e])
        if rf.get('ok') and 'p' in rf:
            R.pair(x, e, spec.base_expr(rf['p']))
            R.do('find', spec.base_expr(rf['p']))
        q = case.get('q')
        if q is not None:
            R.pair(x, e, q)
            R.do('find', q)
        i0, _ = R.do('compat', e, e)
        R.laws.append(['refl', i0])
        i2, _ = R.do('find', e)
        R.laws.append(['implied', i2, e])
        if k == 'prefix':
            R.laws.append(['golden', i2, e])
    elif k == 'libdef':
        i1, _ = R.do('find', case['defn'])
        i2, _ = R.do('find', case['name'])
        R.laws.append(['same', i1, i2])
        R.pair(x, case['defn'], case['name'])
    elif k == 'malformed':
        e = case['e']
        q = case.get('q', 'm')
        idx = [R.do('find', e)[0], R.do('simplify', e)[0], R.do('compat', e, q)[0],
               R.do('compat', q, e)[0], R.do('conv', e, q)[0], R.do('convert', x, e, q)[0],
               R.do('convert', x, q, e)[0], R.do('find', e)[0]]
        R.laws.append(['rejected', idx, e])
    elif k == 'stateful':
        for st in case['steps']:
            R.do(*st)
    elif k == 'nounits':
        for a, b in ((None, None), ('', None), (None, ''), ('', ''), ('m', None), (None, 'm')):
            R.do('compat', a, b)
            R.do('convert', x, a, b)
        R.laws.append(['nounits', x])
    else:
        raise Infra('unknown case kind %r' % k)
    return R


# ------------------------------------------------------------------------------------------------
# tokens of a rendered name (to compare `simplify_unit`'s string with the model's `name()` tokens)

TOKEN = re.compile(r'\s*(?:(?P<num>(?:\d+\.?\d*|\.\d+)(?:[eE][-+]?\d+)?)|(?P<id>[A-Za-z_][A-Za-z0-9_]*)'
                   r'|(?P<op>\*\*|\*|/|\(|\)|-))')


def tokenize(s):
    out = []
    pos = 0
    s = s.rstrip()
    while pos < len(s):
        m = TOKEN.match(s, pos)
        if not m:
            return None
        pos = m.end()
        if m.group('num') is not None:
            t = m.group('num')
            if re.fullmatch(r'\d+', t):
                out.append(('int', F(int(t))))
            else:
                out.append(('flt', F(float(t))))
        elif m.group('id') is not None:
            out.append(('id', m.group('id')))
        else:
            out.append(('op', m.group('op')))
    return out


def simplify_cause(spec, e, s, back):
    """Shape of a simplify failure, used in the known-finding signature."""
    if s is None:
        return 'none_for_nonunity'
    toks = tokenize(s) or []
    kinds = [t[0] for t in toks]
    st = (back or {}).get('err') if not (back or {}).get('ok') else 'ok'
    # (with an underscore name in the string the TypeError of the first eval turns into `None`)
    if st != 'ok' and any(a == ('op', '**') and b[0] == 'flt' for a, b in zip(toks, toks[1:])):
        return 'float_power_in_name'
    if st != 'ok' and len(toks) > 1 and any(t[0] == 'id' and t[1] in spec.offset_names for t in toks):
        return 'offset_unit_in_composite'
    if st == 'invalid' and 'id' not in kinds:
        return 'pure_number_name'
    if st == 'ok' and any(a == ('op', '-') and b[0] in ('int', 'flt') and c == ('op', '**')
                          for a, b, c in zip(toks, toks[1:], toks[2:])):
        return 'negative_number_power'
    # sqrt((-2*m)**2): the exponents in _names are halved, the sign of the number is kept
    if st == 'ok' and ('op', '-') in toks and re.search(r'-\s*[\d.]', e) and \
            re.search(r'\*\*\s*\(?\s*-?\s*(\d*\.\d*|1\.?\s*/)', e):
        return 'negative_number_root'
    return 'other'


def unstable_cause(e):
    if re.search(r'(?<![A-Za-z_])(?:\d+\.?\d*|\.\d+)[eE][-+]?\d', e):
        return 'exponent_literal'
    if re.search(r'[A-Za-z0-9]_[A-Za-z0-9]', e):
        return 'underscore_name'
    return 'other'


# ------------------------------------------------------------------------------------------------
# generators

INT_EXPS = ['2', '3', '-1', '-2', '2', '(-1)', '4', '-3', '1', '0']
INV_EXPS = {2: ['0.5', '(1/2)', '(1./2)', '(1/2.)'], 3: ['(1/3)', '(1./3)', '0.3333333333333333'],
            4: ['0.25', '(1/4)'], -2: ['-0.5', '(-1/2)'], 1: ['1.0'], -1: ['-1.0']}
NUMS = ['2', '3', '10', '1000', '60', '0.5', '2.5', '1e3', '1.e3', '1e-3', '1.5e-3', '100.0',
        '0.001', '1E6', '3.', '.5', '4.184', '1e2', '2.54e-2']
VALUES = [F(0), F(1), F(-1), F(1, 2), F(100), F(-40), F(75, 2), F(1, 10 ** 6), F(10 ** 6),
          F(-27315, 100), F(3, 7), F(-12345678, 1000), F(2) ** -20, F(212), F(32)]


def gen_value(rng):
    r = rng.random()
    if r < 0.5:
        return rat(float(rng.choice(VALUES)))
    if r < 0.8:
        return rat(rng.uniform(-1000.0, 1000.0))
    return rat(rng.choice([-1, 1]) * 10.0 ** rng.uniform(-9, 9))


def gen_atom(spec, rng):
    r = rng.random()
    if r < 0.50:
        return rng.choice(spec.plain_names)
    if r < 0.86:
        return rng.choice(list(spec.prefixes)) + rng.choice(spec.plain_names)
    if r < 0.91:
        return 'as'
    return rng.choice([n for n in spec.plain_names if re.search(r'[0-9_]', n)] or spec.plain_names)


def _par(s, rng, force):
    simple = re.fullmatch(r'[A-Za-z_][A-Za-z0-9_]*', s) is not None
    if (force and not simple) or rng.random() < 0.1:
        return '(' + s + ')'
    return s


def gen_expr(spec, rng, d):
    r = rng.random()
    if d <= 0 or r < 0.25:
        return gen_atom(spec, rng)
    if r < 0.50:
        return gen_expr(spec, rng, d - 1) + '*' + _par(gen_expr(spec, rng, d - 1), rng, False)
    if r < 0.70:
        return gen_expr(spec, rng, d - 1) + '/' + _par(gen_expr(spec, rng, d - 1), rng, True)
    if r < 0.83:
        return _par(gen_expr(spec, rng, d - 1), rng, True) + '**' + rng.choice(INT_EXPS)
    if r < 0.93:
        g = gen_expr(spec, rng, d - 1)
        n = rng.choice(NUMS)
        form = rng.randrange(4)
        if form == 0:
            return n + '*' + _par(g, rng, False)
        if form == 1:
            return g + '*' + n
        if form == 2:
            return g + '/' + n
        return n + '/' + _par(g, rng, True)
    n = rng.choice(list(INV_EXPS))
    g = _par(gen_expr(spec, rng, d - 1), rng, True)
    if abs(n) > 1:
        g = '(' + g + '**%d)' % abs(n)
    return g + '**' + rng.choice(INV_EXPS[n])


def gen_good_expr(spec, rng):
    """A composite expression whose implied factor stays far from overflow."""
    for _ in range(50):
        e = gen_expr(spec, rng, rng.choice([1, 2, 2, 3]))
        if rng.random() < 0.1:
            e = ' ' + re.sub(r'(?<!\*)\*(?!\*)', ' * ', e, count=1) + ' '
        im = spec.implied(e)
        if im is None:
            if rng.random() < 0.15:       # keep a few the documented rules cannot resolve
                return e
            continue
        if im[0] > 0 and QU.peak < 120:
            return e
    return 'm'


OFFSET_TEMPLATES = ['%(o)s', '%(o)s*%(u)s', '%(u)s*%(o)s', '%(u)s/%(o)s', '%(o)s/%(u)s', '%(o)s**2',
                    '%(o)s**-1', '2*%(o)s', '%(o)s*2.0', '%(o)s/2', '1/%(o)s', '1/%(o)s*%(u)s',
                    '%(u)s*(1/%(o)s)', '(1/%(o)s)**-1', '(1/%(o)s)**2', '1.0/%(o)s', 'k%(o)s', 'm%(o)s',
                    '%(o)s**0.5', '(%(o)s)', '%(o)s*%(o)s', '%(o)s/%(o)s', '2/%(o)s/%(u)s']

MALFORMED = ['', ' ', 'm**', '*m', 'm*', '(m', 'm)', 'm//s', 'm**2.0', 'm**0.3', 'm**0.5', 'm/0',
             'm/0.0', '0*m', 'm**0.0', 'm**1e300', 'foo', 'foo*m', 'm*foo', 'kfoo', 'xm', 'm_s',
             'mas', '2*3', '2', '1.5', 'm+m', 'm-m', '-m', '2**m', 'm**m', 'm m', 'm,s', 'in', 'None',
             'm**(1/2)', '(m**3)**0.5', 'km**0.5', 'M', 'KM', 'Km', 'mM', 'kkm', 'dada', 'mmm',
             '1e3*km', 'km*1e3', '1.5e3*mm', 'arc_minute*km', 'km*arc_minute', 'drag_count*cm',
             'ms*1E-3', '2e0*kPa', 'inHg60*mbar', 'e3', '1/0', 'm/(2-2)', '(m)(s)', 'm**-0.0',
             '(m**2)**0.49999', '(m**2)**0.50000000001', 'm**2**0.5', 'm**-2**2', '-2*m', '(-2*m)**2',
             'm/m*2', 'm/m', 'ft*3/3', 'unitless*2', '2*unitless/2', '1e400*m', '$', 'm$']


class C06(Property):
    pid = 'C06'
    workers = 8
    tolerance = {'relative': REL,
                 'note': "model (exact rationals on the exact table values) vs implementation "
                         "(doubles): |a-b| <= k*1e-13*scale with k<=16 and scale the magnitude of "
                         "the terms entering the last subtraction; same bound for the oracle's laws"}
    required_theorems = [
        'C06_convert_preserves_quantity', 'C06_roundtrip', 'C06_compose', 'C06_compat_equiv',
        'C06_convert_ok_iff_compat', 'C06_convert_ok_iff_compat_needs_nonzero',
        'C06_mul_factor', 'C06_div_factor', 'C06_rdiv_factor', 'C06_pow_factor', 'C06_pow_inv_factor',
        'C06_prefix_factor', 'C06_offset_arith_rejected',
        'C06_names_invariant', 'C06_name_sound', 'C06_simplify_sound',
        'C06_simplify_inverse_power_witness', 'C06_offset_rdiv_witness',
        'C06_simplify_negative_number_witness', 'C06_simplify_number_only_witness',
        'C06_prefix_scan_witness',
        'C06_lib_wellformed', 'C06_lib_offsets', 'C06_lib_laws',
        'C06_prefix_scan_preserves_wellformed', 'C06_lib_prefix_ne_zero',
    ]
    rule = ("cases are scripts of public API calls run from the pristine library: every ordered pair "
            "of the shipped units (one case per first unit), sampled triples, prefixed forms, random "
            "composite expressions (products, quotients, integer / inverse-integer powers, numeric "
            "factors, prefixes, 'as', names with digits/underscores) with their simplified form, "
            "their base-unit form and a partner, the library's own definitions, offset-unit "
            "templates, a malformed stream and table-mutation sequences. Non-trivial: the script "
            "contains a successful conversion between two different expressions, or a simplify of a "
            "composite expression; distinct by canonical case encoding.")
    assumptions = ["units with non-zero finite factor (zero / overflowing numeric factors appear "
                   "only in the malformed stream, where just consistency of rejection is checked)",
                   "simplify soundness is proved for expressions with integer powers; inverse-integer "
                   "powers are covered by the differential runs and the direct oracle",
                   "doubles are compared with exact rationals under the recorded tolerance",
                   "each script starts from import_library(unit_library.ini): what _find_unit accepts "
                   "depends on which prefixed units earlier calls added to unit_table"]
    level_text = ("PhysicalUnit arithmetic, conversion_tuple_to/convert_units, is_compatible, the "
                  "expression grammar with Python's int/float dispatch, _find_unit's two phases with "
                  "SI-prefix expansion and table mutation, and name()/simplify_unit are modelled in "
                  "Lean; round trip, composition, compatibility-decides-success, the factor laws and "
                  "simplify soundness are proved over any field (simplify over the rationals) for "
                  "units with non-zero factor, and the hypotheses are kernel-checked on the whole "
                  "shipped table regenerated from the live library on every run.")
    level_note = ("Trusted: Lean kernel + standard axioms; the Python harness and the translator; "
                  "Python's tokenizer/eval precedence (mirrored by the model's parser, tied "
                  "differentially). Modelled, not verified: IEEE rounding (tolerance 1e-13), "
                  "x**(1/n) for non-perfect powers (model abstains), _UNIT_CACHE (transparent "
                  "because the table is monotone).")
    technique = "Lean 4 proof over fields + generated-table kernel checks + differential scripts"
    trusted_extra = ["Python's expression grammar as implemented by the model's parser (tied by the "
                     "differential runs and by the independent Fraction oracle, which uses Python's "
                     "own eval)",
                     "parseToks (nameToks n) = nameExpr n is checked by the driver on every case "
                     "(field `link`), not proved for all names"]

    def __init__(self):
        self.spec = None

    # -- translator ------------------------------------------------------------------------------
    def translate(self):
        table, prefixes, base_names = extract_library()
        try:
            guard = probe_prefix_guard()
        except Exception as e:
            raise TieBroken('prefix-guard probe failed: %s: %s' % (type(e).__name__, e))
        offs = write_generated(table, prefixes, base_names, guard)
        self.spec = Spec(table, prefixes, base_names)
        bad = [k for k, v in prefixes if k in GOLDEN_PREFIX and not close(v, GOLDEN_PREFIX[k], k=0.01)]
        facts = ['unit table regenerated from the live library: %d units, %d prefixes, %d base units, '
                 'offset units %s' % (len(table), len(prefixes), len(base_names), offs)]
        if bad:
            facts.append('prefix multipliers that are not the SI/IEC values: %s' % bad)
        facts.append('prefix applied to a unit added by an earlier prefix scan: %s -> model run with '
                     'guardPrefixed=%s' % ('refused (repaired)' if guard else 'accepted (as pinned)',
                                           'true' if guard else 'false'))
        facts.extend(self.quirk_facts())
        return facts

    @staticmethod
    def quirk_facts():
        """The model follows the code after five repairs (see the header of OMV/Model/C06.lean); say
        for each whether the live code still behaves that way (if not, the named model definition
        is stale, which shows up as a correspondence difference / oracle failure on those inputs)."""
        def run(f):
            try:
                U = reset_library()
                with warnings.catch_warnings():
                    warnings.simplefilter('ignore')
                    return f(U)
            except Exception as e:
                return type(e).__name__
        probes = [
            ('integer exponents in _names after an inverse-integer power', 'ndDiv / PUnit.powInv',
             lambda U: U.simplify_unit('(ft**4)**0.5'), 'ft**2'),
            ('__rdiv__ rejects an offset unit', 'PUnit.rdiv',
             lambda U: U.simplify_unit('1/degC*m'), 'TypeError'),
            ('prefix scan takes whole identifiers, not parts of numbers', 'scanItemsAux',
             lambda U: (U.valid_units('km*1e3'), U.valid_units('Mm*arc_minute')), (True, True)),
            ('name() parenthesises a negative number', 'atomToks / pieceExpr',
             lambda U: U.simplify_unit('(-2*m)**2'), 'm**2*(-2)**2'),
            ('simplify_unit returns its argument when only numbers are left', 'apiSimplify',
             lambda U: U.simplify_unit('m/m*2'), 'm/m*2'),
        ]
        out = []
        for what, defs, f, want in probes:
            got = run(f)
            out.append('modelled behaviour "%s": %s' % (
                what, 'present' if got == want else
                'ABSENT (got %r): model definition %s no longer follows the code' % (got, defs)))
        return out

    def setup(self, tier):
        if self.spec is None:
            self.spec = Spec(*extract_library())

    # -- cases -------------------------------------------------------------------------------------
    def cases(self, rng, tier):
        self.setup(tier)
        sp = self.spec
        thorough = tier == 'thorough'
        # every ordered pair of library units
        for a in sp.names:
            yield {'kind': 'pairs', 'a': a, 'bs': list(sp.names), 'x': gen_value(rng),
                   'cold': rng.random() < 0.5}
        # the library's own definitions
        for name, defn in self.ini_definitions():
            yield {'kind': 'libdef', 'name': name, 'defn': defn, 'x': gen_value(rng)}
        yield {'kind': 'nounits', 'x': gen_value(rng)}
        # prefixed forms
        allp = [(p, n) for p in sp.prefixes for n in sp.names]
        chosen = allp if thorough else rng.sample(allp, 300)
        for p, n in chosen:
            yield {'kind': 'prefix', 'e': p + n, 'q': n, 'x': gen_value(rng), 'cold': rng.random() < 0.5}
        # triples, mostly inside one compatibility class
        big = [g for g in sp.groups.values() if len(g) >= 3]
        for _ in range(30000 if thorough else 300):
            def pick():
                r = rng.random()
                n = rng.choice(rng.choice(big)) if r < 0.5 else rng.choice(sp.names)
                if n not in sp.offset_names and rng.random() < 0.3:
                    n = rng.choice(list(sp.prefixes)) + n
                return n
            if rng.random() < 0.8:
                g = rng.choice(big)
                tri = [rng.choice(g) for _ in range(3)]
                tri = [(rng.choice(list(sp.prefixes)) + n) if (n not in sp.offset_names and
                                                              rng.random() < 0.25) else n for n in tri]
            else:
                tri = [pick(), pick(), pick()]
            yield {'kind': 'triple', 'a': tri[0], 'b': tri[1], 'c': tri[2], 'x': gen_value(rng),
                   'cold': rng.random() < 0.5}
        # composite expressions
        for _ in range(50000 if thorough else 900):
            e = gen_good_expr(sp, rng)
            q = None
            r = rng.random()
            if r < 0.35:
                q = gen_good_expr(sp, rng)
            elif r < 0.7:
                im = sp.implied(e)
                if im is not None and im[1] in sp.groups:
                    q = rng.choice(sp.groups[im[1]])
            yield {'kind': 'expr', 'e': e, 'q': q, 'x': gen_value(rng), 'cold': rng.random() < 0.5}
        # triples of composite expressions of one dimension: e, e*k, base form
        for _ in range(8000 if thorough else 120):
            e = gen_good_expr(sp, rng)
            im = sp.implied(e)
            if im is None:
                continue
            b = sp.base_expr(im[1])
            c = rng.choice(sp.groups[im[1]]) if im[1] in sp.groups and rng.random() < 0.7 \
                else rng.choice(NUMS) + '*' + b
            yield {'kind': 'triple', 'a': e, 'b': b, 'c': c, 'x': gen_value(rng),
                   'cold': rng.random() < 0.5}
        # offset units in every arithmetic position
        for o in sp.offset_names:
            for t in OFFSET_TEMPLATES:
                for _ in range(8 if thorough else 1):
                    yield {'kind': 'offset', 'e': t % {'o': o, 'u': gen_atom(sp, rng)},
                           'q': rng.choice(sp.offset_names + ['K', 'degR']), 'x': gen_value(rng),
                           'cold': rng.random() < 0.5}
        # malformed stream
        for e in MALFORMED:
            yield {'kind': 'malformed', 'e': e, 'x': gen_value(rng)}
        for _ in range(3000 if thorough else 80):
            e = gen_good_expr(sp, rng)
            k = rng.randrange(6)
            pos = rng.randrange(len(e) + 1)
            if k == 0:
                e = e[:pos] + rng.choice(['*', '/', '**', '(', ')', ' ', '.', '-']) + e[pos:]
            elif k == 1 and e:
                e = e[:pos - 1] + e[pos:]
            elif k == 2:
                e = e + rng.choice(['*foo', '/q1', '**0.3', '**2.0', '*degC', '/degF', '/0', '*0'])
            elif k == 3:
                e = e.swapcase()
            elif k == 4:
                e = e.replace('*', '', 1)
            else:
                e = rng.choice(['x', 'q', 'kk', 'j']) + e
            yield {'kind': 'malformed', 'e': e, 'q': rng.choice(['m', 's', 'kg*m/s**2', 'degC']),
                   'x': gen_value(rng)}
        # table mutation sequences
        for _ in range(1500 if thorough else 50):
            seq = []
            pool = [gen_good_expr(sp, rng) for _ in range(2)] + \
                   [rng.choice(MALFORMED), rng.choice(list(sp.prefixes)) + rng.choice(sp.plain_names),
                    rng.choice(list(sp.prefixes)) + rng.choice(list(sp.prefixes)) + rng.choice(sp.plain_names)]
            for _ in range(rng.randrange(3, 8)):
                e = rng.choice(pool)
                f = rng.choice(['find', 'find', 'simplify', 'conv', 'compat'])
                seq.append([f, e] if f in ('find', 'simplify') else [f, e, rng.choice(pool)])
            yield {'kind': 'stateful', 'steps': seq}

    def ini_definitions(self):
        cp = configparser.RawConfigParser()
        cp.optionxform = lambda s: s
        try:
            cp.read(_ini_path())
            items = cp.items('units')
        except Exception:
            return []
        out = []
        for name, text in items:
            data = [t.strip() for t in text.split(',')]
            if len(data) == 2 and 'pi' not in re.findall(r'[A-Za-z_]\w*', data[0]):
                out.append((name, data[0]))
        return out

    # -- real code -------------------------------------------------------------------------------
    def run_impl(self, case):
        self.setup(None)
        R = program(self.spec, case)
        # an API call that raised ValueError rejected one of its unit arguments: probe each of them
        # in a fresh library (twice) so that the oracle can tell "never accepted" from "accepted
        # depending on the call history"
        probe = {}
        for st, r in zip(list(R.steps), list(R.res)):
            if st[0] in ('compat', 'conv', 'convert') and r.get('err') == 'invalid':
                for e in st[-2:]:
                    if isinstance(e, str) and e and e not in probe and len(probe) < 8:
                        U = reset_library()
                        r0 = exec_step(U, ['find', e])
                        r1 = exec_step(U, ['find', e])
                        probe[e] = ['ok' if r0.get('ok') else r0.get('err'),
                                    'ok' if r1.get('ok') else r1.get('err')]
        return {'steps': R.steps, 'res': R.res, 'laws': R.laws, 'probe': probe}

    # -- direct oracle ---------------------------------------------------------------------------
    def units_seen(self, impl):
        """expression -> (f, o, p) from any successful `find`, and the list of acceptance statuses
        of the steps that resolve that expression alone."""
        U = {}
        status = {}
        for st, r in zip(impl['steps'], impl['res']):
            if st[0] in ('find', 'simplify'):
                status.setdefault(st[1], []).append('ok' if r.get('ok') else r.get('err'))
            if st[0] == 'find' and r.get('ok') and 'f' in r:
                U[st[1]] = (unrat(r['f']), unrat(r['o']), tuple(r['p']))
        for e, sts in impl.get('probe', {}).items():
            status[e] = list(sts) + status.get(e, [])
        return U, status

    def failures(self, case, impl):
        sp = self.spec
        steps, res = impl['steps'], impl['res']
        U, status = self.units_seen(impl)
        out = []
        if any(r.get('nonfinite') for r in res):
            return out                       # overflow to inf/nan: outside the assumptions
        unstable = set()
        for e, sts in status.items():
            if 'ok' in sts and any(s != 'ok' for s in sts):
                unstable.add(e)
                # reported for inputs built from the documented vocabulary only; the malformed
                # stream and the table-mutation sequences are compared with the model instead
                if case['kind'] not in ('stateful', 'malformed'):
                    out.append({'law': 'stable_acceptance', 'cause': unstable_cause(e),
                                'what': 'the same expression is rejected by one call and accepted by '
                                        'another call (the answer depends on the call history)',
                                'expr': e, 'statuses': sts})

        def known(e):
            return e in U and U[e][0] != 0 and e not in unstable

        # semantic check of every conversion step against factor/offset/powers of the two units
        for st, r in zip(steps, res):
            op = st[0]
            if op == 'compat' and r.get('ok') and st[1] and st[2] and known(st[1]) and known(st[2]):
                if r['b'] != (U[st[1]][2] == U[st[2]][2]):
                    out.append({'law': 'compat', 'cause': 'value', 'step': st, 'got': r,
                                'what': 'is_compatible differs from equality of the dimensions'})
            if op in ('conv', 'convert'):
                a, b = (st[1], st[2]) if op == 'conv' else (st[2], st[3])
                if not (a and b and known(a) and known(b)):
                    continue
                (fa, oa, pa), (fb, ob, pb) = U[a], U[b]
                if pa != pb:
                    if r.get('ok'):
                        out.append({'law': 'decides', 'cause': 'incompatible_converted', 'step': st,
                                    'what': 'conversion between different dimensions succeeded'})
                    continue
                if not r.get('ok'):
                    out.append({'law': 'decides', 'cause': 'compatible_failed', 'step': st, 'got': r,
                                'what': 'conversion between equal dimensions failed'})
                    continue
                S = fa / fb
                D = oa - ob * fb / fa
                if op == 'conv':
                    if not (close(unrat(r['s']), S, k=4) and
                            close(unrat(r['d']), D, scale=abs(oa) + abs(ob * fb / fa), k=4)):
                        out.append({'law': 'tuple', 'cause': 'value', 'step': st, 'got': r,
                                    'expected': [rat(S), rat(D)],
                                    'what': 'unit_conversion differs from (fa/fb, oa - ob*fb/fa)'})
                else:
                    x = unrat(st[1])
                    exp = (x + oa) * fa / fb - ob
                    sc = (abs(x) + abs(oa)) * abs(S) + abs(ob)
                    if not close(unrat(r['v']), exp, scale=sc, k=8):
                        out.append({'law': 'convert', 'cause': 'value', 'step': st, 'got': r,
                                    'expected': rat(exp),
                                    'what': 'convert_units differs from (x+oa)*fa/fb - ob'})
        # the laws recorded by the program
        for law in impl['laws']:
            name = law[0]
            if name == 'roundtrip':
                i, j = law[1], law[2]
                st = steps[i]
                a, b = st[2], st[3]
                if not res[j].get('ok'):
                    if a not in unstable and b not in unstable:
                        out.append({'law': 'roundtrip', 'cause': 'back_failed', 'step': st,
                                    'what': 'A->B succeeded, B->A failed', 'got': res[j]})
                    continue
                x = unrat(st[1])
                sc = abs(x)
                if known(a) and known(b):
                    (fa, oa, _), (fb, ob, _) = U[a], U[b]
                    sc = abs(x) + abs(oa) + abs(ob * fb / fa)
                if not close(unrat(res[j]['v']), x, scale=sc, k=16):
                    out.append({'law': 'roundtrip', 'cause': 'value', 'step': st, 'got': res[j],
                                'what': 'A->B->A does not return the value'})
            elif name == 'compose':
                i, j, k = law[1], law[2], law[3]
                if not (res[j].get('ok') and res[k].get('ok')):
                    if res[j].get('ok') != res[k].get('ok') and not (
                            {steps[i][2], steps[i][3], steps[k][3]} & unstable):
                        out.append({'law': 'compose', 'cause': 'status', 'step': steps[i],
                                    'what': 'A->B->C and A->C do not both succeed',
                                    'got': [res[j], res[k]]})
                    continue
                a, b, c = steps[i][2], steps[i][3], steps[k][3]
                x = unrat(steps[i][1])
                y2, y3 = unrat(res[j]['v']), unrat(res[k]['v'])
                sc = max(abs(y2), abs(y3))
                if known(a) and known(b) and known(c):
                    (fa, oa, _), (fb, ob, _), (fc, oc, _) = U[a], U[b], U[c]
                    sc = ((abs(x) + abs(oa)) * abs(fa / fb) + abs(ob)) * abs(fb / fc) + abs(oc)
                if not close(y2, y3, scale=sc, k=16):
                    out.append({'law': 'compose', 'cause': 'value', 'step': steps[i],
                                'got': [res[j], res[k]], 'what': 'A->B->C differs from A->C'})
            elif name == 'decides':
                ic, iv, ix, a, b = law[1:6]
                if a in unstable or b in unstable:
                    continue
                rc, rv, rx = res[ic], res[iv], res[ix]
                if rc.get('ok'):
                    good = (rv.get('ok') and rx.get('ok')) if rc['b'] else \
                        (rv.get('err') == 'error' and rx.get('err') == 'error')
                else:
                    good = not rv.get('ok') and not rx.get('ok')
                # a zero factor (outside the assumptions) makes compatible units unconvertible
                if not good and not any(e in U and U[e][0] == 0 for e in (a, b)):
                    out.append({'law': 'decides', 'cause': 'status', 'units': [a, b],
                                'got': [rc, rv, rx],
                                'what': 'is_compatible does not decide whether conversion succeeds'})
            elif name == 'symm':
                r1, r2 = res[law[1]], res[law[2]]
                if r1.get('ok') and r2.get('ok') and r1['b'] != r2['b']:
                    out.append({'law': 'compat', 'cause': 'symmetry', 'what': 'is_compatible not symmetric',
                                'step': steps[law[1]]})
            elif name == 'refl':
                r1 = res[law[1]]
                if r1.get('ok') and not r1['b']:
                    out.append({'law': 'compat', 'cause': 'reflexivity', 'step': steps[law[1]],
                                'what': 'is_compatible(a, a) is False'})
            elif name == 'trans':
                r1, r2, r3 = (res[i] for i in law[1:4])
                if all(r.get('ok') for r in (r1, r2, r3)) and r1['b'] and r2['b'] and not r3['b']:
                    out.append({'law': 'compat', 'cause': 'transitivity', 'step': steps[law[1]],
                                'what': 'is_compatible not transitive'})
            elif name == 'simplify':
                i_s, i_f, i_r, e = law[1:5]
                rs, rf = res[i_s], res[i_f]
                if e in unstable:
                    continue
                if not rf.get('ok'):
                    if rs.get('ok'):
                        out.append({'law': 'simplify', 'cause': 'accepts_rejected', 'expr': e,
                                    'what': 'simplify_unit accepts what _find_unit rejects'})
                    continue
                if 'f' not in rf:
                    continue
                f, o, p = unrat(rf['f']), unrat(rf['o']), tuple(rf['p'])
                if not rs.get('ok'):
                    out.append({'law': 'simplify', 'cause': 'rejects_accepted', 'expr': e, 'got': rs,
                                'what': 'simplify_unit fails on an accepted expression'})
                    continue
                s = rs['s']
                if s is None:
                    if not (close(f, 1, k=16) and o == 0 and not any(p)):
                        out.append({'law': 'simplify', 'cause': 'none_for_nonunity', 'expr': e,
                                    'what': 'simplify_unit returned None for a unit that is not 1'})
                    continue
                rb = res[i_r]
                okb = rb.get('ok') and 'f' in rb and tuple(rb['p']) == p and \
                    close(unrat(rb['f']), f, k=16) and close(unrat(rb['o']), o, scale=max(abs(o), 1), k=4)
                if not okb:
                    out.append({'law': 'simplify', 'cause': simplify_cause(sp, e, s, rb), 'expr': e,
                                'simplified': s, 'reparse': rb,
                                'what': 'simplify_unit result does not denote the same unit'})
            elif name == 'implied':
                i, e = law[1], law[2]
                r = res[i]
                if not (r.get('ok') and 'f' in r) or e in unstable:
                    continue
                im = sp.implied(e)
                if im is None or QU.peak > 250 or unrat(r['f']) == 0:
                    continue            # intermediate doubles would overflow / underflow
                f, p, o, approx = im
                if not (tuple(r['p']) == p and close(unrat(r['f']), f, k=(1e4 if approx else 32)) and
                        close(unrat(r['o']), o, scale=max(abs(o), 1), k=4)):
                    out.append({'law': 'implied', 'cause': 'value', 'expr': e, 'got': r,
                                'expected': [rat(f), list(p), rat(o)],
                                'what': 'factor/dimension/offset differ from what the parts imply'})
            elif name == 'golden':
                i, e = law[1], law[2]
                r = res[i]
                rr = sp.resolve(AS_RE.sub('as_', e))
                if r.get('ok') and 'f' in r and rr and rr[0] == 'prefixed' and rr[1] in GOLDEN_PREFIX:
                    if not close(unrat(r['f']), GOLDEN_PREFIX[rr[1]] * sp.units[rr[2]][0], k=32):
                        out.append({'law': 'prefix', 'cause': 'golden', 'expr': e, 'got': r,
                                    'what': 'prefixed unit is not the SI multiple of its base'})
            elif name == 'same':
                r1, r2 = res[law[1]], res[law[2]]
                if r1.get('ok') and r2.get('ok') and 'f' in r1 and 'f' in r2:
                    if not (r1['p'] == r2['p'] and close(unrat(r1['f']), unrat(r2['f']), k=32)):
                        out.append({'law': 'implied', 'cause': 'library_definition',
                                    'expr': steps[law[2]][1], 'got': [r1, r2],
                                    'what': 'library unit differs from its own definition'})
            elif name == 'rejected':
                idx, e = law[1], law[2]
                oks = [res[i].get('ok') for i in idx]
                if e and not res[idx[0]].get('ok') and not res[idx[-1]].get('ok') and any(oks):
                    out.append({'law': 'decides', 'cause': 'rejected_but_used', 'expr': e,
                                'what': 'an expression _find_unit rejects is accepted by another API'})
            elif name == 'nounits':
                x = law[1]
                for st, r in zip(steps, res):
                    if st[0] == 'convert' and not (r.get('ok') and unrat(r['v']) == F(float(unrat(x)))):
                        out.append({'law': 'nounits', 'cause': 'value', 'step': st, 'got': r,
                                    'what': 'convert_units with a missing unit must return the value'})
                    if st[0] == 'compat' and not st[1] and not st[2] and not (r.get('ok') and r['b']):
                        out.append({'law': 'nounits', 'cause': 'compat', 'step': st, 'got': r,
                                    'what': 'is_compatible(None, None) must be True'})
        return out

    def oracle(self, case, impl):
        from common import match_known
        fs = self.failures(case, impl)
        if not fs:
            return None
        for f in fs:                      # report an unknown failure before a known one
            if match_known(self.pid, self.signature(case, impl, f)) is None:
                return f
        return fs[0]

    def signature(self, case, impl, failure):
        return {'law': failure.get('law'), 'cause': failure.get('cause')}

    def nontrivial(self, case, impl):
        for st, r in zip(impl['steps'], impl['res']):
            if st[0] == 'convert' and r.get('ok') and st[2] and st[3] and st[2] != st[3]:
                return True
            if st[0] == 'simplify' and r.get('ok') and re.search(r'[*/(]', st[1]):
                return True
        return False

    def bucket(self, case, impl):
        out = ['kind=' + case['kind']]
        for st, r in zip(impl['steps'], impl['res']):
            out.append('step=%s:%s' % (st[0], 'ok' if r.get('ok') else
                                       r.get('err') + (':' + r.get('type', '') if r.get('err') == 'error' else '')))
        e = case.get('e')
        if e is not None:
            if re.search(r'\*\*\s*\(?-?\d*\.\d*|\*\*\s*\(-?1\.?/', e):
                out.append('expr:float_power')
            if re.search(r'\*\*\s*\(?-?\d+\)?(?![\d./])', e):
                out.append('expr:int_power')
            if re.search(r'(?<![A-Za-z_\d])(\d+\.?\d*|\.\d+)([eE][-+]?\d+)?(?![\w.])', e):
                out.append('expr:numeric_factor')
            for ident in set(IDENT.findall(AS_RE.sub('as_', e))):
                rr = self.spec.resolve(ident)
                out.append('atom:' + ('unknown' if rr is None else rr[0]))
            if re.search(r'\bas\b', e):
                out.append('expr:as')
        out.append('cold' if case.get('cold', True) else 'warm')
        return out

    # -- model -----------------------------------------------------------------------------------
    def model_requests(self, case, impl):
        return [{'op': 'script', 'steps': impl['steps']}]

    @staticmethod
    def _underflow(r, m):
        """the implementation's double underflowed (0 or subnormal) where the exact value is tiny"""
        tiny = F(1, 10 ** 290)
        for k in ('f', 's', 'd', 'v'):
            if k in r and k in m and isinstance(r[k], str) and isinstance(m[k], str):
                a, b = abs(unrat(r[k])), abs(unrat(m[k]))
                if a < tiny and 0 < b < tiny and a != b:
                    return True
        return False

    def compare(self, case, impl, answers):
        ans = answers[0].get('res')
        if ans is None or len(ans) != len(impl['res']):
            return 'driver returned %r' % (answers[0],)
        U, _ = self.units_seen(impl)
        for k, (st, r, m) in enumerate(zip(impl['steps'], impl['res'], ans)):
            if m.get('err') == 'abstain':
                return None             # outside the modelled fragment from here on
            if r.get('nonfinite') or r.get('type') == 'OverflowError':
                return None             # double overflow: outside the exact model
            cat_i = 'ok' if r.get('ok') else r.get('err')
            cat_m = 'ok' if m.get('ok') else m.get('err')
            where = 'step %d %r' % (k, st)
            if cat_i != cat_m:
                return '%s: implementation %s (%s), model %s (%s)' % (
                    where, cat_i, r.get('type', ''), cat_m, m.get('kind', ''))
            if cat_i != 'ok':
                continue
            if self._underflow(r, m):
                return None             # double underflow: outside the exact model
            op = st[0]
            if op == 'find':
                if r['p'] != m['p'] or not close(unrat(r['f']), unrat(m['f']), k=16) or \
                        not close(unrat(r['o']), unrat(m['o']), scale=max(abs(unrat(m['o'])), 1), k=4):
                    return '%s: implementation %s, model %s' % (where, r, {k2: m[k2] for k2 in 'fop'})
            elif op == 'compat':
                if r['b'] != m['b']:
                    return '%s: implementation %s, model %s' % (where, r['b'], m['b'])
            elif op == 'conv':
                sc = 1
                if st[1] in U and st[2] in U and U[st[1]][0] != 0:
                    sc = abs(U[st[1]][1]) + abs(U[st[2]][1] * U[st[2]][0] / U[st[1]][0])
                if not close(unrat(r['s']), unrat(m['s']), k=16) or \
                        not close(unrat(r['d']), unrat(m['d']), scale=max(sc, abs(unrat(m['d']))), k=16):
                    return '%s: implementation %s, model %s' % (where, r, m)
            elif op == 'convert':
                x = unrat(st[1])
                mv = unrat(m['v'])
                sc = max(abs(mv), abs(x))
                a, b = st[2], st[3]
                if a in U and b in U and U[a][0] != 0 and U[b][0] != 0:
                    sc = (abs(x) + abs(U[a][1])) * abs(U[a][0] / U[b][0]) + abs(U[b][1])
                if not close(unrat(r['v']), mv, scale=sc, k=16):
                    return '%s: implementation %s, model %s' % (where, r['v'], m['v'])
            elif op == 'simplify':
                if m.get('same'):
                    # the model says: simplify_unit returned its argument
                    if r['s'] != st[1]:
                        return '%s: implementation %r, model: the argument itself' % (where, r['s'])
                    continue
                if (r['s'] is None) != (m['toks'] is None):
                    return '%s: implementation %r, model %s' % (where, r['s'], m['toks'])
                if r['s'] is None:
                    continue
                ti = tokenize(r['s'])
                tm = m['toks']
                if m.get('link') is False:
                    return '%s: model self-check failed: parse(name tokens) != name expression' % where
                bad = ti is None or len(ti) != len(tm)
                if not bad:
                    for (ka, va), (kb, vb) in zip(ti, tm):
                        if ka != kb:
                            bad = True
                        elif ka in ('int', 'flt'):
                            bad = bad or not close(va, unrat(vb), k=16)
                        else:
                            bad = bad or va != vb
                if bad:
                    return '%s: implementation %r, model tokens %s' % (where, r['s'], tm)
        return None


PROP = C06()
